"""State graph rebuilt from TLC-emitted edges, and path selection for replay (DESIGN.md 1, stage R).

An emitted edge is a dict with at least `pre`, `post` (abstract states) and a label part
(everything else).  Node identity = canonical JSON of the state."""
import json
import random
from collections import defaultdict, deque


def key(state):
    return json.dumps(state, sort_keys=True, separators=(",", ":"))


class Graph:
    def __init__(self, edges, label=lambda e: key({k: v for k, v in e.items() if k not in ("pre", "post")})):
        self.out = defaultdict(list)  # node -> list of edge index
        self.edges = []
        seen = set()
        for e in edges:
            a, b = key(e["pre"]), key(e["post"])
            ident = (a, label(e), b)
            if ident in seen:
                continue
            seen.add(ident)
            idx = len(self.edges)
            self.edges.append((a, b, e))
            self.out[a].append(idx)
        self.nodes = set(self.out) | {b for _, b, _ in self.edges}

    def roots(self):
        targets = {b for _, b, _ in self.edges}
        r = [n for n in self.out if n not in targets]
        # TLC explores breadth-first from Init: when the initial state can be re-entered (it then has
        # incoming edges) it is still the source of the first emitted edge
        return r or [self.edges[0][0]]

    def bfs(self, root):
        """shortest edge-paths from root: node -> list of edge indexes"""
        dist = {root: []}
        dq = deque([root])
        while dq:
            n = dq.popleft()
            for ei in self.out.get(n, ()):
                b = self.edges[ei][1]
                if b not in dist:
                    dist[b] = dist[n] + [ei]
                    dq.append(b)
        return dist

    def transition_cover(self, root, max_len=14, rng=None):
        """Paths from `root` that together traverse every reachable edge at least once."""
        rng = rng or random.Random(0)
        sp = self.bfs(root)
        uncovered = {i for i, (a, _, _) in enumerate(self.edges) if a in sp}
        paths = []
        order = sorted(uncovered, key=lambda i: (len(sp[self.edges[i][0]]), i))
        for first in order:
            if first not in uncovered:
                continue
            path = list(sp[self.edges[first][0]]) + [first]
            uncovered.discard(first)
            for ei in path:
                uncovered.discard(ei)
            node = self.edges[first][1]
            while len(path) < max_len:
                cand = [ei for ei in self.out.get(node, ()) if ei in uncovered]
                if not cand:
                    # one-step lookahead: a neighbour with uncovered out-edges
                    hop = None
                    for ei in self.out.get(node, ()):
                        b = self.edges[ei][1]
                        if any(x in uncovered for x in self.out.get(b, ())):
                            hop = ei
                            break
                    if hop is None or len(path) + 2 > max_len:
                        break
                    path.append(hop)
                    node = self.edges[hop][1]
                    continue
                ei = cand[rng.randrange(len(cand))] if rng else cand[0]
                path.append(ei)
                uncovered.discard(ei)
                node = self.edges[ei][1]
            paths.append(path)
        return paths

    def all_paths(self, root, depth, limit=None):
        """Every path of exactly `depth` edges (or shorter if stuck) from root."""
        res = []
        stack = [(root, [])]
        while stack:
            node, path = stack.pop()
            outs = self.out.get(node, ())
            if len(path) == depth or not outs:
                if path:
                    res.append(path)
                if limit and len(res) >= limit:
                    break
                continue
            for ei in outs:
                stack.append((self.edges[ei][1], path + [ei]))
        return res

    def random_walks(self, root, n, length, rng):
        res = []
        for _ in range(n):
            node, path = root, []
            for _ in range(length):
                outs = self.out.get(node, ())
                if not outs:
                    break
                ei = outs[rng.randrange(len(outs))]
                path.append(ei)
                node = self.edges[ei][1]
            res.append(path)
        return res

    def path_edges(self, path):
        return [self.edges[i][2] for i in path]
