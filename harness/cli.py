"""./check <id> [--tier quick|thorough] [--replay file] | --selftest"""
import argparse
import importlib
import json
import os
import sys
import traceback

from . import core, tlc


def selftest():
    """setup_cmd: the framework has nothing to build; verify the tools are present offline."""
    import numpy  # noqa
    import pyphysim  # noqa
    ok, out = tlc.sany("lib/Rat.tla")
    if not ok:
        print(out)
        return 2
    print("selftest ok")
    return 0


def main(argv=None):
    ap = argparse.ArgumentParser()
    ap.add_argument("prop", nargs="?")
    ap.add_argument("--tier", default=os.environ.get("VERIF_TIER", "quick"), choices=["quick", "thorough"])
    ap.add_argument("--seed", type=int, default=int(os.environ.get("VERIF_SEED", "0") or 0))
    ap.add_argument("--replay")
    ap.add_argument("--selftest", action="store_true")
    a = ap.parse_args(argv)
    if a.selftest:
        return selftest()
    if not a.prop:
        ap.error("property id required")
    mod = importlib.import_module(f"harness.props.{a.prop.lower()}")
    ctx = core.Ctx(a.prop, a.tier, a.seed)
    ctx.replay_mode = bool(a.replay)      # a replay re-runs one stored case: it must not overwrite the check's evidence file
    try:
        if a.replay:
            data = json.load(open(a.replay))
            mod.replay(ctx, data)
        else:
            mod.run(ctx)
        return ctx.finish()
    except tlc.TlcError as e:
        print(f"MACHINERY-FAILURE property={a.prop}: {e}", file=sys.stderr)
        return 2
    except Exception:
        traceback.print_exc()
        print(f"MACHINERY-FAILURE property={a.prop}: harness exception", file=sys.stderr)
        return 2


if __name__ == "__main__":
    sys.exit(main())
