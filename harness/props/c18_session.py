"""C18, histories on shared objects (spec/refsig/RefSession.tla).

TLC enumerates the complete graph of the session machine for several small configurations (one shared
RootSequence object; users created from an alphabet of descriptors in every order; estimators created on
those users; repeated estimate calls with different kept taps / observations / antenna counts / cover-code
layouts) together with the catalogue of exact `ue` / `est` records.  Paths covering every transition (plus
random walks) are executed on REAL objects that are really shared:

  after EVERY step   the root object's samples == exp(-j pi e / Nzc) of the emitted root exponents (FrameRoot)
                     every user object created so far == its catalogue record (FrameUsers)
  CreateEst          estimator on the shared user object (or on its array)
  Estimate           observation built from first principles with the shared objects as transmitted sequences,
                     result == DFT of the catalogue's impulse response (CallDependsOnArgsOnly; rel, 1e-8)
"""
import json
import random

import numpy as np

from .. import graph, tlc

MODULE = "refsig/RefSession.tla"
SESS_INVARIANTS = ["SessTypeOK", "FrameRoot", "FrameUsers", "CallDependsOnArgsOnly", "EarlierResultsUnchanged",
                   "ConstructionValuesKept"]
# /repo as it is: CazacBasedChannelEstimator(plain array) keeps a reference to the CALLER's array and does not freeze it, so a
# caller who overwrites that buffer changes the estimator (shortest input in notes/C18.md, patch in notes/fixes).  The regime is
# specified and executed; while this switch is False the mismatch on that one constructor is recorded in the evidence
# (`observed_not_judged`) instead of being reported through ctx.finding (the coordinator asked for a passing check on /repo in the
# last round); set it to True to judge it (finding id EstimatorKeepsCallersArray).
JUDGE_ESTIMATOR_ARRAY_ALIAS = True
FID_REFALIAS = "EstimatorKeepsCallersArray"
COVERS = [[], [1, 1], [1, -1], [-1, 1]]
# laws named in the `req` set of a session step that run_path evaluates after / during that step
EVALUATED = {"ConstructionValuesKept", "ArgumentsUnchanged", "FrameRoot", "FrameUsers", "EarlierResultsUnchanged", "CallDependsOnArgsOnly",
             "EstimateHomogeneous"}


def all_descriptors():
    d = [dict(fam="srs", ncs=n, cover=[], normalize=z) for n in range(8) for z in (False, True)]
    d += [dict(fam="dmrs", ncs=n, cover=cv, normalize=z) for n in range(12) for cv in COVERS for z in (False, True)]
    return d


def key(x):
    return json.dumps(x, sort_keys=True, separators=(",", ":"))


def tla_desc(d):
    cov = "<<" + ", ".join(str(x) for x in d["cover"]) + ">>"
    return f'[fam |-> "{d["fam"]}", ncs |-> {d["ncs"]}, cover |-> {cov}, normalize |-> {"TRUE" if d["normalize"] else "FALSE"}]'


def sess_model(alphabet, L, max_users, max_ests, variants, seed=0, dev=(), emit=True):
    from . import c18
    _, defs = c18.model([], dev=dev, seed=seed)
    defs.update({"SessL": str(L), "SessAlphabet": "{" + ", ".join(tla_desc(d) for d in alphabet) + "}",
                 "MaxUsers": str(max_users), "MaxEsts": str(max_ests),
                 "SessVars": "{" + ", ".join(str(v) for v in sorted(variants)) + "}"})
    cfg = tlc.cfg_text(defs=defs, init="SInit", next_="SNext", invariants=c18.INVARIANTS + SESS_INVARIANTS,
                       action_constraints=["SEmit"] if emit else [])
    return cfg, defs


def plan(tier, seed):
    """configurations: (label, alphabet, L, MaxUsers, MaxEsts, variants, walks)"""
    rng = random.Random(7000 + seed)
    th = tier == "thorough"
    desc = all_descriptors()
    rng.shuffle(desc)
    cfgs = []
    # every descriptor as first and as second user of a shared root (both orders), mixed SRS / DMRS
    nparts = 4 if th else 2
    sizes = [48, 72, 96, 120]
    for i in range(nparts):
        cfgs.append((f"pairs/{i}", desc[i::nparts], sizes[(i + seed) % 4], 2, 0, [], 0))
    # longer histories with an estimator called repeatedly; two estimators side by side
    nh = 8 if th else 3
    plain = [d for d in desc if not d["normalize"] and not d["cover"]]       # may be handed to an estimator as a plain array
    covered = [d for d in desc if d["cover"]]

    def with_required(al):
        """every run has a user whose sequence an estimator can take as a plain array and one with a cover code:
        OverwriteRef / OverwriteCover are enabled in it whatever the seed drew"""
        al = list(al)
        if not any(d in plain for d in al):
            al[-1] = rng.choice(plain)
        if len(al) > 2 and not any(d in covered for d in al):
            al[0] = rng.choice(covered)
        return al
    for i in range(nh):
        al = with_required(rng.sample(desc, 3))
        cfgs.append((f"hist/{i}", al, sizes[(i + 1 + seed) % 3], 3, 1, [1, 2, 3, 4] if th else [1, 2, 3], 60 if th else 15))
    for i in range(4 if th else 1):
        al = with_required(rng.sample(desc, 2))
        cfgs.append((f"two-est/{i}", al, sizes[(i + 2 + seed) % 3], 2, 2, [1, 2, 3], 60 if th else 20))
    return cfgs


DEV_RUNS = {
    # flag -> (alphabet, MaxUsers, MaxEsts, variants, invariants one of which TLC must report)
    "UserCreationAliasesRoot": ([dict(fam="srs", ncs=0, cover=[], normalize=True), dict(fam="srs", ncs=3, cover=[], normalize=False),
                                 dict(fam="dmrs", ncs=0, cover=[], normalize=False)], 3, 1, [1, 2], {"FrameRoot", "FrameUsers", "CallDependsOnArgsOnly"}),
    "CoverCodeIsCallersView": ([dict(fam="dmrs", ncs=2, cover=[1, -1], normalize=False)], 1, 1, [1], {"ConstructionValuesKept"}),
    "EstimatorKeepsCallersArray": ([dict(fam="srs", ncs=2, cover=[], normalize=False)], 1, 1, [1], {"ConstructionValuesKept"}),
    "ResultBufferReused": ([dict(fam="srs", ncs=2, cover=[], normalize=False)], 1, 1, [1, 2], {"EarlierResultsUnchanged"}),
    "WindowCachedOnEstimator": ([dict(fam="srs", ncs=2, cover=[], normalize=False), dict(fam="dmrs", ncs=5, cover=[1, -1], normalize=True)],
                                2, 1, [1, 3], {"CallDependsOnArgsOnly"}),
}


def run_dev(dev, seed):
    from . import c18
    al, mu, me, vs, want = DEV_RUNS[dev]
    cfg, defs = sess_model(al, 48, mu, me, vs, seed=seed, dev=[dev], emit=False)
    r = tlc.run(MODULE, cfg, defs=defs, env=c18.JVM_ENV, heap="1g")
    if r.violated not in want:
        raise tlc.TlcError(f"deviation {dev} is not refuted by the invariants of RefSession.tla "
                           f"(TLC reported {r.violated}, expected one of {sorted(want)})")
    return dev, r


# ------------------------------------------------------------------------------- replay
def expected_user(rec):
    from . import c18
    want = c18.unit(rec["e"], rec["nzc"]) * np.exp(2j * np.pi * np.asarray(rec["ramp"], dtype=float) / rec["rden"])
    if rec["cover"]:
        want = want[np.newaxis, :] * np.asarray(rec["cover"], dtype=float)[:, np.newaxis]
    return want / np.sqrt(rec["norm2"])


def run_path(job):
    """job = (label, L, u, nzc, root_e, ue_catalogue, est_catalogue, ops) -> (steps_ok, first violation or None)"""
    from pyphysim.reference_signals.channel_estimation import (CazacBasedChannelEstimator,
                                                               CazacBasedWithOCCChannelEstimator)
    from pyphysim.reference_signals.root_sequence import RootSequence
    from . import c18
    label, L, u, nzc, root_e, uecat, estcat, ops = job
    root = RootSequence(root_index=u, size=L)
    want_root = c18.unit(root_e, nzc)
    tol = c18.phase_tol(u, L, nzc)
    users, wants, ests = [], [], []
    held = []                      # (step, result object, copy at return): EarlierResultsUnchanged
    known = []                     # mismatches with the signature of a listed finding (the history goes on)
    caller_cov, caller_ref = [], []  # the buffers the caller handed to constructors: (buffer, values at construction)

    def frame(i, op):
        d = c18.maxdiff(root.seq_array(), want_root)
        if d > tol:
            return {"step": i, "op": op, "what": f"after step {i} ({op['kind']}): the shared RootSequence object changed "
                    f"(differs from the unit-modulus Zadoff-Chu sequence by {d:.3g})"}
        for k, (uo, w) in enumerate(zip(users, wants)):
            d = c18.maxdiff(uo.seq_array(), w)
            if d > tol:
                return {"step": i, "op": op, "what": f"after step {i} ({op['kind']}): user sequence {k} "
                        f"({key(ops_desc[k])}) is not root * ramp * cover / sqrt(norm2) (diff {d:.3g})"}
        return None

    ops_desc = []
    okc = 0
    for i, op in enumerate(ops):
        missing = set(op.get("req", ())) - EVALUATED
        if missing:
            raise tlc.TlcError(f"RefSession requires laws the replay does not evaluate: {sorted(missing)}")
        try:
            if op["kind"] == "s-user":
                d = op["d"]
                rec = uecat[key(d)]
                carr = np.array(d["cover"]) if d["cover"] else None          # the caller's own buffer
                caller_cov.append((carr, None if carr is None else carr.copy()))
                users.append(c18.ue_seq(d["fam"], root, d["ncs"], d["cover"], d["normalize"], rec.get("flagform", "bool"), cover_arr=carr))
                w = expected_user(rec)
                if rec.get("flagform", "bool") != "bool" and rec["norm2"] != 1:
                    # FlagAgreement leaves open whether a non-singleton flag normalises: take what the object did at
                    # creation (one of the two admissible arrays, checked here) as what it must KEEP
                    now = np.asarray(users[-1].seq_array())
                    if c18.amplitude_either(now, w, rec["norm2"], tol) <= tol and c18.maxdiff(now, w) > tol:
                        w = w * np.sqrt(rec["norm2"])
                wants.append(w)
                ops_desc.append(d)
            elif op["kind"] == "s-newest":
                uo = users[op["user"] - 1]
                d = ops_desc[op["user"] - 1]
                cref = None
                if d["cover"]:
                    e = CazacBasedWithOCCChannelEstimator(uo)
                elif op["o"]["arr"]:
                    cref = np.array(uo.seq_array(), copy=True)                # the caller's own buffer
                    e = CazacBasedChannelEstimator(cref, size_multiplier=op["o"]["mult"])
                else:
                    e = CazacBasedChannelEstimator(uo, size_multiplier=op["o"]["mult"])
                ests.append((e, op["user"] - 1, op["o"]))
                caller_ref.append((cref, None if cref is None else cref.copy()))
            elif op["kind"] == "s-est":
                e, ui, o = ests[op["est"] - 1]
                rec = estcat[key({"d": ops_desc[ui], "o": o, "v": op["v"]})]
                facs = [1.0] + [c18.scale_of(q) for q in rec["scales"]]
                f = facs[(i + op["v"]) % len(facs)]          # observations of very different magnitude on one object
                sig = c18.extradim_signature(rec["sc"])
                try:
                    got, want, truth = c18.estimate(rec["sc"], rec["est"], root, users[ui], e, factor=f)
                except Exception as ex:
                    if not sig:
                        raise
                    known.append({"step": i, "op": op, "what": f"call {i} on estimator {op['est']} (occ, flattened observation, "
                                  f"extra_dimension as {rec['sc']['flagform']}) raised {type(ex).__name__}: {ex}"})
                    okc += 1
                    continue
                held.append((i, got, np.array(got, copy=True)))
                scale = f * max(1.0, float(np.max(np.abs(truth))) / f)
                dd = max(c18.maxdiff(got, want), c18.maxdiff(got, truth))
                if dd > c18.TOL_REL * scale and sig:
                    known.append({"step": i, "op": op, "what": f"call {i} on estimator {op['est']} (occ, flattened observation, "
                                  f"extra_dimension as {rec['sc']['flagform']}) misses the frequency response by {dd:.3g}"})
                    held.pop()
                elif dd > c18.TOL_REL * scale:
                    sc = rec["sc"]
                    return okc, known, {"step": i, "op": op, "what": f"call {i} on estimator {op['est']} ({sc['fam']}, size {L}, "
                                 f"{sc['nrx']} rx, keep {sc['keep']}, variant {op['v']}) misses the frequency response by {dd:.3g}; "
                                 f"earlier calls on this object: {[p['v'] for p in ops[:i] if p['kind'] == 's-est' and p['est'] == op['est']]}"}
            elif op["kind"] == "s-overwrite-cover":
                # the caller re-uses its cover-code buffer: the write is refused, or the object keeps its construction values
                carr, orig = caller_cov[op["user"] - 1]
                try:
                    carr[-1] = -carr[-1]
                except ValueError:
                    pass
                now = users[op["user"] - 1].cover_code
                if not np.array_equal(np.asarray(now), orig):
                    return okc, known, {"step": i, "op": op, "what": f"after step {i}: the caller overwrote its cover-code buffer and "
                                        f"user {op['user'] - 1}.cover_code became {np.asarray(now).tolist()} (constructed with {orig.tolist()}, "
                                        f"which is what the sequence transmits) - ConstructionValuesKept"}
            elif op["kind"] == "s-overwrite-ref":
                cref, orig = caller_ref[op["est"] - 1]
                e = ests[op["est"] - 1][0]
                try:
                    cref[:] = 1.0
                except ValueError:
                    pass
                if not np.array_equal(np.asarray(e.ue_ref_seq), orig):
                    msg = {"step": i, "op": op, "what": f"after step {i}: the caller overwrote the array it had handed to "
                           f"CazacBasedChannelEstimator and the estimator's reference sequence changed with it - ConstructionValuesKept"}
                    if JUDGE_ESTIMATOR_ARRAY_ALIAS:
                        known.append(dict(msg, fid=FID_REFALIAS))
                    else:
                        known.append(dict(msg, fid=None))
                    cref[:] = orig            # the caller restores its buffer so that the history can go on
            else:
                raise ValueError(op["kind"])
        except Exception as ex:
            return okc, known, {"step": i, "op": op, "what": f"step {i} ({op['kind']}) raised {type(ex).__name__}: {ex}"}
        bad = frame(i, op)
        if bad:
            return okc, known, bad
        for st, obj, cp in held:
            if obj.shape != cp.shape or not np.array_equal(obj, cp):
                return okc, known, {"step": i, "op": op, "what": f"after step {i} ({op['kind']}): the array returned by call {st} was "
                             f"overwritten (EarlierResultsUnchanged)"}
        okc += 1
    return okc, known, None


def explore(ctx, cfgrow, r):
    from ..core import pool_map
    from . import c18
    label, alphabet, L, mu, me, variants, walks = cfgrow
    ctx.account(r, MODULE, label)
    cat = [e["op"] for e in r.emitted if e["post"]["phase"] == "cat"]
    uecat = {key(c["key"]): c for c in cat if c["kind"] == "ue"}
    estcat = {key(c["key"]): c for c in cat if c["kind"] == "est"}
    edges = [e for e in r.emitted if e["post"]["phase"] == "run"]
    if not uecat or not edges:
        raise tlc.TlcError(f"RefSession {label}: no catalogue / no session edges emitted")
    any_ue = next(iter(uecat.values()))
    g = graph.Graph(edges, label=lambda e: key(e["op"]))
    root = key({"users": [], "ests": [], "phase": "run"})
    rng = random.Random(ctx.seed)
    paths = g.transition_cover(root, max_len=12, rng=rng)
    if walks:
        paths += g.random_walks(root, walks, 12, rng)
    jobs = [(label, L, any_ue["u"], any_ue["nzc"], any_ue["e"], uecat, estcat, [e["op"] for e in g.path_edges(p)]) for p in paths]
    res = pool_map(run_path, jobs, chunksize=max(1, len(jobs) // 48))
    def case_of(job, failing):
        return {"kind": "session", "label": label, "L": L, "u": job[2], "nzc": job[3], "root_e": job[4],
                "ue": {k: uecat[k] for k in {key(o["d"]) for o in job[7] if o["kind"] == "s-user"}},
                "est": estcat if any(o["kind"] == "s-est" for o in job[7]) else {}, "ops": job[7], "failing": failing}

    for job, (okc, known, bad) in zip(jobs, res):
        ctx.ok(n=okc)
        ctx.trace_done()
        for kn in known[:1]:
            fid = kn.get("fid", c18.FID_EXTRADIM)
            if fid is None:
                ctx.notes.setdefault("observed_not_judged", {}).setdefault(FID_REFALIAS, {"count": 0, "example": kn["what"]})["count"] += 1
            else:
                ctx.finding(fid, f"{label}: {kn['what']}", case_of(job, kn))
        if bad:
            ctx.violation(f"{label}: {bad['what']}",
                          {"kind": "session", "label": label, "L": L, "u": job[2], "nzc": job[3], "root_e": job[4],
                           "ue": {k: uecat[k] for k in {key(o["d"]) for o in job[7] if o["kind"] == "s-user"}},
                           "est": estcat if any(o["kind"] == "s-est" for o in job[7]) else {}, "ops": job[7], "failing": bad})
    for _, _, e in g.edges:
        ctx.distinct.add(label + key(e["pre"]) + key(e["op"]))
    if len(paths) > 3:
        ctx.sample({"session": label, "size": L, "history": [
            {k: v for k, v in o.items()} for o in jobs[len(jobs) // 2][7]]}, limit=10)
    return len(paths)


def replay(ctx, c):
    from . import c18
    okc, known, bad = run_path((c["label"], c["L"], c["u"], c["nzc"], c["root_e"], c["ue"], c["est"], c["ops"]))
    ctx.ok(n=okc)
    for kn in known[:1]:
        if kn.get("fid", c18.FID_EXTRADIM) is not None:
            ctx.finding(kn.get("fid", c18.FID_EXTRADIM), f"{c['label']}: {kn['what']}", c)
    if bad:
        ctx.violation(f"{c['label']}: {bad['what']}", c)
