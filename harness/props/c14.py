"""C14 - Jakes fading samples do not depend on how generation was chunked.

Stage M: TLC on spec/chan/Jakes.tla.  Intended instance (every Dev flag FALSE): Count, Contiguity
(action property), Aligned, PhasesFixed, Independent, Isolation, and - on the exact lattice instance -
Bound, BoundTight, ZeroDoppler, UnitPower hold.  Every Dev flag TRUE: TLC must find the violation.
Stage R: every request sequence TLC emitted (all sequences up to the length bound over the request
alphabet) is executed on real generators; after every call get_samples() of every generator is
compared with the block the specification demands:
  (rel)   JakesSampleGenerator / generate_jakes_samples with random phases (seeded RandomState handed
          to the constructor and re-played): sample index k from TLC, value = Jakes sum evaluated at
          k*Ts with the phase reduced modulo one turn in exact integer arithmetic (c14_model.py);
  (exact) lattice instance: quarter-turn phases delivered by a table-driven random source, Fd*Ts = 1/4
          or 1/2 or 0: TLC emits the exact Gaussian-integer values of sqrt(L)*h.
  RayleighSampleGenerator: count/shape, freshness, skip is a no-op.
Stage T: c14_trace.py - random request sequences (n up to 10^5, positions up to 10^10) recorded on real
generators, sample indexes IDENTIFIED by matching values, validated by Trace_Jakes.tla in one TLC run."""
import os
import random
import time
from concurrent.futures import ThreadPoolExecutor

import numpy as np

from .. import tlc, graph
from ..core import pool_map
from . import c14_model as jm

MODULE = "chan/Jakes.tla"
DEVS = ["ArangeCountDrifts", "ArangeStepRounded", "NumpyIntShapeRejected", "ReusesBuffer", "PlusTsDropped", "SkipOffByOne", "ShapeRestartsTime", "GenRedrawsPhases",
        "SimilarSharesPhases", "NormOneOverL", "DropsTailRays", "DopplerFoldedBeforeCos"]
INVS = ["TypeOK", "Count", "Aligned", "OnGrid", "BuffersDistinct", "EveryRayCounts", "DopplerNotFolded", "ShapeAccepted", "PhasesFixed", "Independent", "Bound", "BoundTight", "ZeroDoppler", "Moves",
        "UnitPower"]
PROPS = ["Contiguity", "Isolation", "EarlierBlocksUnchanged"]
# laws the specification may name in the `req` set of an emitted edge, and where the replay enforces them
LAWS = {
    "EarlierBlocksUnchanged": "Driver.check_all / run_rayleigh: every array returned earlier (kept, never copied) is compared again",
    "OthersUnchanged": "Driver.check_all: get_samples() of every generator after every call",
    "ArgumentsUnchanged": "FuncGen.generate_more_samples: phi_l / psi_l bit-identical after the call",
    "QueriesPure": "Driver.check_all: get_samples/shape/L/Ts/Fd read repeatedly, values as configured",
    "StoredBlockKept": "Driver.check_all: non-generating calls leave get_samples() as it was",
    "Count": "shape comparison", "Contiguity": "values at the emitted indexes", "OnGrid": "1 % of a sample tolerance",
    "PhasesFixed": "values with the phases of the emitted draw", "Bound": "|h| <= sqrt(L)",
    "AnyIntTypeSameShape": "py_shape: the shape is handed over in the form the specification rotates (int, tuple, numpy "
                           "integer scalar, tuple of numpy integers); the block shapes are compared as always",
    "DopplerNotFolded": "values at Fd*Ts below, at and above whole turns per sample (0.9, 1, 1.5, 1.7, 2, 2.5, negative)",
    "EveryRayCounts": "values against the sum over ALL L rays, L from 1 to 64 incl. non-multiples of 16 (L_CHOICES)",
    "ZeroDoppler": "values of the Fd = 0 instance (tolerance floor 1e-9)",
}
BIG = 10 ** 7


def tlc_par():
    """concurrent TLC processes started by this check (VERIF_PROCS limits it on a shared machine)"""
    p = int(os.environ.get("VERIF_PROCS", "0") or 0)
    return max(1, min(10, p)) if p else 10


def model(kind="jakes", gens=(1, 3, 1000), skips=(2,), big=(1,), shapes=((2,),), shape0=((),), warm=(0,), maxlen=4,
          maxgens=1, gendef=False, lattice=False, L=4, fdq=1, dev=(), emit=True, invs=None, props=None, salt=0,
          halfcos=False):
    sset = lambda ss: "{" + ", ".join(tlc.tla(tuple(s)) for s in ss) + "}"
    defs = {"ShapeSet": sset(shapes), "Shape0": sset(shape0), "Dev": tlc.tla({k: (k in dev) for k in DEVS})}
    cons = {"Kind": tlc.tla(kind), "FormSalt": str(int(salt) % 4), "GenSizes": tlc.tla(set(gens)), "SkipSizes": tlc.tla(set(skips)),
            "BigReps": tlc.tla(set(big)), "Warm": tlc.tla(set(warm)), "MaxLen": str(maxlen), "MaxGens": str(maxgens),
            "GenDefault": tlc.tla(bool(gendef)), "Lattice": tlc.tla(bool(lattice)), "HalfCos": tlc.tla(bool(halfcos)), "L": str(L)}
    defs["FdQ"] = f"({int(fdq)})"       # a cfg file cannot hold a negative number
    for k in ("GenSizes", "SkipSizes", "BigReps"):
        if cons[k] == "{}":
            cons[k] = "{}"
    cfg = tlc.cfg_text(constants=cons, defs=defs, invariants=INVS if invs is None else invs,
                       properties=PROPS if props is None else props, action_constraints=["Emit"] if emit else [])
    return cfg, defs


# --------------------------------------------------------------------------------------------------
# driving the real code
# --------------------------------------------------------------------------------------------------
FORMS = ["int", "tuple", "npint", "nptuple"]


def py_shape(sh, form=0):
    """specification shape tuple -> the argument handed to the real code, in the form the specification chose
    (FormOf in Jakes.tla): None / Python int / tuple of Python ints / numpy integer scalar / tuple of numpy ints.
    (An integer `form` selects FORMS[form % 4]: used by the stage-T recorder.)"""
    if not isinstance(form, str):
        form = FORMS[int(form) % 4]
    sh = tuple(int(x) for x in sh)
    if not sh:
        return None
    if len(sh) > 1:
        form = "nptuple" if form in ("npint", "nptuple") else "tuple"
    if form == "int":
        return sh[0]
    if form == "npint":
        return np.int64(sh[0])
    if form == "nptuple":
        return tuple(np.int32(x) for x in sh)
    return sh


def tuple_form(form):
    """generate_jakes_samples documents its shape as a tuple: integer forms become the matching tuple form"""
    return {"int": "tuple", "npint": "nptuple"}.get(form, form)


def is_npint_shape_finding(ex, e):
    """signature of the listed defect NumpyIntShapeRejected: a numpy integer scalar as shape raises TypeError
    ("... is not iterable" / "must be an iterable") because the setter only knows isinstance(shape, int)"""
    r = e["ret"]
    return (isinstance(ex, TypeError) and "iterable" in str(ex) and r["op"] in ("Construct", "SetShape")
            and r.get("form") == "npint")


def limb(v):
    return int(v[0]) * BIG + int(v[1])


class TableRS:
    """random source that delivers the numbers TLC emitted (lattice instance): duck-typed RandomState"""

    def __init__(self):
        self.queue = []

    def feed(self, tab):
        self.queue.append(np.array(tab["phi"], dtype=float) / 12.0)
        self.queue.append(np.array(tab["psi"], dtype=float) / 4.0)

    def rand(self, *dims):
        if not self.queue:
            raise RuntimeError("phases drawn when the specification draws none")
        v = self.queue.pop(0)
        if v.size != int(np.prod(dims)):
            raise RuntimeError(f"phase draw of {dims} where the specification draws {v.size} numbers")
        return v.reshape(dims)


class Mirror:
    """the generator's phases by the public route: the seeded RandomState handed to the constructor is
    re-played (same seed, same order of draws).  Draws are numbered like in the specification."""

    def __init__(self, L, seed, primary="rs"):
        self.L = L
        self.m = {primary: np.random.RandomState(seed)}     # "rs": a RandomState handed over; "np": numpy's global source
        self.phases = {}     # draw id -> (phi, psi)

    def peek(self, stream, sh):
        """the next draw of `stream` for shape sh without consuming it -> ((phi, psi), state afterwards)"""
        m = self.m[stream]
        st = m.get_state()
        dims = [self.L] + [int(x) for x in sh] + [1]
        phi = 2 * np.pi * m.rand(*dims)
        psi = 2 * np.pi * m.rand(*dims)
        after = m.get_state()
        m.set_state(st)
        return (phi, psi), after

    def draw(self, stream, sh, d):
        ph, after = self.peek(stream, sh)
        self.m[stream].set_state(after)
        self.phases[d] = ph
        return ph

    def sibling(self, parent_stream, sh, d, seed2, matches, reseed=True):
        """get_similar_fading_generator of the current code draws from numpy's global source (seeded with
        seed2 by the caller); a generator sharing the parent's RandomState would be as good for the
        property.  Decided by which candidate reproduces the sibling's first sample (`matches`)."""
        if reseed or "np" not in self.m:
            self.m["np"] = np.random.RandomState(seed2)
        chosen = "np"
        for name in ("np", parent_stream):
            (phi, psi), _ = self.peek(name, sh)
            if matches(phi, psi):
                chosen = name
                break
        self.draw(chosen, sh, d)
        return chosen


class FuncGen:
    """generate_jakes_samples used the documented way: the caller keeps the returned time and hands it
    back to continue the process.  Same interface as the class so that one driver serves both."""

    def __init__(self, Fd, Ts, L, shape, RS):
        from pyphysim.channels import fading_generators as fg
        self._fn = fg.generate_jakes_samples
        self.Fd, self.Ts, self.L, self.RS = Fd, Ts, L, RS
        self._t = 0.0
        self._h = None
        self._set_shape(shape)
        self.generate_more_samples()

    def _set_shape(self, shape):
        self._shape = (int(shape),) if isinstance(shape, (int, np.integer)) else shape
        dims = [self.L] + [int(x) for x in (self._shape or ())] + [1]
        self._phi = 2 * np.pi * self.RS.rand(*dims)
        self._psi = 2 * np.pi * self.RS.rand(*dims)

    shape = property(lambda self: self._shape, lambda self, s: self._set_shape(s))

    def generate_more_samples(self, n=None):
        n = 1 if n is None else n
        a, b = self._phi.copy(), self._psi.copy()
        t1, h = self._fn(self.Fd, self.Ts, n, self.L, self._shape, self._t, self._phi, self._psi)
        if not (np.array_equal(a, self._phi) and np.array_equal(b, self._psi)):
            raise AssertionError("ArgumentsUnchanged: generate_jakes_samples modified its phi_l / psi_l argument")
        if h.shape[-1] != n:   # the class raises this from its reshape; the function silently returns the array
            raise ValueError(f"cannot reshape array of size {h.shape[-1]} into shape ({n},) "
                             f"[generate_jakes_samples returned {h.shape[-1]} samples for a request of {n}]")
        want = self._t + n * self.Ts
        if not abs(t1 - want) <= 0.01 * self.Ts + 4e-16 * abs(want):
            raise AssertionError(f"generate_jakes_samples returned new time {t1!r} for start {self._t!r} + {n} samples")
        self._t, self._h = t1, h

    def skip_samples_for_next_generation(self, n):
        self._t += n * self.Ts

    def get_samples(self):
        return self._h


class FuncFreshGen:
    """generate_jakes_samples called WITHOUT phase arguments (Kind = "funcfresh"): every call draws its own
    phi_l, psi_l = np.random.rand(L, *shape, 1) from numpy's global source (not scaled by 2 pi); the source is
    seeded before every call and re-played.  The caller keeps the returned time.  A call with no argument but
    Fd uses every default: 100 samples, Ts = 1e-3, L = 8, shape None, from t = 0."""

    def __init__(self, Fd, Ts, L, shape, seed):
        from pyphysim.channels import fading_generators as fg
        self._fn = fg.generate_jakes_samples
        self.Fd, self.Ts, self.L, self._seed = Fd, Ts, L, seed
        self._shape = shape
        self._t, self._h, self._k = 0.0, None, 0
        self.last_phases = None
        self.generate_more_samples(1)

    shape = property(lambda self: self._shape, lambda self, s: setattr(self, "_shape", s))

    def generate_more_samples(self, n=None):
        self._k += 1
        s = (self._seed * 7919 + self._k * 104729) % (2 ** 31)
        np.random.seed(s)
        m = np.random.RandomState(s)
        dims = [self.L] + [int(x) for x in (self._shape or ())] + [1]
        phi = m.rand(*dims)
        psi = m.rand(*dims)
        if n is None:
            if not (self.Ts == 1e-3 and self.L == 8 and self._shape is None):
                raise RuntimeError("the all-defaults call is only meaningful for Ts = 1e-3, L = 8, shape None")
            t0, n = 0.0, 100
            t1, h = self._fn(self.Fd)
        else:
            t0 = self._t
            t1, h = self._fn(self.Fd, self.Ts, n, self.L, self._shape, self._t)
        if h.shape[-1] != n:
            raise ValueError(f"cannot reshape array of size {h.shape[-1]} into shape ({n},) "
                             f"[generate_jakes_samples returned {h.shape[-1]} samples for a request of {n}]")
        want = t0 + n * self.Ts
        if not abs(t1 - want) <= 0.01 * self.Ts + 4e-16 * abs(want):
            raise AssertionError(f"generate_jakes_samples returned new time {t1!r} for start {t0!r} + {n} samples")
        self._t, self._h, self.last_phases = t1, h, (phi, psi)

    def skip_samples_for_next_generation(self, n):
        self._t += n * self.Ts

    def get_samples(self):
        return self._h


class Driver:
    """executes emitted edges on real generators and keeps, per generator, the block the specification
    demands get_samples() to return"""

    def __init__(self, mode, Fd, Ts, L, seed, norm2=None):
        self.mode, self.Fd, self.Ts, self.L, self.seed = mode, Fd, Ts, L, seed
        self.lattice = mode.startswith("lat")
        self.func = mode.endswith("func")
        self.fresh = mode == "relfreshfunc"       # generate_jakes_samples without phase arguments
        self.glob = mode == "relglobal"           # primary generator built with defaults, RS = None (global source)
        self.primary = "np" if self.glob else "rs"
        self.gens = []
        self.expect = []       # per generator: (array, tol array, description)
        self.stream = []       # per generator: which random stream its phases come from
        self.draw_of = []      # per generator: the phase draw currently in force
        self.held = []         # every array ever returned: (generator, the array itself - NOT a copy, expected, tol, descr)
        self.nstep = 0
        self.mir = Mirror(L, seed, self.primary)
        self.phases = self.mir.phases
        self.table = TableRS() if self.lattice else None
        self.scale = np.sqrt(norm2[0] / norm2[1]) if norm2 else None

    def _private_crosscheck(self, g):
        """private attributes only as a cross-check; silently skipped when they do not exist"""
        o = self.gens[g]
        d = self.draw_of[g]
        phi, psi = getattr(o, "_phi_l", None), getattr(o, "_psi_l", None)
        if self.lattice or self.func or phi is None or psi is None or d not in self.phases:
            return None
        a, b = self.phases[d]
        if np.shape(phi) != a.shape or not (np.array_equal(phi, a) and np.array_equal(psi, b)):
            return "private _phi_l/_psi_l differ from the phases drawn from the handed RandomState"
        return None

    # ---- expected blocks ------------------------------------------------------------------------
    def _expected(self, e, blk):
        """array the specification demands for block blk (+ tolerance)"""
        k0, n = limb(blk["first"]), int(blk["n"])
        sh = tuple(int(x) for x in blk["sh"])
        if self.lattice:
            vals = e["ret"]["vals"]
            r0 = int(e["ret"]["r0"])
            out = np.empty((len(vals), n), dtype=complex)
            for ei, per in enumerate(vals):
                p = np.array([complex(v[0], v[1]) for v in per])
                out[ei, :] = p[(r0 + np.arange(n)) % 4]
            out = (out * self.scale).reshape(sh + (n,))
            fdts = abs(self.Fd * self.Ts)
            tol = np.full(sh + (1,), 0.01 * 2 * np.pi * fdts * np.sqrt(self.L) + 1e-9)
            return out, tol
        phi, psi = self.phases[int(blk["ph"])]
        out = jm.jakes_block(self.Fd, self.Ts, self.L, phi, psi, k0, n)
        tol = jm.tolerance(self.Fd, self.Ts, self.L, phi)
        return out, tol

    def _set_expect(self, g, e, blk):
        arr, tol = self._expected(e, blk)
        while len(self.expect) <= g:
            self.expect.append(None)
        self.expect[g] = (arr, tol, {"first": limb(blk["first"]), "n": int(blk["n"]), "ph": int(blk["ph"]),
                                     "shape": [int(x) for x in blk["sh"]] + [int(blk["n"])]})
        # the caller keeps what it was handed (results stay results)
        self.held.append((g, self.gens[g].get_samples(), arr, tol, self.expect[g][2]))

    def _n(self, n):
        """request sizes as Python ints and as numpy integer scalars"""
        v = (self.seed + self.nstep) % 4
        return int(n) if v < 2 else (np.int64(n) if v == 2 else np.int32(n))

    # ---- one step -------------------------------------------------------------------------------
    def _new(self, shape, RS):
        if self.fresh:
            return FuncFreshGen(self.Fd, self.Ts, self.L, shape, self.seed)
        if self.glob:
            from pyphysim.channels.fading_generators import JakesSampleGenerator
            return JakesSampleGenerator() if shape is None else JakesSampleGenerator(shape=shape)
        if self.func:
            return FuncGen(self.Fd, self.Ts, self.L, shape, RS)
        from pyphysim.channels.fading_generators import JakesSampleGenerator
        return JakesSampleGenerator(self.Fd, self.Ts, self.L, shape, RS)

    def step(self, e):
        r = e["ret"]
        op = r["op"]
        self.nstep += 1
        g = int(r["g"]) - 1
        if op == "Construct":
            if self.lattice:
                self.table.feed(r["tab"])
                RS = self.table
            elif self.fresh:
                RS = None
            elif self.glob:
                RS = None
                np.random.seed(self.seed)              # the caller's own use of the global source ...
                self.mir.draw("np", r["sh"], 1)
            else:
                RS = np.random.RandomState(self.seed)
                self.mir.draw("rs", r["sh"], 1)
            self.gens.append(self._new(py_shape(r["sh"], tuple_form(r["form"]) if self.fresh else r["form"]), RS))
            if self.fresh:
                self.phases[1] = self.gens[0].last_phases
            self.stream.append(self.primary)
            self.draw_of.append(1)
            for _ in range(int(r["warm"])):
                self.gens[0].skip_samples_for_next_generation(BIG)
            self._set_expect(0, e, r["exp"])
            return
        o = self.gens[g]
        if op == "Gen":
            o.generate_more_samples(self._n(r["n"]))
            if self.fresh:
                self.phases[int(r["exp"]["ph"])] = o.last_phases
            self._set_expect(g, e, r["exp"])
        elif op == "GenDefault":
            o.generate_more_samples()
            if self.fresh:
                self.phases[int(r["exp"]["ph"])] = o.last_phases
            self._set_expect(g, e, r["exp"])
        elif op == "Skip":
            o.skip_samples_for_next_generation(self._n(r["n"]))
        elif op == "SkipBig":
            for _ in range(int(r["r"])):
                o.skip_samples_for_next_generation(BIG)
        elif op == "SetShape":
            if self.lattice:
                self.table.feed(r["tab"])
            elif not self.fresh:
                if self.glob:     # ... interleaved with the generator's: the caller draws from the global source too
                    if not np.array_equal(np.random.rand(3), self.mir.m["np"].rand(3)):
                        raise RuntimeError("global random source and its mirror diverged")
                self.mir.draw(self.stream[g], r["sh"], int(r["draw"]))
            o.shape = py_shape(r["sh"], tuple_form(r["form"]) if self.fresh else r["form"])
            self.draw_of[g] = int(r["draw"])
        elif op == "Similar":
            self._similar(e, g)
        else:
            raise ValueError(op)

    def _similar(self, e, g):
        r = e["ret"]
        d = int(r["exp"]["ph"])
        sh = r["exp"]["sh"]
        s2 = (self.seed * 7919 + 104729 * len(self.gens)) % (2 ** 31)
        if not self.glob:
            np.random.seed(s2)                  # the sibling of the current code draws from numpy's global source
        sib = self.gens[g].get_similar_fading_generator()
        self.gens.append(sib)
        got = np.asarray(sib.get_samples())

        def matches(phi, psi):
            m = jm.jakes_block(self.Fd, self.Ts, self.L, phi, psi, 0, 1)
            return got.shape == m.shape and bool(np.all(np.abs(got - m) <= jm.tolerance(self.Fd, self.Ts, self.L, phi)))

        self.stream.append(self.mir.sibling(self.stream[g], sh, d, s2, matches, reseed=not self.glob))
        self.draw_of.append(d)
        self._set_expect(len(self.gens) - 1, e, r["exp"])

    # ---- observation ----------------------------------------------------------------------------
    def check_all(self):
        """compare get_samples() of every generator with the demanded block; list of descriptions"""
        bad = []
        latest = {}
        for i, (g, obj, arr, tol, d) in enumerate(self.held):
            latest[g] = i
        for i, (g, obj, arr, tol, d) in enumerate(self.held):
            if latest[g] == i and obj is self.gens[g].get_samples():
                continue        # the generator's current block: compared below with the full report
            o = np.asarray(obj)
            if o.shape != arr.shape or not np.all(np.abs(o - arr) <= tol):
                bad.append((f"EarlierBlocksUnchanged: the array returned earlier by generator {g + 1} for indexes "
                            f"{d['first']}..{d['first'] + d['n'] - 1} (kept by the caller) no longer holds those samples "
                            f"after this call", None))
                return bad
        for g, o in enumerate(self.gens):
            arr, tol, d = self.expect[g]
            got = np.asarray(o.get_samples())
            q1 = (tuple(o.shape or ()), o.L, o.Ts, o.Fd)      # queries: any number of reads, no effect
            q2 = (tuple(o.shape or ()), o.L, o.Ts, o.Fd)
            if q1 != q2 or q1[1:] != (self.L, self.Ts, self.Fd):
                bad.append((f"QueriesPure: generator {g + 1} reports L/Ts/Fd = {q1[1:]}, configured "
                            f"{(self.L, self.Ts, self.Fd)}", None))
                continue
            if got.shape != arr.shape:
                bad.append((f"generator {g + 1}: get_samples() has shape {list(got.shape)}, demanded {list(arr.shape)} "
                            f"(indexes {d['first']}..{d['first'] + d['n'] - 1})", None))
                continue
            if not np.iscomplexobj(got):
                bad.append((f"generator {g + 1}: samples are not complex", None))
                continue
            err = np.abs(got - arr)
            if not np.all(err <= tol):
                bad.append((f"generator {g + 1}: samples differ from the Jakes sum at indexes {d['first']}.."
                            f"{d['first'] + d['n'] - 1} (max error {float(np.max(err)):.3g}, allowed "
                            f"{float(np.max(tol)):.3g})" + self._diagnose(g, got, d), float(np.max(err / tol))))
                continue
            if np.max(np.abs(got)) > np.sqrt(self.L) * (1 + 1e-12):
                bad.append((f"generator {g + 1}: |h| = {float(np.max(np.abs(got)))} exceeds sqrt(L)", None))
            x = self._private_crosscheck(g)
            if x:
                bad.append((f"generator {g + 1}: {x}", None))
        return bad

    def _diagnose(self, g, got, d):
        """which indexes were returned instead (message only)"""
        if self.lattice or d["ph"] not in self.phases:
            return ""
        for ph, (phi, psi) in sorted(self.phases.items(), key=lambda kv: kv[0] != d["ph"]):
            if phi.shape[1:-1] != got.shape[:-1]:
                continue
            tol = jm.tolerance(self.Fd, self.Ts, self.L, phi)
            for k0 in [0] + [d["first"] + s for s in (-1, 1, -2, 2, -3, 3, d["n"], -d["n"])]:
                if k0 < 0:
                    continue
                m = jm.jakes_block(self.Fd, self.Ts, self.L, phi, psi, k0, got.shape[-1])
                if np.all(np.abs(got - m) <= tol):
                    return (f"; the returned samples are the indexes {k0}..{k0 + got.shape[-1] - 1}"
                            + ("" if ph == d["ph"] else f" of phase draw {ph} (demanded draw {d['ph']})"))
        s = np.sqrt(self.L)
        for nm, f in (("sqrt(L)", s), ("1/sqrt(L)", 1 / s), ("L", self.L), ("1/L", 1.0 / self.L)):
            arr = self.expect[g][0]
            if np.all(np.abs(got * f - arr) <= self.expect[g][1]):
                return f"; the returned samples are the demanded ones divided by {nm}"
        return ""


def is_arange_finding(ex, e):
    """signature of the listed defect: at a position >= 10^7 samples the time vector has n+1 points"""
    if not isinstance(ex, ValueError) or "reshape" not in str(ex):
        return False
    r = e["ret"]
    if r["op"] not in ("Gen", "GenDefault"):
        return False
    pre = e["pre"]["gens"][int(r["g"]) - 1]
    return int(pre["served"][0]) >= 1 and f"size {int(r['n']) + 1} " in str(ex)


STEP_ROUNDED_AT = 1e13     # n * position from which the rounded arange step can cost >= 1.1e-3 sample


def is_step_rounded_finding(hist, ratio):
    """signature of the listed defect ArangeStepRounded: a sub-sample time error (< 0.3 sample) after a
    long request at a large position (the step of np.arange is rounded to the ulp of the start time)"""
    return ratio is not None and ratio <= 30.0 and any(n * pos >= STEP_ROUNDED_AT for pos, n in hist)


def run_edges(mode, Fd, Ts, L, seed, edges):
    """-> (steps that conformed, None | (kind, step, text)), kind = "violation" | "finding:<id>" """
    norm2 = edges[0].get("norm2")
    if mode.startswith("lat"):
        L = int(norm2[1])
    if mode == "relglobal":           # JakesSampleGenerator() with every default
        Fd, Ts, L = 100, 1e-3, 8
    if mode == "relfreshfunc":        # the defaults of generate_jakes_samples (used by the no-argument call)
        Fd, Ts, L = Fd * Ts / 1e-3, 1e-3, 8
    drv = Driver(mode, Fd, Ts, L, seed, norm2)
    okc = 0
    hist = []
    for i, e in enumerate(edges):
        r = e["ret"]
        if r["op"] in ("Gen", "GenDefault"):
            hist.append((limb(e["pre"]["gens"][int(r["g"]) - 1]["served"]), int(r["n"])))
        try:
            drv.step(e)
        except Exception as ex:  # noqa
            kind = ("finding:ArangeCountDrifts" if is_arange_finding(ex, e) else
                    "finding:NumpyIntShapeRejected" if is_npint_shape_finding(ex, e) else "violation")
            return okc, (kind, i, f"{_opname(e)} raised {type(ex).__name__}: {str(ex)[:160]}")
        try:
            bad = drv.check_all()
        except Exception as ex:  # noqa  - comparisons are total: the code under test failing while it is observed is a verdict
            return okc, ("violation", i, f"after {_opname(e)}: observing the generators raised {type(ex).__name__}: {str(ex)[:160]}")
        if bad:
            text, ratio = bad[0]
            kind = "finding:ArangeStepRounded" if is_step_rounded_finding(hist, ratio) else "violation"
            return okc, (kind, i, f"after {_opname(e)}: {text}")
        okc += 1
    return okc, None


def _opname(e):
    r = e["ret"]
    a = {"Gen": "n", "Skip": "n", "SkipBig": "r", "SetShape": "sh", "Construct": "sh"}.get(r["op"])
    s = f"{r['op']}({r[a]})" if a else r["op"]
    if r.get("form") in ("npint", "nptuple"):
        s = s[:-1] + f" as {r['form']})"
    if r["op"] == "Construct" and r["warm"]:
        s += f"+{r['warm']}x10^7 skipped"
    return s if int(r.get("g", 1)) == 1 else s + f"@g{r['g']}"


# ----------------------------------------------------------------------------- Rayleigh generator
def run_rayleigh(seed, edges):
    try:
        return _run_rayleigh(seed, edges)
    except Exception as ex:  # noqa  - comparisons are total
        return 0, ("violation", 0, f"Rayleigh: driving / observing the generator raised {type(ex).__name__}: {str(ex)[:160]}")


def _run_rayleigh(seed, edges):
    from pyphysim.channels.fading_generators import RayleighSampleGenerator
    np.random.seed(seed % (2 ** 31))
    gens, last, seen = [], [], []
    held = []      # every array ever returned (the object itself) with a copy of its values at that time
    okc = 0

    def block(o, blk, what):
        got = np.asarray(o.get_samples())
        want = tuple(int(x) for x in blk["sh"]) + ((int(blk["n"]),) if blk["tdim"] else ())
        if got.shape != want:
            return f"{what}: samples have shape {list(got.shape)}, demanded {list(want)}"
        if not np.iscomplexobj(got):
            return f"{what}: samples are not complex"
        first = complex(got.ravel()[0])
        if any(first == s for s in seen):
            return f"{what}: a block of samples was repeated (not an independent draw)"
        seen.append(first)
        return None

    for i, e in enumerate(edges):
        r = e["ret"]
        op, g = r["op"], int(r["g"]) - 1
        try:
            msg = None
            if op == "Construct":
                gens.append(RayleighSampleGenerator(py_shape(r["sh"], r["form"])))
                msg = block(gens[0], r["exp"], "constructor")
            elif op in ("Gen", "GenDefault"):
                gens[g].generate_more_samples(int(r["n"])) if op == "Gen" else gens[g].generate_more_samples()
                msg = block(gens[g], r["exp"], _opname(e))
            elif op == "Skip":
                gens[g].skip_samples_for_next_generation(int(r["n"]))
            elif op == "SkipBig":
                gens[g].skip_samples_for_next_generation(BIG)
            elif op == "SetShape":
                gens[g].shape = py_shape(r["sh"], r["form"])
                if tuple(gens[g].shape or ()) != tuple(int(x) for x in r["sh"]):
                    msg = f"shape property reads {gens[g].shape!r} after setting {r['sh']}"
            elif op == "Similar":
                gens.append(gens[g].get_similar_fading_generator())
                msg = block(gens[-1], r["exp"], "sibling constructor")
        except Exception as ex:  # noqa
            return okc, ("finding:NumpyIntShapeRejected" if is_npint_shape_finding(ex, e) else "violation", i,
                         f"Rayleigh {_opname(e)} raised {type(ex).__name__}: {str(ex)[:160]}")
        if msg:
            return okc, ("violation", i, "Rayleigh " + msg)
        for k, (obj, val) in enumerate(held):
            if not (np.shape(obj) == val.shape and np.array_equal(obj, val)):
                return okc, ("violation", i, f"Rayleigh {_opname(e)}: EarlierBlocksUnchanged: the array returned by "
                                             f"request #{k} (kept by the caller) was changed by this call")
        if op in ("Construct", "Gen", "GenDefault", "Similar"):
            o = gens[-1] if op in ("Construct", "Similar") else gens[g]
            held.append((o.get_samples(), np.array(o.get_samples(), copy=True)))
        cur = [np.array(o.get_samples(), copy=True) for o in gens]
        for h, o in enumerate(gens):
            changed = h < len(last) and not (last[h].shape == cur[h].shape and np.array_equal(last[h], cur[h]))
            touched = (h == g and op in ("Gen", "GenDefault"))
            if changed and not touched:
                return okc, ("violation", i, f"Rayleigh {_opname(e)} changed the stored samples of generator {h + 1}")
            if touched and h < len(last) and not changed:
                return okc, ("violation", i, f"Rayleigh {_opname(e)} did not produce new samples")
        last = cur
        okc += 1
    return okc, None


# --------------------------------------------------------------------------------------------------
# the check
# --------------------------------------------------------------------------------------------------
_GRAPHS = {}   # config name -> Graph; filled before the worker pool forks


def _job(j):
    name, path, mode, Fd, Ts, L, seed = j
    edges = _GRAPHS[name].path_edges(path)
    if mode == "rayleigh":
        return run_rayleigh(seed, edges)
    return run_edges(mode, Fd, Ts, L, seed, edges)


def strip(e):
    return e


def _label(e):
    return graph.key({k: v for k, v in e["ret"].items() if k in ("op", "g", "n", "r", "sh", "warm")})


# ray counts: 1 .. 64, below / at / above an internal pass size of 16 and NOT multiples of it (17, 20, 33, 40, 47)
L_CHOICES = [8, 20, 5, 47, 12, 3, 33, 1, 16, 17, 40, 64]
L_BIG = [8, 20, 5, 17, 12, 3, 1, 16]      # with requests of 10^5 samples (memory: L x shape x n temporaries in the code)


def explore(ctx, name, r, depth, combos, every=None, extra=()):
    """replay all paths of the emitted graph; combos = list of (mode, FdTs, Ts); every path is run under
    `every` combos chosen round-robin (None: under all of them) plus one of `extra` (round-robin)"""
    if r.out:
        ctx.account(r, MODULE, name)
    r.out = ""          # the parsed edges are all that is needed from here on
    unknown = {x for e in r.emitted for x in e.get("req", ())} - set(LAWS)
    if unknown or not all(e.get("req") for e in r.emitted):
        raise tlc.TlcError(f"{name}: the specification names laws the replay does not implement: {sorted(unknown)}")
    g = graph.Graph(r.emitted, label=_label)
    _GRAPHS[name] = g
    roots = g.roots()
    if len(roots) != 1:
        raise tlc.TlcError(f"{name}: emitted graph has {len(roots)} roots")
    paths = g.all_paths(roots[0], depth)
    Ls = L_BIG if any(int(e["ret"].get("n", 0)) >= 10 ** 5 for e in r.emitted) else L_CHOICES
    jobs = []
    for pi, p in enumerate(paths):
        sel = combos if every is None else [combos[(pi * every + k + ctx.seed) % len(combos)] for k in range(every)]
        if extra:
            sel = list(sel) + [extra[(pi + ctx.seed) % len(extra)]]
        for ci, (mode, fdts, Ts) in enumerate(sel):
            L = Ls[(pi + ci + ctx.seed) % len(Ls)]
            jobs.append((name, p, mode, fdts / Ts, Ts, L, (ctx.seed * 1000003 + pi * 31 + ci) % (2 ** 31)))
    return name, g, jobs


def collect(ctx, name, g, jobs, results, found):
    for j, (okc, bad) in zip(jobs, results):
        _, p, mode, Fd, Ts, L, seed = j
        edges = g.path_edges(p)
        ops = " ".join(_opname(e) for e in edges)
        ctx.ok(f"{name}|{mode}|{Ts}|{Fd * Ts:.4g}|{ops}", n=okc)
        ctx.trace_done()
        if bad:
            kind, step, text = bad
            ops = " ".join(_opname(e) for e in edges[:step + 1])
            what = f"{name} [{mode} Ts={Ts:g} Fd*Ts={Fd * Ts:.3g} L={L}] {ops}: step {step}: {text}"
            case = {"config": name, "mode": mode, "Fd": Fd, "Ts": Ts, "L": L, "seed": seed, "edges": edges[:step + 1],
                    "failing_step": step}
            found.append((step, kind, what, case))


def report(ctx, found):
    """shortest failing request sequences first (one report per distinct sequence and message)"""
    seen = set()
    for step, kind, what, case in sorted(found, key=lambda f: (f[0], f[2])):
        if what in seen:
            continue
        seen.add(what)
        if kind.startswith("finding:"):
            ctx.finding(kind.split(":")[1], what, case)
        else:
            ctx.violation(what, case)


def model_devs(ctx):
    """every named deviation must be FOUND by TLC (the properties are not vacuous)"""
    want = {"ArangeCountDrifts": ("Count", {}), "ArangeStepRounded": ("OnGrid", {}),
            "NumpyIntShapeRejected": ("ShapeAccepted", {}),
            "ReusesBuffer": ("EarlierBlocksUnchanged", {}), "PlusTsDropped": ("Contiguity", {}), "SkipOffByOne": ("Contiguity", {}),
            "ShapeRestartsTime": ("Contiguity", {}), "GenRedrawsPhases": ("PhasesFixed", {}),
            "SimilarSharesPhases": ("Independent", dict(maxgens=2)), "NormOneOverL": ("UnitPower", dict(lattice=True)),
            "DropsTailRays": ("EveryRayCounts", dict(lattice=True, L=20)),
            "DopplerFoldedBeforeCos": ("DopplerNotFolded", dict(lattice=True, halfcos=True, fdq=4, L=6))}

    def one(dev):
        prop, kw = want[dev]
        cfg, defs = model(dev=[dev], emit=False, invs=[prop] if prop not in PROPS else [],
                          props=[prop] if prop in PROPS else [], **kw)
        return dev, prop, tlc.run(MODULE, cfg, defs=defs)

    with ThreadPoolExecutor(max(1, tlc_par() // 2)) as ex:
        for dev, prop, r in ex.map(one, DEVS):
            if r.violated != prop:
                raise tlc.TlcError(f"deviation {dev}: TLC was expected to refute {prop}, reported {r.violated}")
            ctx.notes.setdefault("deviations_refuted_by_model", {})[dev] = {"violates": prop, "depth": r.depth}


def configs(tier):
    """name -> (model kwargs, path depth, combos, every[, extra combos: one per path, round-robin])"""
    thorough = tier == "thorough"
    Ts2 = [1e-3, 1e-9]
    Ts4 = [1e-9, 1e-6, 1e-3, 1.0]
    # slow fading: a NON-zero Doppler whose product with the sampling interval is tiny (Fd = 7 Hz at Ts = 1 ns).
    # Only a long run shows that such a channel moves at all (Fd*Ts = 1e-9 advances 63 rad in 10^10 samples);
    # the sequences reach that through warm = 999e7 and SkipBig.  Compared like every other configuration
    # (tolerance = 1 % of a sampling interval + 1e-9, see c14_model.py); time invariance is demanded ONLY of
    # the configurations with Fd exactly 0.
    slow = [(7e-9, 1e-9), (1e-9, 1e-3), (1e-8, 1e-6), (1e-7, 1.0), (3e-9, 1.0), (1e-8, 1e-9), (1e-7, 1e-6), (2.5e-8, 1e-3)]
    # both signs and more than half a turn per sample: the model is defined for any Fd (a negative Doppler is the
    # conjugate rotation; at Fd*Ts = 0.9 the phase reaches 5.7e10 rad at 10^10 samples)
    wide = [(-0.05, 1e-3), (0.9, 1e-6), (-0.37, 1e-9), (1.7, 1.0)]
    # one or more WHOLE turns per sample (and halves in between): at the sample points such a Doppler cannot be told from
    # its fractional part for a ray with cos(phi) = +-1, but for every other ray it can - the process is not periodic in Fd*Ts
    over = [(1.0, 1e-3), (1.5, 1e-6), (2.0, 1e-9), (2.5, 1.0), (-1.0, 1e-6), (3.0, 1e-3)]
    c = {}
    if not thorough:
        rel = [("rel", 0.05, Ts) for Ts in Ts2]
        srel = [("rel", f, Ts) for f, Ts in slow[:4] + wide[:2] + over[:4]]
        sfun = [("relfunc", f, Ts) for f, Ts in slow[:4] + wide[:2] + over[:4]]
        # the alphabet of DESIGN.md: {Gen 1, Gen 3, Gen 1000, Skip 2, SkipBig, SetShape}, all sequences <= 4,
        # from a fresh generator and from one that has already produced 999 * 10^7 samples (10^10 after one SkipBig)
        c["chunk"] = (dict(warm=(0, 999)), 5, rel, None, srel)
        c["similar"] = (dict(gens=(3,), skips=(2,), big=(), shapes=((2, 3), ()), shape0=((3,),), maxgens=2, gendef=True,
                             maxlen=4), 5, [("rel", 0.05, 1e-3)], 1, srel)
        c["func"] = (dict(gens=(1, 3), skips=(2,), big=(1,), shapes=((2,), (), (1,)), warm=(0, 999), maxlen=3), 4,
                     [("relfunc", 0.05, Ts) for Ts in Ts2], 1, sfun)
        # the primary generator built with EVERY default (Fd = 100 as int, Ts = 1e-3, L = 8, RS = None: numpy's global
        # source, which the caller uses in between too); shape set back to None and to a unit dimension; the default-size
        # request after 10^7 .. 10^10 samples
        c["global"] = (dict(gens=(3,), skips=(2,), big=(1,), shapes=((1,), ()), shape0=((), (2,)), warm=(0, 999), maxgens=2,
                            gendef=True, maxlen=3), 4, [("relglobal", 0.1, 1e-3)], None)
        # generate_jakes_samples WITHOUT phase arguments and with all defaults (own draw per call)
        c["func-fresh"] = (dict(kind="funcfresh", gens=(1, 3), skips=(2,), big=(1,), shapes=((2,), (), (2, 3)),
                                shape0=((), (3,)), warm=(0, 999), gendef=True, maxlen=3), 4,
                           [("relfreshfunc", f, 1e-3) for f in (0.05, -0.05, 1.5, 2.0)], 1)
        c["zero-doppler"] = ("func", 4, [("rel", 0.0, 1e-3)], None)        # same request sequences as `func`
        lat = dict(gens=(1, 3, 6), skips=(1, 2), big=(1,), shapes=((2,),), maxlen=3, lattice=True)
        c["lattice-q1"] = (dict(lat, L=20, fdq=1, warm=(0, 999)), 4, [("lat", 0.25, 1e-3), ("latfunc", 0.25, 1e-9)], None)
        c["lattice-q0"] = (dict(lat, L=5, fdq=0, halfcos=True), 4, [("lat", 0.0, 1e-3), ("latfunc", 0.0, 1.0)], None)
        c["lattice-qneg"] = (dict(lat, L=5, fdq=-2, halfcos=True), 4, [("lat", -0.5, 1e-3), ("latfunc", -0.5, 1e-6)], 1)
        # exactly one turn per sample, rays at 60 degrees move by half a turn per sample (exact values)
        c["lattice-q4"] = (dict(lat, L=6, fdq=4, halfcos=True, warm=(0, 999)), 4, [("lat", 1.0, 1e-3), ("latfunc", 1.0, 1e-6)], 1)
        c["rayleigh"] = (dict(kind="rayleigh", gens=(1, 3), skips=(2,), big=(), shapes=((2, 3), ()), shape0=((), (2,)),
                              maxgens=2, gendef=True, maxlen=3), 4, [("rayleigh", 0.0, 1.0)], None)
    else:
        rel = [("rel", f, Ts) for Ts in Ts4 for f in (0.05, 0.011, 0.23)]
        srel = [("rel", f, Ts) for f, Ts in slow + wide + over]
        sfun = [("relfunc", f, Ts) for f, Ts in slow + wide + over]
        c["chunk"] = (dict(warm=(0, 999), maxlen=6), 7, rel + srel, 1)
        c["chunk-big"] = (dict(gens=(1, 3, 1000, 100000), warm=(0, 999), maxlen=5), 6, rel + srel, 1)
        c["chunk-all"] = (dict(warm=(0, 999), maxlen=4), 5, rel + srel, None)
        c["similar"] = (dict(gens=(1, 3), skips=(2,), big=(1,), shapes=((2, 3), ()), shape0=((3,),), maxgens=2,
                             gendef=True, maxlen=4), 5, [("rel", 0.05, Ts) for Ts in Ts4] + srel[:4], 2)
        c["func"] = (dict(gens=(1, 3, 1000), skips=(2,), big=(1,), shapes=((2,),), warm=(0, 999), maxlen=5), 6,
                     [("relfunc", f, Ts) for Ts in Ts4 for f in (0.05, 0.23)] + sfun, 2)
        c["zero-doppler"] = (dict(gens=(1, 3, 1000), skips=(2,), big=(1,), shapes=((2,),), warm=(0, 999), maxlen=4), 5,
                             [("rel", 0.0, Ts) for Ts in Ts4], None)
        lat = dict(gens=(1, 3, 6, 1000), skips=(1, 2), big=(1,), shapes=((2,), ()), maxlen=4, lattice=True, warm=(0, 999))
        c["lattice-q1"] = (dict(lat, L=47, fdq=1), 5, [(m, 0.25, Ts) for Ts in Ts4 for m in ("lat", "latfunc")], 2)
        c["lattice-q2"] = (dict(lat, L=20, fdq=2, halfcos=True), 5, [(m, 0.5, Ts) for Ts in Ts4 for m in ("lat", "latfunc")], 2)
        c["lattice-q4"] = (dict(lat, L=6, fdq=4, halfcos=True), 5, [(m, 1.0, Ts) for Ts in Ts4 for m in ("lat", "latfunc")], 1)
        c["lattice-q6"] = (dict(lat, L=9, fdq=6, halfcos=True), 5, [(m, 1.5, Ts) for Ts in Ts4 for m in ("lat", "latfunc")], 1)
        c["lattice-q10"] = (dict(lat, L=17, fdq=10, halfcos=True), 5, [(m, 2.5, Ts) for Ts in Ts4 for m in ("lat", "latfunc")], 1)
        c["lattice-q0"] = (dict(lat, L=33, fdq=0), 5, [(m, 0.0, Ts) for Ts in Ts4 for m in ("lat", "latfunc")], 2)
        c["lattice-qneg"] = (dict(lat, L=5, fdq=-1), 5, [(m, -0.25, Ts) for Ts in Ts4 for m in ("lat", "latfunc")], 1)
        c["lattice-q3"] = (dict(lat, L=12, fdq=3), 5, [(m, 0.75, Ts) for Ts in Ts4 for m in ("lat", "latfunc")], 1)
        c["global"] = (dict(gens=(1, 3), skips=(2,), big=(1,), shapes=((1,), (), (2, 1, 2)), shape0=((), (2,)), warm=(0, 999),
                            maxgens=2, gendef=True, maxlen=4), 5, [("relglobal", 0.1, 1e-3)], None)
        c["func-fresh"] = (dict(kind="funcfresh", gens=(1, 3, 1000), skips=(2,), big=(1,), shapes=((2,), (), (2, 3)),
                                shape0=((), (3,)), warm=(0, 999), gendef=True, maxlen=4), 5,
                           [("relfreshfunc", f, 1e-3) for f in (0.05, -0.05, 0.9, 1e-7, 1.0, 1.5, 2.5)], 1)
        c["siblings3"] = (dict(gens=(3,), skips=(2,), big=(), shapes=((2,),), maxgens=3, maxlen=4), 5,
                          [("rel", 0.05, Ts) for Ts in Ts4], 1)
        c["rayleigh"] = (dict(kind="rayleigh", gens=(1, 3), skips=(2,), big=(1,), shapes=((2, 3), ()),
                              shape0=((), (2,)), maxgens=2, gendef=True, maxlen=4), 5, [("rayleigh", 0.0, 1.0)], None)
    return c


def run(ctx):
    ctx.rule = ("TLC enumerates every request sequence up to the length bound over the request alphabet (Jakes.tla) and "
                "emits, per request, the sample indexes that must be returned; every sequence is executed on real "
                "generators and every returned sample compared with the Jakes sum at that index; distinct = "
                "(configuration, sampling interval, Doppler, request sequence)")
    ctx.assumptions += [
        "rel: expected sample values are the Jakes sum evaluated numerically at the TLC-emitted index k (time k*Ts "
        "exactly, phase reduced modulo one turn in integer arithmetic); tolerance = 1% of a sample period",
        "phases of the class are obtained by re-playing the seeded RandomState handed to the constructor",
        "positions up to 1.006e10 samples; beyond that the float time accumulates more than 1% of a sample",
    ]
    thorough = ctx.tier == "thorough"
    cf = configs(ctx.tier)

    def tlc_cfg(name):
        kw = cf[name][0]
        if isinstance(kw, str):
            return None             # replays the graph of another configuration
        cfg, defs = model(salt=ctx.seed + list(cf).index(name), **kw)      # rotates the shape forms per configuration
        return tlc.run(MODULE, cfg, defs=defs, coverage=True)

    def tlc_deep():
        # model checking only (no emission): every public call, both generators, large alphabet
        cfg, defs = model(gens=(1, 3, 1000, 100000), skips=(1, 2, 99999), big=(1, 1000), shapes=((2,), (2, 3), ()),
                          shape0=((), (3,)), warm=(0, 999), maxlen=5 if thorough else 4, maxgens=2, gendef=True,
                          emit=False)
        return tlc.run(MODULE, cfg, defs=defs, coverage=True, workers=4)

    def tlc_long():
        # model checking only: long request sequences over the replay alphabet (all 6^k orders, k <= 12 / 8)
        cfg, defs = model(warm=(0, 999), maxlen=12 if thorough else 8, emit=False)
        return tlc.run(MODULE, cfg, defs=defs, workers=4)

    from . import c14_trace
    with ThreadPoolExecutor(tlc_par()) as ex:
        futs = {n: ex.submit(tlc_cfg, n) for n in cf}
        deep = ex.submit(tlc_deep)
        long_ = ex.submit(tlc_long)
        devf = ex.submit(model_devs, ctx)
        runs = {n: f.result() for n, f in futs.items()}
        runs = {n: (r if r is not None else runs[cf[n][0]]) for n, r in runs.items()}
        devf.result()
        ctx.account(deep.result(), MODULE, "deep (model only: 14-request alphabet, 2 generators)")
        ctx.account(long_.result(), MODULE, "long (model only: sequences up to 12 / 8 requests)")
    ctx.notes["wall_tlc_s"] = round(time.time() - ctx.t0, 1)
    ctx.require_actions(["Construct", "DoGenerate", "DoGenDefault", "DoSkip", "DoSkipBig", "DoSetShape", "DoSimilar"])
    work = [explore(ctx, n, runs[n], *cf[n][1:]) for n in cf]
    jobs = [j for _, _, js in work for j in js]
    order = list(range(len(jobs)))
    random.Random(ctx.seed).shuffle(order)       # spread the expensive paths over the workers
    res = pool_map(_job, [jobs[i] for i in order], chunksize=max(1, len(jobs) // 512))
    back = [None] * len(jobs)
    for i, x in zip(order, res):
        back[i] = x
    pos = 0
    found = []
    for name, g, js in work:
        collect(ctx, name, g, js, back[pos:pos + len(js)], found)
        pos += len(js)
        ctx.notes.setdefault("paths_replayed", {})[name] = len(js)
    report(ctx, found)
    mid = work[0][2][len(work[0][2]) // 2]
    ctx.sample({"config": "chunk", "Ts": mid[4], "requests": [_opname(e) for e in work[0][1].path_edges(mid[1])],
                "demanded": [e["ret"].get("exp") for e in work[0][1].path_edges(mid[1])]})
    ctx.exhaustive = True
    ctx.notes["wall_replay_done_s"] = round(time.time() - ctx.t0, 1)
    traces = c14_trace.record(ctx)
    ctx.notes["wall_recorded_s"] = round(time.time() - ctx.t0, 1)
    c14_trace.validate(ctx, traces)
    spread(ctx)


def spread(ctx):
    """only the first few violations get replay files: interleave the different kinds of mismatch"""
    groups = {}
    for v in ctx.violations:
        w = v["what"]
        groups.setdefault(w[:w.index("]") + 1] if w.startswith("[") and "]" in w else "", []).append(v)
    out = []
    while any(groups.values()):
        for k in list(groups):
            if groups[k]:
                out.append(groups[k].pop(0))
    ctx.violations[:] = out


def replay(ctx, data):
    c = data["case"]
    if c.get("stage") == "T":
        from . import c14_trace
        return c14_trace.replay(ctx, c)
    if c["mode"] == "rayleigh":
        okc, bad = run_rayleigh(c["seed"], c["edges"])
    else:
        okc, bad = run_edges(c["mode"], c["Fd"], c["Ts"], c["L"], c["seed"], c["edges"])
    ctx.ok(n=okc)
    if bad:
        kind, step, text = bad
        what = f"{c['config']} [{c['mode']} Ts={c['Ts']:g}] step {step}: {text}"
        if kind.startswith("finding:"):
            ctx.finding(kind.split(":")[1], what, c)
        else:
            ctx.violation(what, c)
