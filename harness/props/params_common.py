"""Replay of spec/sim/Params.tla cases (parameter grids: row-major order, lookup by fixed values,
combination of result sets over overlapping grids) on the real SimulationParameters /
SimulationResults.  Used by C05 (lookup) and C06 (combine)."""
import copy

import numpy as np

from .. import tlc

MODULE = "sim/Params.tla"
# parameter names in SORTED order = order of the grid entries; they are ADDED in another order
# Python sorted() order ("p10" before "p2"): a natural-sort order would differ
NAMES = ["p10_first", "p2_second", "q_third"]
assert NAMES == sorted(NAMES)
ADD_ORDER = [1, 2, 0]
# value ids -> Python values; increasing in the id so that np.union1d sorts like the ids.
# parameter 1 holds floats that are tiny and close to each other (tolerance-based matching would confuse them)
VALUES = [{1: 0.0, 2: 1e-10, 3: 1e-9, 4: 5.0}, {1: "a", 2: "b", 3: "c"}, {1: -1, 2: 3, 3: 10}]
FIXED = {"zz_scalar": 7, "y_list": [1, 2]}


def run_tlc(ctx, mode, universe, maxlen, label):
    defs = {"Universe": "<<" + ", ".join("{" + ", ".join(str(x) for x in u) + "}" for u in universe) + ">>",
            "MaxLen": tlc.tla(list(maxlen))}
    cfg = tlc.cfg_text(constants={"Mode": tlc.tla(mode)}, defs=defs, invariants=["LawsLookup", "LawsCombine"],
                       action_constraints=["Emit"])
    return ctx.tlc(MODULE, cfg, defs=defs, label=label, coverage=True, timeout=1800)


def make_params(grid, ints_when_integral=False):
    from pyphysim.simulations.parameters import SimulationParameters
    d = {}
    np_ = len(grid)
    for p in ADD_ORDER:
        if p < np_:
            vals = [VALUES[p][v] for v in grid[p]]
            if ints_when_integral and p == 0 and all(float(x).is_integer() for x in vals):
                vals = [int(x) for x in vals]       # the same values with another element type than the other operand's
            d[NAMES[p]] = np.array(vals) if p == 2 else vals      # one parameter is given as a numpy array
    d.update(FIXED)
    params = SimulationParameters.create(d)
    for p in reversed(range(np_)):
        params.set_unpack_parameter(NAMES[p])
    return params


def combo_values(combo):
    return {NAMES[p]: VALUES[p][v] for p, v in enumerate(combo)}


def same_value(a, b):
    if isinstance(b, str) or isinstance(a, str):
        return str(a) == str(b)
    return float(a) == float(b)


def check_order(params, combos):
    """the list of variations is the row-major list TLC emitted"""
    lst = params.get_unpacked_params_list()
    if len(lst) != len(combos):
        return f"{len(lst)} variations, expected {len(combos)}"
    for i, (sp, c) in enumerate(zip(lst, combos)):
        for name, val in combo_values(c).items():
            if not same_value(sp[name], val):
                return f"variation {i}: {name}={sp[name]!r}, expected {val!r} (row-major over sorted names)"
        for name, val in FIXED.items():
            if sp[name] != val:
                return f"variation {i}: fixed parameter {name} changed"
    return None


def token(side, idx):
    return 2 ** (idx - 1) * (2 ** (14 * side))


NCH = 3


def observations(side, idx, nobs):
    """the observations held by result `idx` of operand `side`: (value, choice index) per observation"""
    t = token(side, idx)
    obs = [(t, (idx + side) % NCH)]
    if nobs == 2:
        obs.append((3 * t, (idx + side + 1) % NCH))
    return obs


def make_results(grid, side, nobs=1, acc=False):
    from pyphysim.simulations.results import Result, SimulationResults
    params = make_params(grid, ints_when_integral=(side == 0))
    if side == 1 and len(grid) >= 1 and len(grid[0]) >= 2:
        # the values of one unpacked parameter were first shorter and then reassigned by item syntax, with the number of
        # variations read in between (nothing may remember the old count)
        full = params[NAMES[0]]
        params[NAMES[0]] = full[:1]
        params.get_num_unpacked_variations()
        params[NAMES[0]] = full
    sr = SimulationResults()
    sr.set_parameters(params)
    n = params.get_num_unpacked_variations()
    kw = {"accumulate_values": True} if acc else {}
    for i in range(1, n + 1):
        obs = observations(side, i, nobs)
        # (two choice results with different numbers of choices: each combined result has its own size)
        rs = [Result.create("s", Result.SUMTYPE, obs[0][0], **kw), Result.create("r", Result.RATIOTYPE, obs[0][0], 2 ** 21, **kw),
              Result.create("m", Result.MISCTYPE, obs[0][0], **kw), Result.create("c", Result.CHOICETYPE, obs[0][1], NCH, **kw),
              Result.create("c5", Result.CHOICETYPE, obs[0][1] + 2, NCH + 2, **kw)]
        for v, ch in obs[1:]:
            rs[0].update(v)
            rs[1].update(v, 2 ** 21)
            rs[2].update(v)
            rs[3].update(ch)
            rs[4].update(ch + 2)
        for r in rs:
            sr.append_result(r)
    return sr


def _plain(x):
    if isinstance(x, np.ndarray):
        return ("array", str(x.dtype), x.tolist())
    if isinstance(x, dict):
        return {k: _plain(v) for k, v in x.items()}
    if isinstance(x, (list, tuple)):
        return [_plain(v) for v in x]
    return x


def snapshot(sr):
    return {n: [_plain(copy.deepcopy(r.to_dict() if hasattr(r, "to_dict") else r._to_dict())) for r in sr[n]] for n in sr.get_result_names()}


def run_lookup(case):
    """-> None | description"""
    params = make_params(case["g"])
    d = check_order(params, case["combos"])
    if d:
        return d
    if params.get_num_unpacked_variations() != case["n"]:
        return f"get_num_unpacked_variations {params.get_num_unpacked_variations()} != {case['n']}"
    fixed = {NAMES[p]: VALUES[p][v] for p, v in enumerate(case["fx"]) if v != 0}
    want = [i - 1 for i in case["idx"]]
    # (also with nothing fixed, and with no unpacked parameter at all: the empty assignment selects every variation)
    got = [int(x) for x in np.atleast_1d(params.get_pack_indexes(fixed))]
    if got != want:
        return f"get_pack_indexes({fixed}) = {got}, expected {want}"
    # fixed values may also be given together with the non-unpacked parameters
    got2 = [int(x) for x in np.atleast_1d(params.get_pack_indexes(dict(fixed, zz_scalar=7)))]
    if got2 != want:
        return f"get_pack_indexes with an extra fixed scalar = {got2}, expected {want}"
    # a value that was never simulated selects nothing, however close it lies to a simulated one
    for name, val in fixed.items():
        if isinstance(val, float):
            near = val * (1 + 5e-4) if val else 1e-13
            grid_vals = [VALUES[NAMES.index(name)][v] for v in case["g"][NAMES.index(name)]]
            if near in grid_vals:
                continue
            try:
                got3 = params.get_pack_indexes(dict(fixed, **{name: near}))
            except ValueError:
                continue
            except Exception as ex:      # noqa
                return f"get_pack_indexes with {name}={near!r} (not a simulated value) raised {type(ex).__name__}: {ex}"
            return (f"get_pack_indexes with {name}={near!r}, which is not one of the simulated values {grid_vals}, returned "
                    f"{np.atleast_1d(got3).tolist()} instead of raising ValueError")
    sr = make_results(case["g"], 0)
    for fx in (fixed, dict(fixed, zz_scalar=7)) + ((None,) if not fixed else ()):
        vals = sr.get_result_values_list("s", fixed_params=fx) if fx is not None else sr.get_result_values_list("s")
        if [int(v) for v in vals] != [token(0, i) for i in case["idx"]]:
            return f"get_result_values_list(s, {fx}) = {vals}, expected results of variations {want}"
    return None


def check_combined(u, exp, sides, nobs, acc, what):
    """u: combined results; exp: per combination the operand indexes (0 = absent) under the keys in `sides`"""
    from fractions import Fraction as Fr
    d = check_order(u.params, [e["combo"] for e in exp])
    if d:
        return f"{what}: combined parameters: " + d
    for name in ("s", "r", "m", "c", "c5"):
        lst = u[name]
        if len(lst) != len(exp):
            return f"{what}: {len(lst)} combined results for {name}, expected {len(exp)}"
        for k, e in enumerate(exp):
            r = lst[k]
            dct = r.to_dict() if hasattr(r, "to_dict") else r._to_dict()
            obs = [o for side, key in enumerate(sides) if e[key] for o in observations(side, e[key], nobs)]
            n = len(obs)
            where = f"{what}: combination {e['combo']}: {name}"
            nch, off = (NCH, 0) if name == "c" else (NCH + 2, 2)
            want_v = [(o[1] + off if name == "c5" else o[1]) if name in ("c", "c5") else o[0] for o in obs] if acc else []
            if name == "m":
                if n and dct["value"] != obs[-1][0]:
                    return f"{where} value {dct['value']}, expected the last merged observation {obs[-1][0]}"
                if n and [int(x) for x in dct["value_list"]] != want_v:
                    return f"{where} accumulated values {dct['value_list']}, expected {want_v}"
                continue
            if r.num_updates != n:
                return f"{where} num_updates {r.num_updates}, expected {n}"
            if [int(x) for x in dct["value_list"]] != want_v:
                return f"{where} accumulated values {list(dct['value_list'])}, expected {want_v} (operands accumulate: {acc})"
            if name in ("c", "c5"):
                counts = [sum(1 for o in obs if o[1] + off == ch) for ch in range(nch)]
                if [int(x) for x in dct["value"]] != counts or dct["total"] != n:
                    return f"{where} counts {list(dct['value'])} / total {dct['total']}, expected {counts} / {n}"
                if n and [float(x) for x in r.get_result()] != [c / n for c in counts]:
                    return f"{where} get_result() {r.get_result()}, expected {[c / n for c in counts]}"
                continue
            toks = [o[0] for o in obs]
            if dct["value"] != sum(toks):
                return f"{where} value {dct['value']} is not the sum of the observations of the results that stand for this combination ({toks})"
            if name == "r":
                terms = [Fr(t, 2 ** 21) for t in toks]
                if dct["total"] != n * 2 ** 21:
                    return f"{where} total {dct['total']}, expected {n * 2 ** 21}"
                if [int(x) for x in dct["total_list"]] != ([2 ** 21] * n if acc else []):
                    return f"{where} accumulated totals {list(dct['total_list'])}"
            else:
                terms = [Fr(t) for t in toks]
            sq = sum(t * t for t in terms)        # (squares of the third operand's tokens exceed 2^53: relative comparison)
            if Fr(dct["result_sum"]) != sum(terms) or abs(Fr(dct["result_squared_sum"]) - sq) > Fr(1, 10 ** 13) * sq:
                return f"{where} sum / squared sum are not those of the merged observations"
            if n:
                mean = sum(terms) / n
                var = sum(t * t for t in terms) / n - mean * mean
                gm, gv = r.get_result_mean(), r.get_result_var()
                if abs(gm - float(mean)) > 1e-12 * max(1.0, abs(float(mean))) or abs(gv - float(var)) > 1e-9 * max(1.0, abs(float(var))):
                    return f"{where} mean / variance {gm} / {gv}, expected {float(mean)} / {float(var)}"
    return None


def run_combine(case):
    from pyphysim.simulations.results import combine_simulation_results
    nobs, acc = case.get("nobs", 1), case.get("acc", False)
    a = make_results(case["ga"], 0, nobs, acc)
    b = make_results(case["gb"], 1, nobs, acc)
    sa, sb = snapshot(a), snapshot(b)
    u = combine_simulation_results(a, b)
    if snapshot(a) != sa or snapshot(b) != sb:
        return "combine_simulation_results changed one of its operands"
    return check_combined(u, case["exp"], ("a", "b"), nobs, acc, "combine(a, b)")


def run_combine3(case):
    from pyphysim.simulations.results import combine_simulation_results
    nobs, acc = case["nobs"], case["acc"]
    ops = [make_results(case[g], side, nobs, acc) for side, g in enumerate(("ga", "gb", "gc"))]
    snaps = [snapshot(o) for o in ops]
    left = combine_simulation_results(combine_simulation_results(ops[0], ops[1]), ops[2])
    right = combine_simulation_results(ops[0], combine_simulation_results(ops[1], ops[2]))
    if [snapshot(o) for o in ops] != snaps:
        return "a nested combine_simulation_results changed one of its operands"
    return (check_combined(left, case["exp"], ("a", "b", "c"), nobs, acc, "combine(combine(a, b), c)")
            or check_combined(right, case["exp"], ("a", "b", "c"), nobs, acc, "combine(a, combine(b, c))"))


def run_case(case):
    try:
        return run_lookup(case) if case["kind"] == "lookup" else run_combine3(case) if case["kind"] == "combine3" else run_combine(case)
    except Exception as ex:
        return f"raised {type(ex).__name__}: {ex}"
