"""Replay of spec/sim/Params.tla cases (parameter grids: row-major order, lookup by fixed values,
combination of result sets over overlapping grids) on the real SimulationParameters /
SimulationResults.  Used by C05 (lookup) and C06 (combine)."""
import copy

import numpy as np

from .. import tlc

MODULE = "sim/Params.tla"
# parameter names in SORTED order = order of the grid entries; they are ADDED in another order
# Python sorted() order ("p10" before "p2"): a natural-sort order would differ
NAMES = ["p10_first", "p2_second", "q_third"]
assert NAMES == sorted(NAMES)
ADD_ORDER = [1, 2, 0]
# value ids -> Python values; increasing in the id so that np.union1d sorts like the ids.
# parameter 1 holds floats that are tiny and close to each other (tolerance-based matching would confuse them)
VALUES = [{1: 0.0, 2: 1e-10, 3: 1e-9, 4: 5.0}, {1: "a", 2: "b", 3: "c"}, {1: -1, 2: 3, 3: 10}]
FIXED = {"zz_scalar": 7, "y_list": [1, 2]}


def run_tlc(ctx, mode, universe, maxlen, label):
    defs = {"Universe": "<<" + ", ".join("{" + ", ".join(str(x) for x in u) + "}" for u in universe) + ">>",
            "MaxLen": tlc.tla(list(maxlen))}
    cfg = tlc.cfg_text(constants={"Mode": tlc.tla(mode)}, defs=defs, invariants=["LawsLookup", "LawsCombine"],
                       action_constraints=["Emit"])
    return ctx.tlc(MODULE, cfg, defs=defs, label=label, coverage=True, timeout=1800)


def make_params(grid, ints_when_integral=False):
    from pyphysim.simulations.parameters import SimulationParameters
    d = {}
    np_ = len(grid)
    for p in ADD_ORDER:
        if p < np_:
            vals = [VALUES[p][v] for v in grid[p]]
            if ints_when_integral and p == 0 and all(float(x).is_integer() for x in vals):
                vals = [int(x) for x in vals]       # the same values with another element type than the other operand's
            d[NAMES[p]] = np.array(vals) if p == 2 else vals      # one parameter is given as a numpy array
    d.update(FIXED)
    params = SimulationParameters.create(d)
    for p in reversed(range(np_)):
        params.set_unpack_parameter(NAMES[p])
    return params


def combo_values(combo):
    return {NAMES[p]: VALUES[p][v] for p, v in enumerate(combo)}


def same_value(a, b):
    if isinstance(b, str) or isinstance(a, str):
        return str(a) == str(b)
    return float(a) == float(b)


def check_order(params, combos):
    """the list of variations is the row-major list TLC emitted"""
    lst = params.get_unpacked_params_list()
    if len(lst) != len(combos):
        return f"{len(lst)} variations, expected {len(combos)}"
    for i, (sp, c) in enumerate(zip(lst, combos)):
        for name, val in combo_values(c).items():
            if not same_value(sp[name], val):
                return f"variation {i}: {name}={sp[name]!r}, expected {val!r} (row-major over sorted names)"
        for name, val in FIXED.items():
            if sp[name] != val:
                return f"variation {i}: fixed parameter {name} changed"
    return None


def token(side, idx):
    return 2 ** (idx - 1) * (1 if side == 0 else 2 ** 10)


def make_results(grid, side):
    from pyphysim.simulations.results import Result, SimulationResults
    params = make_params(grid, ints_when_integral=(side == 0))
    sr = SimulationResults()
    sr.set_parameters(params)
    n = params.get_num_unpacked_variations()
    for i in range(1, n + 1):
        sr.append_result(Result.create("s", Result.SUMTYPE, token(side, i)))
        sr.append_result(Result.create("r", Result.RATIOTYPE, token(side, i), 2 ** 21))
        sr.append_result(Result.create("m", Result.MISCTYPE, token(side, i)))
    return sr


def snapshot(sr):
    return {n: [copy.deepcopy(r.to_dict() if hasattr(r, "to_dict") else r._to_dict()) for r in sr[n]] for n in sr.get_result_names()}


def run_lookup(case):
    """-> None | description"""
    params = make_params(case["g"])
    d = check_order(params, case["combos"])
    if d:
        return d
    if params.get_num_unpacked_variations() != case["n"]:
        return f"get_num_unpacked_variations {params.get_num_unpacked_variations()} != {case['n']}"
    fixed = {NAMES[p]: VALUES[p][v] for p, v in enumerate(case["fx"]) if v != 0}
    want = [i - 1 for i in case["idx"]]
    if fixed:
        got = [int(x) for x in np.atleast_1d(params.get_pack_indexes(fixed))]
        if got != want:
            return f"get_pack_indexes({fixed}) = {got}, expected {want}"
        # fixed values may also be given together with the non-unpacked parameters
        got2 = [int(x) for x in np.atleast_1d(params.get_pack_indexes(dict(fixed, zz_scalar=7)))]
        if got2 != want:
            return f"get_pack_indexes with an extra fixed scalar = {got2}, expected {want}"
    sr = make_results(case["g"], 0)
    vals = sr.get_result_values_list("s", fixed_params=fixed)
    if [int(v) for v in vals] != [token(0, i) for i in case["idx"]]:
        return f"get_result_values_list(s, {fixed}) = {vals}, expected results of variations {want}"
    return None


def run_combine(case):
    from pyphysim.simulations.results import combine_simulation_results
    a = make_results(case["ga"], 0)
    b = make_results(case["gb"], 1)
    sa, sb = snapshot(a), snapshot(b)
    u = combine_simulation_results(a, b)
    if snapshot(a) != sa or snapshot(b) != sb:
        return "combine_simulation_results changed one of its operands"
    exp = case["exp"]
    d = check_order(u.params, [e["combo"] for e in exp])
    if d:
        return "combined parameters: " + d
    for name in ("s", "r", "m"):
        lst = u[name]
        if len(lst) != len(exp):
            return f"{len(lst)} combined results for {name}, expected {len(exp)}"
        for k, e in enumerate(exp):
            dct = lst[k].to_dict() if hasattr(lst[k], "to_dict") else lst[k]._to_dict()
            toks = ([token(0, e["a"])] if e["a"] else []) + ([token(1, e["b"])] if e["b"] else [])
            n = len(toks)
            if name == "m":
                if n and dct["value"] != toks[-1]:
                    return f"combination {e['combo']}: MISC value {dct['value']}, expected the last merged observation {toks[-1]}"
                continue
            if lst[k].num_updates != n:
                return f"combination {e['combo']}: {name} num_updates {lst[k].num_updates}, expected {n}"
            if dct["value"] != sum(toks):
                return f"combination {e['combo']}: {name} value {dct['value']} does not identify results a={e['a']} b={e['b']}"
            if name == "r":
                if dct["total"] != n * 2 ** 21:
                    return f"combination {e['combo']}: ratio total {dct['total']}, expected {n * 2 ** 21}"
                if dct["result_sum"] != sum(t / 2 ** 21 for t in toks) or dct["result_squared_sum"] != sum((t / 2 ** 21) ** 2 for t in toks):
                    return f"combination {e['combo']}: ratio sum/squared sum not the merge of the operands"
            else:
                if dct["result_sum"] != sum(toks) or dct["result_squared_sum"] != sum(t * t for t in toks):
                    return f"combination {e['combo']}: sum/squared sum not the merge of the operands"
    return None


def run_case(case):
    try:
        return run_lookup(case) if case["kind"] == "lookup" else run_combine(case)
    except Exception as ex:
        return f"raised {type(ex).__name__}: {ex}"
