"""Numerical evaluation ("rel") of the Jakes sum of sinusoids at an EXACT sample index.

    h(k) = 1/sqrt(L) * SUM_l exp(j (2 pi Fd cos(phi_l) k Ts + psi_l))

The index k comes from TLC (an integer up to about 10^10); Fd, Ts, phi_l, psi_l are the doubles the real
generator was given / drew.  The phase 2 pi Fd cos(phi_l) k Ts reaches 3e9 rad, where a double carries
only ~1e-6 rad - and, more to the point, evaluating it in doubles would repeat the implementation's own
rounding.  Instead the number of turns  Fd * cos(phi_l) * Ts * k  is formed as an exact rational (every
double is a dyadic rational, k is a Python integer) and reduced modulo 1 BEFORE conversion to double.

Error budget of the model for one ray (in turns; 1 turn = 2 pi rad), block of n <= 10^5 samples at k0 <= 1.1e10:
  * frac(a*k0), a = Fd*cos(phi)*Ts: exact, rounded once to double ............... <= 1.2e-16
  * a*j for j < n evaluated in doubles (|a| <= 0.25, j < 1e5) ..................... <= 1e5*0.25*4.5e-16 = 1.2e-11
  * np.cos(phi) as a double is taken as the definition of cos(phi_l) (the code uses the same double);
    w.r.t. the real cosine this is <= 1.2e-16 relative, i.e. <= 1.1e10*0.25*1.2e-16 = 3.3e-7 turns
  * exp/sum .................................................................... ~ 1e-15
so the model is accurate to better than 1e-6 turn (6e-6 rad) against a tolerance of 1% of a sample period,
0.01 * Fd*Ts = 5e-4 turn at Fd*Ts = 0.05 (see tolerance()).
What the tolerance must absorb on the implementation side (by design, not defects):
  * the deliberate step inflation Ts*(1+1e-10) of the current code: n*1e-10 <= 1e-5 sample per request;
  * double rounding of the accumulated time: the time is advanced by float additions; within one binade the
    rounding error of adding the same increment has constant sign, so it adds up linearly: reaching
    position P by steps of 10^7 samples costs <= (P/10^7) * (P * 2^-53) samples = 1.1e-3 sample at P = 10^10
    (and 4e-2 at 6e10: the reason positions are limited to about 10^10, as in the property);
  * double evaluation of 2 pi Fd cos(phi) t at 3e9 rad: ~ 4 * 2^-53 * 3e9 = 1.4e-6 rad = 7e-6 sample.
Total legitimate deviation <= 0.12% of a sample; a slip by one sample is 100 times the tolerance."""
from fractions import Fraction

import numpy as np


def _turns_mod1(a, k):
    """frac(a * k) for a Fraction a and an integer k, exactly, as a double"""
    x = a * k
    return float(x - (x.numerator // x.denominator))


def jakes_block(Fd, Ts, L, phi, psi, k0, n):
    """samples k0 .. k0+n-1; phi, psi have shape (L, *shape, 1); result has shape (*shape, n)"""
    c = np.cos(phi)
    fdts = Fraction(float(Fd)) * Fraction(float(Ts))
    f0 = np.array([_turns_mod1(fdts * Fraction(float(x)), int(k0)) for x in c.ravel()]).reshape(c.shape)
    a = float(fdts) * c
    j = np.arange(int(n), dtype=float)
    acc = np.zeros(c.shape[1:-1] + (int(n),), dtype=complex)
    for l in range(c.shape[0]):      # ray by ray: bounded memory for n = 10^5
        acc += np.exp(1j * (2 * np.pi * (f0[l] + a[l] * j) + psi[l]))
    return acc / np.sqrt(L)


def tolerance(Fd, Ts, L, phi):
    """|h(t + 0.01 Ts) - h(t)| <= 0.01 * 2 pi Fd Ts / sqrt(L) * SUM_l |cos phi_l|   (per element, shape (*shape, 1))"""
    return 0.01 * 2 * np.pi * abs(Fd * Ts) * np.sum(np.abs(np.cos(phi)), axis=0) / np.sqrt(L) + 1e-9
