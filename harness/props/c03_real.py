"""C03 stage T (rel): the TLC-emitted scenarios (sequences of calls on one channel object) executed with the REAL
Jakes / Rayleigh generators, random (and the COST259) tap profiles, random sampling intervals, random complex signals,
random path losses and random subcarrier selections over larger fft sizes.  Nothing here has an exact value, so the
statement's relations are evaluated numerically from first principles (explicit sums, explicit DFT matrix):

  time:  y[k] = sum_d h_d[k-d] x[k-d] with h the response REPORTED after the call (dense, tap_values), length n+memory
  freq:  per block b: Y = (F h_b)[selection] o X, F[k, d] = exp(-2 pi i k d / fft), block size = |selection|
  linear: the response to x1 + c x2 equals response(x1) + c response(x2) from the same object state
  reported = generated: the reported taps are sqrt(path loss) sqrt(tap power) times the samples the generator yields
         at the positions of this transmission (Jakes: a deep copy of the generator taken before the call generates the
         whole span contiguously and is read with stride fft; Rayleigh: same seed, same draw sequence)
  profile: discretised delays unique, sorted, integer; powers sum to one; each power is the normalised sum of the raw
         taps nearest to it (raw taps closer than 1e-6 to a half-sample tie are not generated)."""
import copy
import math

import numpy as np
import warnings

# a tap of power 0 is -inf dB: the library's linear2dB warns (and is right to return -inf)
warnings.filterwarnings("ignore", message="divide by zero encountered in log10")

from ..core import pool_map

TOL = 1e-8


def _rand_profile(rng, ts):
    from pyphysim.channels import fading
    k = rng.randint(0, 8)
    if k == 0:
        return fading.COST259_TUx
    if k == 1:
        return fading.COST259_RAx
    if k == 2:
        return fading.COST259_HTx           # longest predefined profile: memory of several hundred samples at small Ts
    n = rng.randint(1, 7)
    while True:
        d = np.sort(rng.uniform(0, 5.0, size=n))
        if rng.rand() < 0.5:
            d[0] = 0.0
        if rng.rand() < 0.3 and n > 1:
            d[1] = d[0] + 0.2           # force a collision
            d = np.sort(d)
        frac = np.abs((d % 1.0) - 0.5)
        if frac.min() > 1e-3:
            break
    p = rng.uniform(-20, 0, size=n)
    if n > 1 and rng.rand() < 0.15:
        p[rng.randint(n)] = -np.inf          # a tap of power 0 is a valid tap
    perm = rng.permutation(n) if rng.rand() < 0.3 else np.arange(n)
    try:
        return fading.TdlChannelProfile(p[perm], (d * ts)[perm], "random")
    except ValueError as ex:
        if "math domain error" in str(ex) and np.ptp(d) == 0:
            raise ProfileDomainError(f"TdlChannelProfile({p[perm].tolist()}, {(d * ts)[perm].tolist()}) raised ValueError: {ex}")
        raise


class ProfileDomainError(Exception):
    pass


def _build(sc):
    """sc: scenario dict -> (channel, generator handed in, Ts, raw profile, rng).  Deterministic: calling it again gives
    an identical, independent object (the global numpy RNG, used by Rayleigh and by similar Jakes generators, is seeded)."""
    from pyphysim.channels import fading, fading_generators, singleuser, multiuser
    rng = np.random.RandomState(sc["seed"])
    np.random.seed(sc["seed"] % (2 ** 31))
    # nominal intervals with a few ppm of clock offset: the module-level COST259 profile objects are shared by all the
    # scenarios of a worker process and get discretised for many nearly equal sampling intervals
    ts = [3.25e-8, 1e-6, 5e-5, 2.0 ** -18][rng.randint(0, 4)] * (1 + int(rng.randint(-3, 4)) * 7e-6)
    nr, nt = sc["ant"]
    shape = None if nr == 0 else (nr, nt)
    kind = sc["kind"]
    route = rng.randint(0, 6)
    if route == 0 and kind in ("su", "mu"):
        # default construction routes: no profile (the wrapper builds a flat channel), no generator or a generator only
        kr, kt = sc["users"]
        gen = None
        if sc["gen"] == "rayleigh" and rng.rand() < 0.5:
            gen = fading_generators.RayleighSampleGenerator(shape=shape)
        if kind == "su":
            if nr and nr == nt:
                ch = singleuser.SuMimoChannel(nr) if gen is None else singleuser.SuMimoChannel(nr, gen)
            else:
                ch = singleuser.SuChannel() if gen is None else singleuser.SuChannel(gen)
                if nr:
                    ch.set_num_antennas(nr, nt)
        elif nr:
            ch = multiuser.MuMimoChannel((kr, kt), nr, nt) if gen is None else multiuser.MuMimoChannel((kr, kt), nr, nt, gen)
        else:
            ch = multiuser.MuChannel((kr, kt)) if gen is None else multiuser.MuChannel((kr, kt), gen)
        return ch, gen, 1.0, None, rng
    infer_ts = False
    if sc["gen"] == "jakes":
        infer_ts = rng.rand() < 0.5                  # Ts taken from the Jakes generator (the docstring example)
    elif rng.rand() < 0.25:
        ts, infer_ts = 1.0, True                     # Rayleigh and Ts=None: the sampling interval defaults to 1.0
    prof = _rand_profile(rng, ts)
    if sc["gen"] == "jakes":
        gen = fading_generators.JakesSampleGenerator(Fd=rng.uniform(5, 300), Ts=ts, L=int(rng.randint(4, 16)), shape=shape,
                                                     RS=np.random.RandomState(sc["seed"] + 1))
    else:
        gen = fading_generators.RayleighSampleGenerator(shape=shape)
    kw = dict(channel_profile=prof) if infer_ts else dict(channel_profile=prof, Ts=ts)
    if kind == "tdl":
        if nr and sc["seed"] % 2:
            ch = fading.TdlMimoChannel(gen, **kw)
        else:
            ch = fading.TdlChannel(gen, **kw)
    elif kind == "su":
        if nr and nr == nt and sc["seed"] % 2:
            ch = singleuser.SuMimoChannel(nr, gen, **kw)
        else:
            ch = singleuser.SuChannel(gen, **kw)
            if nr:
                ch.set_num_antennas(nr, nt)
    else:
        kr, kt = sc["users"]
        if nr:
            ch = multiuser.MuMimoChannel((kr, kt), nr, nt, gen, **kw)
        else:
            ch = multiuser.MuChannel((kr, kt), gen, **kw)
    return ch, gen, ts, prof, rng


def _check_profile(raw, disc, ts):
    d = np.asarray(disc.tap_delays)
    if d.dtype.kind not in "iu" or np.any(np.diff(d) <= 0) or d[0] < 0:
        return "discretised delays are not unique sorted non-negative integers"
    p = disc.tap_powers_linear
    if abs(p.sum() - 1) > TOL:
        return "discretised powers do not sum to one"
    pos = np.asarray(raw.tap_delays) / ts
    rawp = raw.tap_powers_linear
    near = np.floor(pos + 0.5).astype(int)        # no generated tap sits on a tie
    if sorted(set(near.tolist())) != d.tolist():
        return "discretised delays are not the nearest integers of the raw delays"
    for j, dj in enumerate(d):
        if abs(p[j] - rawp[near == dj].sum() / rawp.sum()) > TOL:
            return "a discretised power is not the normalised sum of the raw taps merged into it"
    return None


def _conv_ref(dense, x, n, switched, mimo):
    """explicit time-varying convolution with a dense reported response (one link)"""
    mem = dense.shape[0] - 1
    if not mimo:
        y = np.zeros(n + mem, dtype=complex)
        for d in range(mem + 1):
            for m in range(n):
                y[m + d] += dense[d, m] * x[m]
        return y
    nr, nt = dense.shape[1:3]
    no = nt if switched else nr
    y = np.zeros((no, n + mem), dtype=complex)
    for d in range(mem + 1):
        for m in range(n):
            h = dense[d, :, :, m]
            y[:, m + d] += (h.T if switched else h).dot(x[:, m])
    return y


def _freq_ref(dense, x, fft, sel, nb, switched, mimo):
    idx = np.arange(fft)[sel] if sel is not None else np.arange(fft)
    cnt = len(idx)
    L = dense.shape[0]
    F = np.exp(-2j * np.pi * np.outer(np.arange(fft), np.arange(L)) / fft)
    if not mimo:
        y = np.zeros(nb * cnt, dtype=complex)
        for b in range(nb):
            H = F.dot(dense[:, b])
            y[b * cnt:(b + 1) * cnt] = H[idx] * x[b * cnt:(b + 1) * cnt]
        return y
    nr, nt = dense.shape[1:3]
    no = nt if switched else nr
    y = np.zeros((no, nb * cnt), dtype=complex)
    for b in range(nb):
        H = np.tensordot(F, dense[..., b], axes=(1, 0))       # fft x nr x nt
        for j in range(cnt):
            h = H[idx[j]]
            y[:, b * cnt + j] = (h.T if switched else h).dot(x[:, b * cnt + j])
    return y


def _links(sc):
    kr, kt = sc["users"]
    return [(r, t) for r in range(kr) for t in range(kt)]


def _ir(sc, ch, r, t):
    return ch.get_last_impulse_response(r, t) if sc["kind"] == "mu" else ch.get_last_impulse_response()


def _rand_sel(rng, fft, kind):
    if kind == "none":
        return None
    if kind == "slice":
        while True:
            vals = [None] + list(range(-fft - 2, fft + 3))
            a, b = vals[rng.randint(len(vals))], vals[rng.randint(len(vals))]
            c = [None, 1, 2, 3, 5, 7, -1, -2, -3, -5][rng.randint(10)]
            if len(range(*slice(a, b, c).indices(fft))) > 0:
                return slice(a, b, c)
    idx = rng.randint(-fft, fft, size=rng.randint(1, fft + 1))
    return idx.tolist() if kind == "list" else idx


def _expected_all(sc, ch, x, switched, ref):
    """superposition over links of ref(dense response of the link, input of its transmitter)"""
    mimo = _ir(sc, ch, 0, 0).tap_values.ndim == 4          # the CURRENT antenna configuration (may have been changed)
    if sc["kind"] != "mu":
        xx = x
        if mimo and np.ndim(xx) == 1:
            xx = xx.reshape(1, -1)
        return ref(_ir(sc, ch, 0, 0).tap_values, xx, mimo)
    kr, kt = sc["users"]
    out = []
    for o in range(kt if switched else kr):
        acc = None
        for i in range(kr if switched else kt):
            r, t = (i, o) if switched else (o, i)
            y = ref(_ir(sc, ch, r, t).tap_values, x[i], mimo)
            acc = y if acc is None else acc + y
        out.append(acc)
    return out


def _cmp(y, want, mu):
    if mu:
        return len(y) == len(want) and all(np.shape(a) == np.shape(b) and np.allclose(a, b, rtol=0, atol=TOL * max(1.0, np.abs(b).max(initial=0)))
                                           for a, b in zip(y, want))
    return np.shape(y) == np.shape(want) and np.allclose(y, want, rtol=0, atol=TOL * max(1.0, np.abs(want).max(initial=0)))


def run_scenario(sc):
    """-> (calls_ok, violation or None, finding or None)"""
    try:
        ch, gen, ts, raw, rng = _build(sc)
        chA = _build(sc)[0]          # identical twins: linearity is checked from the same object state
        chB = _build(sc)[0]
    except ProfileDomainError as ex:
        return 0, None, {"id": "ProfileRmsSqrtDomain", "what": str(ex)}
    except Exception as ex:
        return 0, f"construction raised {type(ex).__name__}: {ex}", None
    if raw is None:          # default route: the wrapper must have built a flat channel sampled at Ts = 1
        cp = ch.channel_profile
        if list(cp.tap_delays) != [0] or abs(float(cp.tap_powers_linear[0]) - 1) > TOL or cp.Ts != 1.0:
            return 0, "default construction did not give a flat channel (one tap at delay 0, power 1, Ts 1.0)", None
    else:
        d = _check_profile(raw, ch.channel_profile, ts)
        if d:
            return 0, d, None
    prof = ch.channel_profile
    mem = int(prof.tap_delays[-1])
    amps = np.sqrt(prof.tap_powers_linear)
    nr, nt = sc["ant"]
    mimo = nr != 0
    mu = sc["kind"] == "mu"
    kr, kt = sc["users"]
    switched = False
    pl = None
    okc = 0
    held = []
    # Jakes: ONE twin of the generator, taken before the first call and advanced by what the statement says
    # (n per time-domain call, fft per block), so the position is checked across the whole history
    jtwin = copy.deepcopy(gen) if (not mu and sc["gen"] == "jakes" and gen is not None) else None
    for i, o in enumerate(sc["ops"]):
        k = o["k"]
        try:
            if k == "Ant":
                nr, nt = o["ant"]
                mimo = nr != 0
                for c_ in (ch, chA, chB):
                    if nr:
                        c_.set_num_antennas(nr, nt)
                    else:
                        c_.set_num_antennas(None, None)
                if jtwin is not None:
                    jtwin = copy.deepcopy(gen)          # the shape change re-draws the Jakes phases: follow from here
            elif k == "Dir":
                switched = bool(o["n"])
                for c_ in (ch, chA, chB):
                    c_.switched_direction = switched
            elif k == "PL":
                if o["n"] == 0:
                    for c_ in (ch, chA, chB):
                        if mu:
                            try:
                                c_.set_pathloss(None)
                            except TypeError:
                                return okc, None, {"id": "MuSetPathlossNoneRaises", "what": "MuChannel.set_pathloss(None) raised TypeError"}
                        else:
                            c_.set_pathloss(None)
                    pl = None
                else:
                    # ordinary values, and the valid extremes: exactly 0 (blocked link, falsy in Python), exactly 1,
                    # an identity matrix (no cross interference)
                    pl = rng.uniform(0.01, 1.0, size=(kr, kt))
                    r_ = rng.rand()
                    if r_ < 0.3:
                        pl = np.eye(kr, kt) if kr * kt > 1 else np.zeros((1, 1))
                    elif r_ < 0.6:
                        msk = rng.rand(kr, kt)
                        pl[msk < 0.3] = 0.0
                        pl[msk > 0.85] = 1.0
                    for c_ in (ch, chA, chB):
                        c_.set_pathloss(pl.copy() if mu else float(pl[0, 0]))
            elif k == "Gen":
                for c_ in (ch, chA, chB):
                    c_.generate_impulse_response(o["n"])
                if ch.get_last_impulse_response().num_samples != o["n"]:
                    return okc, f"step {i}: generate_impulse_response({o['n']}) reports another number of samples", None
                if jtwin is not None:
                    jtwin.generate_more_samples(o["n"])
                    s = jtwin.get_samples()
                    a = amps.reshape((-1,) + (1,) * (s.ndim - 1))
                    if not np.allclose(ch.get_last_impulse_response().tap_values_sparse, a * s, rtol=0, atol=TOL):
                        return okc, f"step {i}: generate_impulse_response does not continue at the generator position", None
            else:
                inu, ina = (kr, nr) if switched else (kt, nt)
                n = o["n"] if k == "T" else None
                if k == "F":
                    fft = int([4, 8, 16, 64, 128][rng.randint(5)])       # also shorter than the response (aliasing)
                    sel = _rand_sel(rng, fft, o["sk"])
                    cnt = fft if sel is None else len(np.arange(fft)[sel])
                    nb = o["n"]
                    n = nb * cnt
                else:
                    n = o["n"] + rng.randint(0, 20) if o["n"] else 0
                shp = ((inu,) if mu else ()) + ((ina,) if mimo else ()) + (n,)
                x1 = rng.randn(*shp) + 1j * rng.randn(*shp)
                x2 = rng.randn(*shp) + 1j * rng.randn(*shp)
                cc = complex(rng.randn(), rng.randn())
                if not mu and mimo and ina == 1 and i % 2:
                    x1, x2 = x1[0], x2[0]
                gtwin = jtwin if jtwin is not None else (copy.deepcopy(gen) if (not mu and gen is not None) else None)
                sd = (sc["seed"] * 31 + i) % (2 ** 31)

                def call(c_, x_):
                    np.random.seed(sd)
                    return c_.corrupt_data(x_) if k == "T" else c_.corrupt_data_in_freq_domain(x_, fft, sel)
                xin = x1 + cc * x2
                xin_copy = xin.copy()
                try:
                    y = call(ch, xin)
                except (ValueError, ZeroDivisionError) as ex:
                    if k == "F" and isinstance(sel, slice):
                        a, b, c3 = sel.indices(fft)
                        if (b - a) // c3 != len(range(a, b, c3)):
                            return okc, None, {"id": "SliceBlockSizeFloorDiv",
                                               "what": f"corrupt_data_in_freq_domain raised {type(ex).__name__} for {sel} with fft {fft}"}
                    raise
                # 0. frame conditions: the input is unchanged, the previous output and response are unchanged
                if not np.array_equal(xin, xin_copy):
                    return okc, f"step {i} {o}: the input array was modified by the call", None
                for name, live, snap in held:
                    same = all(np.array_equal(a, b) for a, b in zip(live, snap)) if isinstance(snap, list) else np.array_equal(live, snap)
                    if not same:
                        return okc, f"step {i} {o}: {name} of the previous transmission changed during this call", None
                irs0 = _ir(sc, ch, 0, 0).tap_values_sparse
                held = [("the returned signal", y, [np.array(a) for a in y] if mu else np.array(y)),
                        ("the reported response", irs0, np.array(irs0))]
                # 1. output = convolution with / DFT of the REPORTED response
                if k == "T":
                    want = _expected_all(sc, ch, x1 + cc * x2, switched,
                                         lambda dense, xx, mm: _conv_ref(dense, xx, n, switched, mm))
                    nsamp = n
                else:
                    want = _expected_all(sc, ch, x1 + cc * x2, switched,
                                         lambda dense, xx, mm: _freq_ref(dense, xx, fft, sel, nb, switched, mm))
                    nsamp = nb
                if not _cmp(y, want, mu):
                    return okc, (f"step {i} {o}: output differs from the " +
                                 ("time-varying convolution with" if k == "T" else "block-wise product with the DFT of") +
                                 " the reported impulse response"), None
                ylen = (y[0] if mu else y).shape[-1]
                if ylen != (n + mem if k == "T" else n):
                    return okc, f"step {i}: output length {ylen}, expected {n + mem if k == 'T' else n}", None
                for (r, t) in _links(sc):
                    ir = _ir(sc, ch, r, t)
                    if ir.num_samples != nsamp or list(ir.tap_indexes_sparse) != list(prof.tap_delays):
                        return okc, f"step {i}: reported response has wrong sample count or tap indexes", None
                # 2. reported = generated (single link: the generator object is ours)
                if gtwin is not None:
                    if sc["gen"] == "jakes":
                        if k == "T":
                            gtwin.generate_more_samples(n)
                            s = gtwin.get_samples()
                        else:
                            gtwin.generate_more_samples(nb * fft)
                            s = gtwin.get_samples()[..., ::fft]
                    else:
                        np.random.seed(sd)
                        if k == "T":
                            gtwin.generate_more_samples(n)
                            s = gtwin.get_samples()
                        else:
                            parts = []
                            for _ in range(nb):
                                gtwin.generate_more_samples(1)
                                parts.append(gtwin.get_samples())
                            s = np.concatenate(parts, axis=-1)
                    a = amps.reshape((-1,) + (1,) * (s.ndim - 1)) * (math.sqrt(pl[0, 0]) if pl is not None else 1.0)
                    if not np.allclose(_ir(sc, ch, 0, 0).tap_values_sparse, a * s, rtol=0, atol=TOL):
                        return okc, (f"step {i} {o}: reported taps are not sqrt(path loss) sqrt(tap power) x the generator's "
                                     f"samples at the positions of this transmission"), None
                # 3. linearity from the same object state
                y1 = call(chA, x1)
                y2 = call(chB, x2)
                lin = [a + cc * b for a, b in zip(y1, y2)] if mu else y1 + cc * y2
                if not _cmp(y, lin, mu):
                    return okc, f"step {i} {o}: response to x1 + c x2 differs from response(x1) + c response(x2)", None
        except Exception as ex:
            return okc, f"step {i} {o} raised {type(ex).__name__}: {ex}", None
        okc += 1
    return okc, None, None


def scenarios_from(jobs, seed, count):
    """the call sequences TLC emitted (paths of the replay stage), each bound to a generator kind and a random seed"""
    rng = np.random.RandomState(77 + seed)
    order = rng.permutation(len(jobs))
    res = []
    for q, j in enumerate(order[:count]):
        c, _, _, path = jobs[j]
        ops = [dict({"k": e["op"]["k"], "n": e["op"]["n"], "sk": e["op"]["sk"]},
                    **({"ant": c["ants"][e["op"]["n"] - 1]} if e["op"]["k"] == "Ant" else {})) for e in path]
        res.append({"kind": c["kind"], "ant": c["ant"], "users": c["users"], "ops": ops, "gen": "jakes" if q % 2 == 0 else "rayleigh",
                    "seed": int(seed * 100003 + q)})
    return res


def run(ctx, jobs):
    count = 4000 if ctx.tier == "thorough" else 320
    scs = scenarios_from(jobs, ctx.seed, count)
    res = pool_map(run_scenario, scs, chunksize=max(1, len(scs) // 64))
    n = 0
    seen = set()
    for sc, (okc, viol, find) in zip(scs, res):
        ctx.ok(n=okc)
        ctx.trace_done()
        n += okc
        case = {"kind": "real", "scenario": sc}
        if find and (find["id"], find["what"]) not in seen:
            seen.add((find["id"], find["what"]))
            ctx.finding(find["id"], f"(real generators) {find['what']}", case)
        if viol:
            ctx.violation(f"(rel, {sc['gen']} generator, {sc['kind']} ant {sc['ant']} users {sc['users']}) {viol}", case)
    ctx.notes["real_generator_scenarios"] = len(scs)
    ctx.notes["real_generator_calls_checked"] = n
    ctx.sample({"real_scenario": scs[0]})


def replay(ctx, c):
    okc, viol, find = run_scenario(c["scenario"])
    ctx.ok(n=okc)
    if find:
        ctx.finding(find["id"], find["what"], c)
    if viol:
        ctx.violation(viol, c)
