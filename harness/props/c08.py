"""C08 - multi-user channel matrix views stay coherent across any sequence of updates.

Stage M: TLC on spec/chan/MuChannel.tla (intended instance: invariants hold; every listed
deviation flag: TLC must find the violation).
Stage R: every transition of the emitted state graph (and deeper path sets in the thorough
tier) is driven through the real MultiUserChannelMatrix / MultiUserChannelMatrixExtInt; after
every step every public view is read on a deep copy and compared with raw (.) amplitude, the
amplitude matrix being the one TLC emitted for the post-state.
Stage T: see harness/props/c08_trace.py (random histories, logged snapshot identities
validated by TLC against the same machine)."""
import copy
import random
from fractions import Fraction

import numpy as np

from .. import tlc, graph
from ..core import pool_map

MODULE = "chan/MuChannel.tla"
DEVS = ["NewChannelKeepsCache", "ExtIntSetPathlossKeepsCache", "SetPostFilterKeepsBigW",
        "PlBigNotRebuiltOnResize", "HNoExtViaOverride"]
READERS = ["ReadH", "ReadBigH", "GetHkl", "GetHk", "BigHNoExt", "HNoExt", "GetHkNoExt", "GetHkWithExt"]
TOL = 1e-9

SPLITS = {
    # (ext, tier-set) -> splits.  Same totals with different partitions are essential (a stale
    # per-antenna expansion then has the right shape and silently scales the wrong entries).
    "plainA": [dict(nr=[1, 2], nt=[2, 1], nte=[]), dict(nr=[2, 1], nt=[1, 2], nte=[]), dict(nr=[2, 2], nt=[1, 1], nte=[])],
    "extA": [dict(nr=[1, 2], nt=[2, 1], nte=[1]), dict(nr=[2, 1], nt=[1, 2], nte=[1]), dict(nr=[2, 1], nt=[2, 1], nte=[1, 2])],
    "plainB": [dict(nr=[1, 2], nt=[2, 1], nte=[]), dict(nr=[1, 2], nt=[1, 2], nte=[]), dict(nr=[2, 1], nt=[2, 1], nte=[])],
    # (second split: as many external sources as users and every data block of the same size - where "a list of blocks" and
    # "a stacked array" are most easily confused)
    "extB": [dict(nr=[1, 2], nt=[2, 1], nte=[1]), dict(nr=[1, 2], nt=[1, 1], nte=[1, 1]), dict(nr=[2, 1], nt=[2, 1], nte=[1, 1]),
             dict(nr=[1, 2], nt=[1, 1], nte=[2])],
    "plainK3": [dict(nr=[1, 2], nt=[2, 1], nte=[]), dict(nr=[2, 1, 1], nt=[1, 1, 2], nte=[]), dict(nr=[1, 1, 2], nt=[2, 1, 1], nte=[])],
    "extK3": [dict(nr=[1, 2], nt=[2, 1], nte=[1]), dict(nr=[2, 1, 1], nt=[1, 1, 2], nte=[1]), dict(nr=[1, 1, 2], nt=[2, 1, 1], nte=[2])],
}
ACTS_A = {"Randomize", "InitFrom", "SetPathloss", "ReadH", "ReadBigH", "GetHkl", "GetHk", "BigHNoExt", "HNoExt", "GetHkNoExt", "GetHkWithExt", "Rejected"}
ACTS_B = {"Randomize", "SetPathloss", "SetNoiseVar", "SetPostFilter", "ReadBigH", "Corrupt", "Rejected"}


def model(ext, splits, acts, npl, nfilt, ndata, dev=(), emit=True):
    d = {k: (k in dev) for k in DEVS}
    defs = {"Splits": tlc.tla(splits), "Acts": tlc.tla(set(acts)), "Dev": tlc.tla(d)}
    cfg = tlc.cfg_text(constants={"Ext": tlc.tla(bool(ext)), "NPl": str(npl), "NFilt": str(nfilt), "NData": str(ndata)},
                       defs=defs, invariants=["TypeOK", "Coherent", "ReceiveLaw", "CachesFresh"],
                       action_constraints=["Emit"] if emit else [])
    return cfg, defs


# ------------------------------------------------------------------ driving the real classes
def _gint(rng, r, c):
    return (rng.randint(-3, 4, size=(r, c)) + 1j * rng.randint(-3, 4, size=(r, c))).astype(complex)


def frac_matrix(m):
    return np.array([[Fraction(x[0], x[1]) for x in row] for row in m], dtype=float) if m else np.zeros((0, 0))


class Driver:
    def __init__(self, ext, splits, seed):
        from pyphysim.channels import multiuser
        self.ext = ext
        self.splits = splits
        self.rng = np.random.RandomState(seed)
        self.obj = multiuser.MultiUserChannelMatrixExtInt() if ext else multiuser.MultiUserChannelMatrix()
        self.obj.set_channel_seed(seed + 1)
        self.obj.set_noise_seed(seed + 2)
        self.raw = None
        self.filters = None
        # a bystander: another object initialised from this object's channel; nothing done to the object under
        # test may change what the bystander reports
        self.by = None
        self.by_views = None
        self.pending = None
        self.pl_given = None       # the path-loss array the caller handed over last

    def dims(self, s):
        sp = self.splits[s - 1]
        return sp["nr"], sp["nt"], sp["nte"]

    def raw_of(self, obj):
        """public route to the raw channel: a copy without path loss"""
        c = copy.deepcopy(obj)
        if self.ext:
            c.set_pathloss(None, None)
        else:
            c.set_pathloss(None)
        return np.array(c.big_H, dtype=complex)

    def _new_bystander(self, nr, nt, nte, K):
        from pyphysim.channels import multiuser
        src = copy.deepcopy(self.obj)
        self.by = multiuser.MultiUserChannelMatrixExtInt() if self.ext else multiuser.MultiUserChannelMatrix()
        # the bystander is built from the matrix the object under test hands out (no path loss -> its raw matrix)
        o = self.obj
        had = o.pathloss
        give = o.big_H if had is None else src.big_H
        if self.ext:
            self.by.init_from_channel_matrix(give, np.array(nr), np.array(nt), K, np.array(nte))
        else:
            self.by.init_from_channel_matrix(give, np.array(nr), np.array(nt), K)
        self.by_views = (np.array(self.by.big_H), [[np.array(self.by.get_Hkl(k, l)) for l in range(K)] for k in range(K)])

    @staticmethod
    def _split(y, nr):
        """the documented relation corrupt_data(blocks) = split(corrupt_concatenated_data(vstack(blocks))) by Nr"""
        cr = np.cumsum([0] + list(nr))
        out = np.empty(len(nr), dtype=object)
        for k in range(len(nr)):
            out[k] = y[cr[k]:cr[k + 1], :]
        return out

    def alias_probe(self):
        """the caller writes into the path-loss array it passed earlier: either the write is refused (read-only), or
        the object keeps reporting ONE path loss coherently (all views agree with `pathloss`); the write is undone"""
        pl = self.pl_given
        if pl is None or self.obj.pathloss is None:
            return None
        old = pl[0, 0]
        try:
            pl[0, 0] = old * 4 + 1
        except ValueError:
            return None            # write-protected: fine
        try:
            o = self.obj
            rep = np.asarray(o.pathloss, dtype=float)
            K = rep.shape[0]
            H = o.H
            for k in range(K):
                for l in range(K):
                    a = np.asarray(o.get_Hkl(k, l))
                    b = np.asarray(o.get_Hk(k))
                    nt = [np.asarray(H[k, j]).shape[1] for j in range(rep.shape[1])]
                    c0 = int(np.sum(nt[:l]))
                    if not np.allclose(a, b[:, c0:c0 + a.shape[1]], atol=1e-9):
                        return ("after the caller wrote into the path-loss array it had passed, get_Hkl and get_Hk disagree "
                                "(one uses the new values, a cache the old ones)")
            return None
        finally:
            try:
                pl[0, 0] = old
            except ValueError:
                pass

    def bystander_changed(self):
        if self.by is None:
            return None
        big, blocks = self.by_views
        if not np.array_equal(np.array(self.by.big_H), big):
            return "big_H of a bystander object (initialised from this object's channel earlier) changed"
        K = len(blocks)
        for k in range(K):
            for l in range(K):
                if not np.array_equal(np.array(self.by.get_Hkl(k, l)), blocks[k][l]):
                    return "a block of a bystander object changed"
        return None

    def step(self, e):
        """apply the edge's operation to the real object; returns (kind, value)"""
        op, a = e["ret"]["op"], e["ret"]["a"]
        o = self.obj
        if op in ("Randomize", "InitFrom"):
            nr, nt, nte = self.dims(a[0])
            K = len(nr)
            # equal antenna counts may be given as one int (documented); every other time they are
            as_int = self.rng.randint(0, 2) == 0
            anr = int(nr[0]) if (as_int and len(set(nr)) == 1) else np.array(nr)
            ant = int(nt[0]) if (as_int and len(set(nt)) == 1) else np.array(nt)
            ante = int(nte[0]) if (as_int and len(nte) == 1) else np.array(nte)
            if op == "Randomize":
                if self.ext:
                    o.randomize(anr, ant, K, ante)
                else:
                    o.randomize(anr, ant, K)
                self.raw = self.raw_of(o)
            else:
                m = _gint(self.rng, sum(nr), sum(nt) + sum(nte))
                if self.ext:
                    # (the ExtInt class documents arrays for Nr / Nt here; a single source may be given as an int)
                    o.init_from_channel_matrix(m.copy(), np.array(nr), np.array(nt), K, ante)
                else:
                    o.init_from_channel_matrix(m.copy(), anr, ant, K)
                self.raw = m
            self.pending = self.bystander_changed()      # the old bystander must have survived this call untouched
            self._new_bystander(nr, nt, nte, K)
            return None
        if op == "Rejected":
            nr, nt, nte = self.dims(e["post"]["split"])
            K = len(nr)
            if a[0] == "initK":
                m = _gint(self.rng, sum(nr), sum(nt) + sum(nte))
                nr2 = np.ones(sum(nr), dtype=int)        # right totals, wrong number of users
                nt2 = np.ones(sum(nt), dtype=int)
                if len(nr2) == K and len(nt2) == K:
                    return None
                try:
                    if self.ext:
                        o.init_from_channel_matrix(m, nr2, nt2, K, np.array(nte))
                    else:
                        o.init_from_channel_matrix(m, nr2, nt2, K)
                except ValueError:
                    return None
                return ("error", "init_from_channel_matrix accepted Nr/Nt that do not have K entries")
            try:
                o.noise_var = -1.0
            except (AssertionError, ValueError):
                return None
            return ("error", "a negative noise variance was accepted")
        if op == "SetPathloss":
            if a[0] == 0:
                o.set_pathloss(None, None) if self.ext else o.set_pathloss(None)
            else:
                main = frac_matrix(e["plm"]["main"])
                if self.ext:
                    o.set_pathloss(main, frac_matrix(e["plm"]["ext"]))
                else:
                    o.set_pathloss(main)
                self.pl_given = main
            return None
        if op == "SetNoiseVar":
            o.noise_var = {"none": None, "zero": 0.0, "pos": 0.5}[a[0]]
            return None
        if op == "SetPostFilter":
            if a[0] == 0:
                self.filters = None
                o.set_post_filter(None)
            else:
                nr, _, _ = self.dims(e["post"]["split"])
                r = np.random.RandomState(1000 + a[0])
                self.filters = [_gint(r, n, n) + np.eye(n) * 5 for n in nr]
                # filters of different element types in one list: the first one is real valued (float64)
                self.filters[0] = np.real(self.filters[0]).astype(float) + np.eye(nr[0])
                if self.rng.randint(0, 2):
                    o.set_post_filter(list(self.filters))
                else:                                    # the documented alternative: a 1-D array of 2-D arrays
                    fa = np.empty(len(self.filters), dtype=object)
                    for k, f in enumerate(self.filters):
                        fa[k] = f
                    o.set_post_filter(fa)
            return None
        if op == "ReadH":
            return ("H", o.H)
        if op == "ReadBigH":
            return ("big_H", o.big_H)
        if op == "GetHkl":
            return (("Hkl", a[0] - 1, a[1] - 1), o.get_Hkl(a[0] - 1, a[1] - 1))
        if op == "GetHk":
            return (("Hk", a[0] - 1), o.get_Hk(a[0] - 1))
        if op == "BigHNoExt":
            return ("big_H_no_ext", o.big_H_no_ext_int)
        if op == "HNoExt":
            return ("H_no_ext", o.H_no_ext_int)
        if op == "GetHkNoExt":
            return (("Hk_no_ext", a[0] - 1), o.get_Hk_without_ext_int(a[0] - 1))
        if op == "GetHkWithExt":
            return (("Hk", a[0] - 1), o.get_Hk_with_ext_int(a[0] - 1))
        if op == "Corrupt":
            nr, nt, nte = self.dims(e["post"]["split"])
            r = np.random.RandomState(2000 + a[0])
            data = np.zeros(len(nt), dtype=object)
            for k, n in enumerate(nt):
                blk = _gint(r, n, 3)
                # memory layout of the caller's data must not matter: C order, Fortran order, transposed view
                form = (self.rng.randint(0, 3) + k) % 3
                data[k] = blk if form == 0 else (np.asfortranarray(blk) if form == 1 else np.ascontiguousarray(blk.T).T)
            before = [np.array(d) for d in data]
            if self.ext:
                ed = np.zeros(len(nte), dtype=object)
                for k, n in enumerate(nte):
                    ed[k] = _gint(r, n, 3)
                form = self.rng.randint(0, 3)          # arrays of arrays | plain lists | the concatenated entry point
                if form == 0:
                    out = o.corrupt_data(data, ed)
                elif form == 1:
                    out = o.corrupt_data(list(data), list(ed))
                else:
                    out = self._split(o.corrupt_concatenated_data(np.vstack(list(data) + list(ed))), nr)
                x = np.vstack(list(data) + list(ed))
            else:
                form = self.rng.randint(0, 3)
                if form == 0:
                    out = o.corrupt_data(data)
                elif form == 1:
                    out = o.corrupt_data(list(data))
                else:
                    out = self._split(o.corrupt_concatenated_data(np.vstack(list(data))), nr)
                x = np.vstack(list(data))
            if any(not np.array_equal(b, d) for b, d in zip(before, data)):
                return ("error", "corrupt_data changed the caller's transmit data")
            x = np.vstack([b for b in before] + ([np.array(d) for d in ed] if self.ext else []))
            return ("rx", (out, x, o.last_noise))
        raise ValueError(op)


def expected_views(raw, amp, nr, nt, nte, ext):
    """every public view as raw (.) amplitude, keyed like Driver.step's kinds"""
    big = raw * amp
    cr = np.cumsum([0] + list(nr))
    ct = np.cumsum([0] + list(nt) + list(nte))
    K = len(nr)
    T = sum(nt)
    v = {"big_H": big}
    for k in range(K):
        v[("Hk", k)] = big[cr[k]:cr[k + 1], :]
        for l in range(len(ct) - 1):
            v[("Hkl", k, l)] = big[cr[k]:cr[k + 1], ct[l]:ct[l + 1]]
        if ext:
            v[("Hk_no_ext", k)] = big[cr[k]:cr[k + 1], :T]
    if ext:
        v["big_H_no_ext"] = big[:, :T]
    return v


def _close(a, b):
    a = np.asarray(a)
    b = np.asarray(b)
    return a.shape == b.shape and np.allclose(a, b, rtol=0, atol=TOL)


def compare_view(kind, val, ev, K, ncol_blocks):
    """None if the returned value equals the expected view, else a description"""
    if kind == "H" or kind == "H_no_ext":
        nc = K if kind == "H_no_ext" else ncol_blocks
        val = np.asarray(val, dtype=object)
        if val.shape != (K, nc):
            return f"{kind} has shape {val.shape}, expected {(K, nc)}"
        for k in range(K):
            for l in range(nc):
                if not _close(val[k, l], ev[("Hkl", k, l)]):
                    return f"{kind}[{k},{l}] differs from raw*sqrt(current pathloss)"
        return None
    if not _close(val, ev[kind]):
        return f"{kind} differs from raw*sqrt(current pathloss)"
    return None


def probe_all(obj, ev, K, ncb, ext):
    """read every view on a deep copy (so the cache history under test is not perturbed); the order of
    the reads on the copy is rotated by the caller-independent hash of the state so that no reader is
    always preceded by the same cache-filling reader"""
    bad = []
    reads = [("H", lambda c: c.H), ("big_H", lambda c: c.big_H)]
    for k in range(K):
        reads.append((("Hk", k), lambda c, k=k: c.get_Hk(k)))
        for l in range(ncb):
            reads.append((("Hkl", k, l), lambda c, k=k, l=l: c.get_Hkl(k, l)))
        if ext:
            reads.append((("Hk_no_ext", k), lambda c, k=k: c.get_Hk_without_ext_int(k)))
            reads.append((("Hk", k), lambda c, k=k: c.get_Hk_with_ext_int(k)))
    if ext:
        reads += [("big_H_no_ext", lambda c: c.big_H_no_ext_int), ("H_no_ext", lambda c: c.H_no_ext_int)]
    # negative indexes address receivers / blocks from the end (H is an array of blocks): same blocks as K - 1, ncb - 1
    reads.append((("Hk", K - 1), lambda c: c.get_Hk(-1)))
    reads.append((("Hkl", K - 1, ncb - 1), lambda c: c.get_Hkl(-1, -1)))
    reads.append((("Hkl", 0, ncb - 1), lambda c: c.get_Hkl(-K, -1)))
    c = copy.deepcopy(obj)
    rot = probe_all.counter % len(reads)
    probe_all.counter += 1
    reads = reads[rot:] + reads[:rot]
    for kind, f in reads:
        try:
            val = f(c)
        except Exception as ex:  # a reader must not raise on a coherent object
            bad.append((kind, f"raised {type(ex).__name__}: {ex}"))
            continue
        d = compare_view(kind, val, ev, K, ncb)
        if d:
            bad.append((kind, d))
    return bad


probe_all.counter = 0


def run_path(job):
    """job = (ext, splits, amp_table, edges, seed) -> (steps_ok, violations); total: whatever is raised while the views of
    the object are being compared is a verdict, not a harness error"""
    try:
        return _run_path(job)
    except Exception as ex:          # noqa
        return 0, [{"step": -1, "op": {"op": "?", "a": []}, "what": f"the views cannot be examined: {type(ex).__name__}: {ex}"}]


def _run_path(job):
    ext, splits, amps, edges, seed = job
    drv = Driver(ext, splits, seed)
    viol = []
    okc = 0
    held = []       # (what, array handed out earlier, copy taken then): a result is a value, later calls must not change it
    for i, e in enumerate(edges):
        post = e["post"]
        nr, nt, nte = drv.dims(post["split"])
        K, ncb = len(nr), len(nt) + len(nte)
        try:
            got = drv.step(e)
        except Exception as ex:
            viol.append({"step": i, "op": e["ret"], "what": f"{e['ret']['op']} raised {type(ex).__name__}: {ex}"})
            break
        if not post["inited"]:
            # a setter called before any channel exists: nothing to read yet (the views are judged after the first channel)
            okc += 1
            continue
        amp = amps[f"{post['pl']},{post['split']}"]
        ev = expected_views(drv.raw, amp, nr, nt, nte, ext)
        if got is not None:
            kind, val = got
            if kind == "rx":
                out, x, ln = val
                y = ev["big_H"].dot(x)
                want_noise = post["noise"] != "none"
                if want_noise != (ln is not None):
                    viol.append({"step": i, "op": e["ret"], "what": "last_noise reported does not match noise_var setting"})
                if ln is not None:
                    if post["noise"] == "zero" and np.abs(ln).max() > 0:
                        viol.append({"step": i, "op": e["ret"], "what": "noise added with zero variance"})
                    if post["noise"] == "pos" and not (0.01 < np.mean(np.abs(ln) ** 2) < 5):
                        viol.append({"step": i, "op": e["ret"], "what": "noise power implausible for variance 0.5"})
                    y = y + ln
                    drv.noise_kept = np.array(ln)
                else:
                    drv.noise_kept = None
                if drv.filters is not None:
                    from scipy.linalg import block_diag
                    y = block_diag(*drv.filters).conj().T.dot(y)
                cr = np.cumsum([0] + list(nr))
                okrx = len(out) == K and all(_close(out[k], y[cr[k]:cr[k + 1], :]) for k in range(K))
                if not okrx:
                    viol.append({"step": i, "op": e["ret"],
                                 "what": "corrupt_data output != W^H (big_H x + last_noise) split by Nr"})
            elif kind == "error":
                viol.append({"step": i, "op": e["ret"], "what": val})
            else:
                d = compare_view(kind, val, ev, K, ncb)
                if d:
                    viol.append({"step": i, "op": e["ret"], "what": "returned " + d})
                if isinstance(val, np.ndarray) and val.dtype != object:
                    held.append((f"{kind} returned at step {i}", val, np.array(val)))
                    held[:] = held[-6:]
        if got is None or got[0] != "rx":
            # last_noise is the noise that was added to the last received block, whatever was set or read since
            nk = getattr(drv, "noise_kept", "unset")
            if nk != "unset" if isinstance(nk, str) else True:
                try:
                    cur = drv.obj.last_noise
                    if nk is not None and (cur is None or np.shape(cur) != nk.shape or not np.array_equal(np.asarray(cur), nk)):
                        viol.append({"step": i, "op": e["ret"], "what": "last_noise no longer reports the noise added by the last corrupt call "
                                     "(a later call changed it)"})
                except Exception as ex:          # noqa
                    viol.append({"step": i, "op": e["ret"], "what": f"reading last_noise raised {type(ex).__name__}: {ex}"})
        for what, ref, cp in held:
            if not np.array_equal(ref, cp):
                viol.append({"step": i, "op": e["ret"], "what": f"the array {what} was changed by a later call"})
                break
        if not viol and e["ret"]["op"] in ("ReadBigH", "GetHk", "ReadH") and drv.pl_given is not None:
            ap = drv.alias_probe()
            if ap:
                viol.append({"step": i, "op": e["ret"], "what": ap})
        bc = drv.pending or drv.bystander_changed()
        drv.pending = None
        if bc:
            viol.append({"step": i, "op": e["ret"], "what": bc})
        try:
            cw = copy.deepcopy(drv.obj)
            bw, w = cw.big_W, cw.W
            if drv.filters is None:
                if bw is not None or w is not None:
                    viol.append({"step": i, "op": e["ret"], "what": "W / big_W report filters although none are set"})
            else:
                from scipy.linalg import block_diag
                if bw is None or not _close(bw, block_diag(*drv.filters)) or len(w) != len(drv.filters) \
                        or any(not _close(a_, b_) for a_, b_ in zip(w, drv.filters)):
                    viol.append({"step": i, "op": e["ret"], "what": "W / big_W are not the filters set last (block diagonal of the current filters)"})
        except Exception as ex:                         # noqa
            viol.append({"step": i, "op": e["ret"], "what": f"reading W / big_W raised {type(ex).__name__}: {ex}"})
        for kind, d in probe_all(drv.obj, ev, K, ncb, ext):
            viol.append({"step": i, "op": e["ret"], "what": f"after step: view {kind}: {d}"})
        if viol:
            break
        okc += 1
    return okc, viol


# ------------------------------------------------------------------------------- the check
def amp_table(edges):
    t = {}
    for e in edges:
        if e["amp"]:
            t[f"{e['post']['pl']},{e['post']['split']}"] = frac_matrix(e["amp"])
    return t


def strip(e):
    return {"pre": e["pre"], "post": e["post"], "ret": e["ret"], "plm": e["plm"]}


def explore(ctx, name, ext, splits, r, mode):
    ctx.account(r, MODULE, name)
    amps = amp_table(r.emitted)
    g = graph.Graph([strip(e) for e in r.emitted], label=lambda e: graph.key(e["ret"]))
    root = g.roots()[0]
    rng = random.Random(ctx.seed)
    paths = g.transition_cover(root, max_len=12, rng=rng)
    if mode.get("depth"):
        paths += g.all_paths(root, mode["depth"], limit=mode.get("limit"))
    if mode.get("walks"):
        paths += g.random_walks(root, mode["walks"], mode.get("walk_len", 12), rng)
    jobs = [(ext, splits, amps, g.path_edges(p), ctx.seed * 100003 + i) for i, p in enumerate(paths)]
    res = pool_map(run_path, jobs, chunksize=max(1, len(jobs) // 64))
    for job, (okc, viol) in zip(jobs, res):
        ctx.ok(n=okc)
        ctx.trace_done()
        for v in viol[:1]:
            ctx.violation(f"{name}: {v['what']} (step {v['step']} op {v['op']})",
                          {"config": name, "ext": ext, "splits": splits, "amps": {k: a.tolist() for k, a in amps.items()},
                           "path": job[3], "seed": job[4], "failing": v})
    for _, _, e in g.edges:
        ctx.distinct.add(graph.key(e["pre"]) + graph.key(e["ret"]))
    ctx.sample({"config": name, "path": [e["ret"] for e in g.path_edges(paths[len(paths) // 2])]})
    return len(paths)


def model_devs(ctx):
    """each named deviation must be *found* by TLC at model level (non-vacuity of the invariants)"""
    exp = {"NewChannelKeepsCache": (False, "plainA", ACTS_A), "ExtIntSetPathlossKeepsCache": (True, "extA", ACTS_A),
           "PlBigNotRebuiltOnResize": (False, "plainA", ACTS_A), "SetPostFilterKeepsBigW": (False, "plainB", ACTS_B)}
    for dev, (ext, sp, acts) in exp.items():
        cfg, defs = model(ext, SPLITS[sp], acts, 1, 2, 1, dev=[dev], emit=False)
        r = tlc.run(MODULE, cfg, defs=defs)
        if not r.violated:
            raise tlc.TlcError(f"deviation {dev} is not detected by the invariants of MuChannel.tla")
        ctx.notes.setdefault("deviations_refuted_by_model", {})[dev] = r.violated


def run(ctx):
    ctx.rule = ("TLC enumerates the complete state graph of the cache machine (MuChannel.tla) per configuration; "
                "replayed paths cover every transition; distinct = (abstract state, operation) pairs executed on the real class")
    ctx.assumptions += ["numpy deep copies are faithful", "views compared with tolerance 1e-9",
                        "K may only change while no path loss is set; post filters are square and match Nr"]
    thorough = ctx.tier == "thorough"
    mode = {"depth": 5, "limit": 20000, "walks": 3000, "walk_len": 14} if thorough else {"walks": 150, "walk_len": 12}
    cfgs = [
        ("plain/coherence", False, "plainA", ACTS_A, 2, 1, 1),
        ("extint/coherence", True, "extA", ACTS_A, 3, 1, 1),
        ("plain/receive", False, "plainB", ACTS_B, 1, 2 if thorough else 1, 1),
        ("extint/receive", True, "extB", ACTS_B, 1, 2 if thorough else 1, 1),
    ] + ([("plain/K3", False, "plainK3", ACTS_A, 2, 1, 1), ("extint/K3", True, "extK3", ACTS_A, 2, 1, 1)] if thorough else [])
    from concurrent.futures import ThreadPoolExecutor
    with ThreadPoolExecutor(8) as ex:
        futs = [ex.submit(lambda c=c: tlc.run(MODULE, *model(c[1], SPLITS[c[2]][:(3 if thorough or "coherence" in c[0] else 2)], c[3], c[4], c[5], c[6])[:1],
                                              defs=model(c[1], SPLITS[c[2]][:(3 if thorough or "coherence" in c[0] else 2)], c[3], c[4], c[5], c[6])[1], coverage=True)) for c in cfgs]
        devf = ex.submit(model_devs, ctx)
        runs = [f.result() for f in futs]
        devf.result()
    n = 0
    for c, r in zip(cfgs, runs):
        sp = SPLITS[c[2]][:(3 if thorough or "coherence" in c[0] else 2)]
        n += explore(ctx, c[0], c[1], sp, r, mode)
    ctx.require_actions(["NewChannel", "SetPathloss", "SetNoiseVar", "SetPostFilter", "Rejected", "Reader", "GetHkl", "GetHk",
                         "BigHNoExt", "HNoExt", "GetHkNoExt", "GetHkWithExt", "Corrupt"])
    ctx.exhaustive = True
    ctx.notes["paths_replayed"] = n
    # (rel) antenna counts of narrow integer types whose total exceeds the type's range: the block views are slices of
    # big_H at the cumulative counts
    for dt in (np.int8, np.int16):
        d = narrow_counts_case(dt)
        ctx.ok(("narrow-counts", np.dtype(dt).name))
        if d:
            ctx.violation(f"narrow-counts: {d}", {"kind": "narrow", "dtype": np.dtype(dt).name})
    from . import c08_trace
    c08_trace.run(ctx)


def narrow_counts_case(dt):
    try:
        from pyphysim.channels.multiuser import MultiUserChannelMatrix, MultiUserChannelMatrixExtInt
        big = 50
        rs = np.random.RandomState(5)
        for cls in (MultiUserChannelMatrix, MultiUserChannelMatrixExtInt):
            ext = cls is MultiUserChannelMatrixExtInt
            K = 2 if ext else 3
            nr = np.array([big, big, big + 3][:K], dtype=dt)         # int8: the cumulative counts pass 127
            nt = np.array([big + 2, big, big][:K], dtype=dt)
            nte = np.array([big], dtype=dt) if ext else np.array([], dtype=dt)
            rows = int(nr.astype(int).sum())
            cols = int(nt.astype(int).sum()) + int(nte.astype(int).sum())
            M = rs.randn(rows, cols) + 1j * rs.randn(rows, cols)
            o = cls()
            if ext:
                o.init_from_channel_matrix(M.copy(), nr, nt, K, nte)
            else:
                o.init_from_channel_matrix(M.copy(), nr, nt, K)
            cr = np.cumsum([0] + [int(x) for x in nr])
            cc = np.cumsum([0] + [int(x) for x in nt] + [int(x) for x in nte])
            name = f"{cls.__name__} with {np.dtype(dt).name} antenna counts {nr.tolist()} x {nt.tolist() + nte.tolist()}"
            if not np.array_equal(np.asarray(o.big_H), M):
                return f"{name}: big_H is not the matrix given"
            for k in range(K):
                if not np.array_equal(np.asarray(o.get_Hk(k)), M[cr[k]:cr[k + 1], :]):
                    return f"{name}: get_Hk({k}) is not rows {cr[k]}..{cr[k + 1]} of big_H (shape {np.asarray(o.get_Hk(k)).shape})"
                for l in range(len(cc) - 1):
                    if not np.array_equal(np.asarray(o.get_Hkl(k, l)), M[cr[k]:cr[k + 1], cc[l]:cc[l + 1]]):
                        return (f"{name}: get_Hkl({k}, {l}) is not the block of big_H at the cumulative counts "
                                f"(shape {np.asarray(o.get_Hkl(k, l)).shape})")
        return None
    except Exception as ex:      # noqa
        return f"{np.dtype(dt).name} antenna counts: {type(ex).__name__}: {ex}"


def replay(ctx, data):
    if data["case"].get("kind") == "narrow":
        d = narrow_counts_case(np.dtype(data["case"]["dtype"]).type)
        ctx.ok()
        if d:
            ctx.violation(d, data)
        return
    c = data["case"]
    amps = {k: np.array(v) for k, v in c["amps"].items()}
    okc, viol = run_path((c["ext"], c["splits"], amps, c["path"], c["seed"]))
    ctx.ok(n=okc)
    for v in viol[:1]:
        ctx.violation(f"{c['config']}: {v['what']} (step {v['step']})", c)
