"""C15 - constellations are Gray labelled and Gray conversion is a bijection.

Stage M  spec/modem/Constellation.tla: the documented construction is Gray (TableOK) for every
         cardinality in range, at construction and after any sequence of SetPhaseOffset; every other
         cardinality is rejected; each named deviation is FOUND by TLC.
         spec/modem/Gray.tla: inverse laws / adjacency / reflected definition / cascade loop invariant /
         Hamming law, exhaustive for W <= 12, additivity on all pairs for small W, basis + seeded
         vectors for W = 62; Dev.G2BOnly16Bits is found.
Stage T  the symbol table of the REAL PSK / QPSK / BPSK / QAM objects is recorded (label -> integer
         coordinate) at construction and after every setPhaseOffset of a sequence of such calls and
         validated by TLC (Trace_Constellation.tla) against Bijective and GrayAdjacent - any Gray
         labelling passes, no particular one is expected.
Stage R  every call TLC explored in Gray.tla (argument, exact result) is executed on
         binary2gray / gray2binary / count_bits / count_bit_errors with Python ints, numpy int64
         scalars and int64 arrays (1-d and 2-d, with the axis argument); every bit-error pair also with
         EVERY combination of integer dtypes / Python int / list for the two operands that can hold the
         values, in BOTH argument orders and as non-contiguous views (the count is about values).
Stage H  spec/modem/GrayCalls.tla: histories of conversion calls in one process (arrays whose maximum is
         2^k - 1, 2^k, 2^k + 1 for many k in every order, scalars in between); ArgumentOnly holds,
         Dev.MemoTableOneShort is found; the emitted graph is covered transition by transition in
         freshly spawned interpreters (harness/props/c15_calls.py)."""
import math

import numpy as np

from .. import tlc, graph
from . import constellation_common as cc
from . import c15_calls

GRAY = "modem/Gray.tla"
GDEVS = ["G2BOnly16Bits", "B2GShiftMissing", "ErrCountsFirstOperand", "CountsInMemoryOrder", "BlockTailTwice"]
GINV = ["TypeOK", "InverseLaw", "AdjacentLaw", "ReflectedLaw", "CascadeLoopInv", "HammingLaw", "SymmetryLaw", "AxisLaw", "TotalLaw"]
GCALLS = "modem/GrayCalls.tla"
KS_QUICK = [1, 2, 3, 4, 5, 8, 11, 12, 13, 15, 16]
DTYPES = ["uint8", "uint16", "int32", "uint32", "int64", "uint64"]
CARE = ["WellFormed", "Bijective", "GrayAdjacent", "Unchecked", "Accepts", "CopyIsEqual"]


# ------------------------------------------------------------------ Gray.tla
def gray_cfg(W, mode, dev=(), nrand=8, seed=0, emit=False, additive=False, noinv=False):
    d = {k: (k in dev) for k in GDEVS}
    defs = {"Shifts": tlc.tla([32, 16, 8, 4, 2, 1]), "Dev": tlc.tla(d)}
    cfg = tlc.cfg_text(constants={"W": str(W), "Mode": tlc.tla(mode), "NRand": str(nrand), "Seed": str(seed)},
                       defs=defs, invariants=[] if noinv else GINV + (["Additive"] if additive else []),
                       action_constraints=["Emit"] if emit else [])
    return cfg, defs


def run_gray(W, mode, **kw):
    cfg, defs = gray_cfg(W, mode, **kw)
    return tlc.run(GRAY, cfg, defs=defs, coverage=True, timeout=1800, workers=1 if kw.get("emit") else 2)


def dec(x):
    """integer, or bit vector least significant first"""
    if isinstance(x, list):
        return sum(int(b) << i for i, b in enumerate(x))
    return int(x)


def call_forms(fn, args, exp):
    """run fn on the argument tuples in every form; yields (form, index, expected, got-or-exception-text)"""
    n = len(args)
    ar = len(args[0])
    # python ints and numpy scalars, one by one
    for form, conv in (("int", int), ("int64", np.int64)):
        for i, a in enumerate(args):
            try:
                got = fn(*[conv(x) for x in a])
                got = int(got)
            except Exception as ex:
                got = f"raised {type(ex).__name__}: {ex}"[:160]
            yield form, i, exp[i], got
    # int64 arrays (element-wise functions only; count_bit_errors is handled by the caller)
    if fn.__name__ != "count_bit_errors":
        cols = [np.array([a[j] for a in args], dtype=np.int64) for j in range(ar)]
        for form, shp in (("array", (n,)), ("array2d", (2, n // 2) if n % 2 == 0 and n else (n,))):
            try:
                argv = [c.reshape(shp).copy() for c in cols]
                got = np.asarray(fn(*argv))
                ok_shape = got.shape == tuple(shp)
                got = [int(v) for v in got.ravel()]
                if not all(np.array_equal(a_, c.reshape(shp)) for a_, c in zip(argv, cols)):    # ArgumentsUnchanged
                    got = ["argument modified"] * n
            except Exception as ex:
                ok_shape, got = True, [f"raised {type(ex).__name__}: {ex}"[:160]] * n
            for i in range(n):
                yield form, i, exp[i], (got[i] if ok_shape and i < len(got) else "wrong shape")
        # every other integer type that can hold argument AND result ("all non-negative integers representable in the
        # integer type used"): arrays, strided arrays and numpy scalars; the result must come back un-truncated
        for tname in ("uint8", "int8", "uint16", "int16", "int32", "uint32", "uint64"):
            t = getattr(np, tname)
            top = np.iinfo(t).max
            sel = [i for i in range(n) if all(0 <= x <= top for x in args[i]) and 0 <= exp[i] <= top]
            if not sel:
                continue
            cols = [np.array([args[i][j] for i in sel], dtype=t) for j in range(ar)]
            for form, lay in ((f"array {tname}", "C"), (f"strided array {tname}", "strided")):
                try:
                    argv = [cc.as_layout(c, lay, fill=1) for c in cols]
                    out = np.asarray(fn(*argv))
                    got = [int(v) for v in out.reshape(-1)] if out.shape == (len(sel),) else ["wrong shape"] * len(sel)
                    if not all(np.array_equal(a_, c) for a_, c in zip(argv, cols)):
                        got = ["argument modified"] * len(sel)
                except Exception as ex:
                    got = [f"raised {type(ex).__name__}: {ex}"[:160]] * len(sel)
                for i, g_ in zip(sel, got):
                    yield form, i, exp[i], g_
            step = max(1, len(sel) // 150)
            for i in sel[::step] + sel[-3:]:
                try:
                    got = int(fn(*[t(x) for x in args[i]]))
                except Exception as ex:
                    got = f"raised {type(ex).__name__}: {ex}"[:160]
                yield f"scalar {tname}", i, exp[i], got


def replay_gray(ctx, cases, label):
    from pyphysim.util import conversion, misc
    by = {"b2g": [], "g2b": [], "err": [], "errmat": []}
    for c in cases:
        by[c["op"]].append(c)
    bad = []
    # 2 x 3 index arrays in the memory layout TLC chose, summed along the axis TLC chose
    for c in by["errmat"]:
        U = np.array([[dec(x) for x in row] for row in c["u"]], dtype=np.int64)
        V = np.array([[dec(x) for x in row] for row in c["v"]], dtype=np.int64)
        want = [int(x) for x in c["ret"]]
        for lay in (["C", "strided"] if c["layout"] == "C" else ["F", "T"]):
            A, B = cc.as_layout(U, lay, fill=1), cc.as_layout(V, lay, fill=2)
            if c.get("bc") == "row":            # second operand: a row vector, broadcast over the rows of the first
                B = np.array(V[0], dtype=np.int64) if lay in ("C", "F") else np.array(V[0:1], dtype=np.int64)
            try:
                got = misc.count_bit_errors(A, B) if c["axis"] == -1 else misc.count_bit_errors(A, B, c["axis"])
                got = [int(x) for x in np.asarray(got).reshape(-1)]
            except Exception as ex:
                got = f"raised {type(ex).__name__}: {ex}"[:160]
            if got == want:
                ctx.ok((label, "errmat", lay, c["axis"], str(c["u"])[:60]))
            else:
                bad.append({"stage": "R", "op": "errmat", "w": c["w"], "u": U.tolist(), "v": np.asarray(B).tolist(), "form": f"{lay} axis={c['axis']}",
                            "exp": want, "got": got})
    for op, fn in (("b2g", conversion.binary2gray), ("g2b", conversion.gray2binary)):
        cs = by[op]
        if not cs:
            continue
        args = [(dec(c["v"]),) for c in cs]
        exp = [dec(c["ret"]) for c in cs]
        for form, i, e, got in call_forms(fn, args, exp):
            if got == e:
                ctx.ok((label, op, args[i][0]))
            else:
                bad.append({"stage": "R", "op": op, "w": cs[i]["w"], "u": 0, "v": args[i][0], "form": form, "exp": e, "got": got})
    cs = by["err"]
    if cs:
        args = [(dec(c["u"]), dec(c["v"])) for c in cs]
        exp = [int(c["ret"]) for c in cs]
        for form, i, e, got in call_forms(misc.count_bit_errors, args, exp):
            if got == e:
                ctx.ok((label, "err", args[i]))
            else:
                bad.append({"stage": "R", "op": "err", "w": cs[i]["w"], "u": args[i][0], "v": args[i][1], "form": form, "exp": e, "got": got})
        # popcount alone: the pairs (u, 0)
        z0 = [(a[0], e) for a, e in zip(args, exp) if a[1] == 0]
        for tname in ["int64"] + [t_ for t_ in DTYPES + ["int8", "int16"] if t_ != "int64"]:
            z = [(a, e) for a, e in z0 if a <= np.iinfo(getattr(np, tname)).max]
            if not z:
                continue
            try:
                got = [int(v) for v in np.asarray(misc.count_bits(np.array([a for a, _ in z], dtype=getattr(np, tname))))]
                got1 = int(misc.count_bits(getattr(np, tname)(z[-1][0])))          # a numpy scalar
                if got1 != z[-1][1]:
                    got[-1] = got1
            except Exception as ex:
                got = [f"raised {type(ex).__name__}"] * len(z)
            for (a, e), gv in zip(z, got):
                if gv == e:
                    ctx.ok((label, "pop", tname, a))
                else:
                    bad.append({"stage": "R", "op": "pop", "w": cs[0]["w"], "u": a, "v": 0, "form": f"array {tname}", "exp": e, "got": gv})
        # empty operands: the sum over no positions is 0 (total) / an array of zeros (per axis)
        for shp, axis, want in (((0,), None, 0), ((0, 3), 0, [0, 0, 0]), ((2, 0), 1, [0, 0])):
            try:
                e0 = np.zeros(shp, dtype=np.int64)
                got = misc.count_bit_errors(e0, e0.copy()) if axis is None else misc.count_bit_errors(e0, e0.copy(), axis)
                same = np.asarray(got).tolist() == want
            except Exception as ex:
                got, same = f"raised {type(ex).__name__}: {ex}"[:120], False
            if same:
                ctx.ok((label, "err-empty", str(shp)))
            else:
                bad.append({"stage": "R", "op": "err", "w": cs[0]["w"], "u": f"empty {shp}", "v": f"empty {shp}", "form": f"empty axis={axis}",
                            "exp": want, "got": got if isinstance(got, str) else np.asarray(got).tolist()})
        # arrays: total and per-axis sums of the exact per-pair counts TLC emitted
        n = len(args) - len(args) % 6
        if n >= 6:
            first = np.array([a[0] for a in args[:n]], dtype=np.int64).reshape(2, 3, n // 6)
            second = np.array([a[1] for a in args[:n]], dtype=np.int64).reshape(2, 3, n // 6)
            ex = np.array(exp[:n], dtype=np.int64).reshape(2, 3, n // 6)
            for la, lb in (("C", "C"), ("F", "F"), ("T", "T"), ("lastaxis", "lastaxis"), ("reversed", "reversed"), ("F", "C"), ("C", "T")):
                A, B = cc.as_layout(first, la, fill=1), cc.as_layout(second, lb, fill=2)
                for axis in (None, 0, 1, 2):
                    want = ex.sum(axis=axis)
                    try:
                        got = misc.count_bit_errors(A, B, axis) if axis is not None else misc.count_bit_errors(A, B)
                        same = np.shape(got) == np.shape(want) and np.array_equal(np.asarray(got), want)
                    except Exception as exn:
                        got, same = f"raised {type(exn).__name__}: {exn}"[:160], False
                    if same:
                        ctx.ok((label, "err-axis", la, lb, str(axis)), n=int(np.size(want)))
                    else:
                        bad.append({"stage": "R", "op": "err", "w": cs[0]["w"], "u": [a[0] for a in args[:n]],
                                    "v": [a[1] for a in args[:n]], "form": f"array {la}/{lb} axis={axis}",
                                    "exp": np.asarray(want).tolist(), "got": got if isinstance(got, str) else np.asarray(got).tolist()})
                        break
            # LONG frames: the emitted pairs repeated up to lengths just below / at / above multiples of the block sizes an
            # implementation might count at a time (2^12, 2^16, 2^18); total and per-axis sums of the exact per-pair counts
            if label.startswith("gray-basis62"):
                fu, fv, fe = first.reshape(-1), second.reshape(-1), ex.reshape(-1)
                for kk in (12, 16, 18):
                    for L in (2 ** kk - 1, 2 ** kk, 2 ** kk + 1, 2 * 2 ** kk, 3 * 2 ** kk + 5):
                        ix = (np.arange(L) + kk) % len(fu)
                        A, B, E = fu[ix], fv[ix], fe[ix]
                        trials = [("1-d", A, B, None, int(E.sum()))]
                        if L % 128 == 0:
                            trials.append(("2-d", A.reshape(128, -1), B.reshape(128, -1), None, int(E.sum())))
                            trials.append(("2-d axis 0", A.reshape(128, -1), B.reshape(128, -1), 0, E.reshape(128, -1).sum(axis=0)))
                        for tn, a_, b_, axis, want in trials:
                            try:
                                got = misc.count_bit_errors(a_, b_) if axis is None else misc.count_bit_errors(a_, b_, axis)
                                same = np.array_equal(np.asarray(got), np.asarray(want))
                            except Exception as exn:
                                got, same = f"raised {type(exn).__name__}: {exn}"[:160], False
                            if same:
                                ctx.ok((label, "err-long", L, tn), n=L)
                            else:
                                bad.append({"stage": "R", "op": "errlong", "w": cs[0]["w"], "u": [int(x) for x in fu], "v": [int(x) for x in fv],
                                            "form": f"{tn} frame of {L} pairs (pairs repeated cyclically from offset {kk})", "exp": np.asarray(want).tolist()[:8] if axis is not None else want,
                                            "got": got if isinstance(got, str) else np.asarray(got).tolist() if axis is None else np.asarray(got).tolist()[:8],
                                            "L": L, "kk": kk, "axis": axis, "e": [int(x) for x in fe]})
            # count_bits itself on multi-dimensional arrays in every layout (xor taken by numpy, counts position by position)
            xr = first ^ second
            for la in ("C", "F", "T", "lastaxis", "reversed"):
                try:
                    got = np.asarray(misc.count_bits(cc.as_layout(xr, la, fill=1)))
                    same = got.shape == ex.shape and np.array_equal(got, ex)
                except Exception as exn:
                    got, same = f"raised {type(exn).__name__}: {exn}"[:160], False
                if same:
                    ctx.ok((label, "pop-layout", la), n=int(ex.size))
                else:
                    bad.append({"stage": "R", "op": "pop", "w": cs[0]["w"], "u": f"{ex.size} values as a {la} array of shape {ex.shape}", "v": 0,
                                "form": f"array {la}", "exp": "per-position counts", "got": got if isinstance(got, str) else "differs"})
    return bad


def holds(v, kind):
    if kind in ("pyint", "list"):
        return True
    info = np.iinfo(getattr(np, kind))
    return info.min <= v <= info.max


def replay_err_dtypes(ctx, cases, label):
    """count_bit_errors on every combination of operand kinds that can hold the values, both argument orders,
    contiguous and strided.  A combination numpy itself cannot xor (no common integer type, e.g. int64 with uint64)
    or one with a Python int / list operand may be refused with an exception (not judged); a returned count must
    be the Hamming distance TLC emitted."""
    from pyphysim.util import misc
    pairs = {}
    for c in cases:
        if c["op"] == "err":
            u, v, e = dec(c["u"]), dec(c["v"]), int(c["ret"])
            pairs[(u, v)] = e
            pairs[(v, u)] = e                      # SymmetryLaw (checked by TLC on the specification)
    items = sorted(pairs.items())
    bad = []
    for ka in DTYPES + ["pyint", "list"]:
        for kb in DTYPES + ["pyint", "list"]:
            sel = [(u, v, e) for (u, v), e in items if holds(u, ka) and holds(v, kb)]
            if not sel:
                continue
            if "pyint" in (ka, kb):
                sel = sel[:: max(1, len(sel) // 40)]           # one call per pair
                groups = [[x] for x in sel]
            else:
                groups = [sel]
            for grp in groups:
                exp = np.array([e for _, _, e in grp], dtype=np.int64)
                for lay in ("C", "strided"):
                    def mk(vals, kind):
                        if kind == "pyint":
                            return int(vals[0])
                        if kind == "list":
                            return [[int(x)] for x in vals]
                        return cc.as_layout(np.array(vals, dtype=getattr(np, kind)).reshape(-1, 1), lay, fill=1)
                    A, B = mk([u for u, _, _ in grp], ka), mk([v for _, v, _ in grp], kb)
                    refusable = ka in ("pyint", "list") or kb in ("pyint", "list") or \
                        np.result_type(getattr(np, ka), getattr(np, kb)).kind not in "iu"
                    try:
                        if "pyint" in (ka, kb) and not isinstance(A, np.ndarray) and not isinstance(B, np.ndarray):
                            got = np.array([int(misc.count_bit_errors(A, B))])
                        else:
                            got = np.asarray(misc.count_bit_errors(A, B, 1)).reshape(-1)
                        tot = int(misc.count_bit_errors(A, B))
                    except Exception as ex:
                        if not refusable:
                            bad.append({"stage": "R", "op": "errdt", "w": 62, "u": [g_[0] for g_ in grp][:8], "v": [g_[1] for g_ in grp][:8],
                                        "form": f"{ka} x {kb} {lay}", "exp": exp[:8].tolist(), "got": f"raised {type(ex).__name__}: {ex}"[:160]})
                        break
                    if got.shape != exp.shape or not np.array_equal(got, exp) or tot != int(exp.sum()):
                        i = int(np.argmax(got != exp)) if got.shape == exp.shape and np.any(got != exp) else 0
                        bad.append({"stage": "R", "op": "errdt", "w": 62, "u": [grp[i][0]], "v": [grp[i][1]], "form": f"{ka} x {kb} {lay}",
                                    "exp": [int(exp[i])], "got": [int(got[i])] if got.shape == exp.shape else f"shape {got.shape}, total {tot}"})
                        break
                    ctx.ok((label, "err", ka, kb, lay), n=len(grp))
                    if ka == "pyint" or kb == "pyint" or ka == "list" or kb == "list":
                        break                      # no layouts for these
    return bad


def replay_err_dtypes_one(ctx, us, vs, exp, ka, kb, lay):
    from pyphysim.util import misc

    def mk(vals, kind):
        if kind == "pyint":
            return int(vals[0])
        if kind == "list":
            return [[int(x)] for x in vals]
        return cc.as_layout(np.array(vals, dtype=getattr(np, kind)).reshape(-1, 1), lay, fill=1)
    try:
        A, B = mk(us, ka), mk(vs, kb)
        got = np.asarray(misc.count_bit_errors(A, B, 1)).reshape(-1).tolist() if isinstance(A, np.ndarray) or isinstance(B, np.ndarray) \
            else [int(misc.count_bit_errors(A, B))]
    except Exception as ex:
        got = f"raised {type(ex).__name__}: {ex}"[:160]
    if got == list(exp):
        ctx.ok()
        return []
    return [{"stage": "R", "op": "errdt", "w": 62, "u": us, "v": vs, "form": f"{ka} x {kb} {lay}", "exp": exp, "got": got}]


CALLS_DEVS = {"MemoTableOneShort": "ArgumentOnly", "ConvInPlace": "ArgumentsUnchanged", "ResultBufferReused": "EarlierResultsUnchanged"}


def replay_err_classes(ctx, cases, label):
    """WHOLE-ARRAY operand classes: arrays in which one operand is entirely zero / entirely binary-valued (0 / 1) / a
    constant / equal to the other operand, against an M-ary other operand, in both argument orders, 1-d and 2-d with an
    axis, several integer types.  The count is per value pair: what the rest of the array looks like must not matter."""
    from pyphysim.util import misc
    pairs = {}
    for c in cases:
        if c["op"] == "err":
            u, v, e = dec(c["u"]), dec(c["v"]), int(c["ret"])
            pairs[(u, v)] = e
            pairs[(v, u)] = e
    items = sorted(pairs.items())
    classes = {"all zero": [x for x in items if x[0][0] == 0 and x[0][1] > 1],
               "binary-valued (0/1)": [x for x in items if x[0][0] <= 1 and x[0][1] > 1],
               "all one": [x for x in items if x[0][0] == 1 and x[0][1] > 1],
               "equal operands": [x for x in items if x[0][0] == x[0][1]],
               "both binary-valued": [x for x in items if x[0][0] <= 1 and x[0][1] <= 1]}
    bad = []
    for cname, sel in classes.items():
        if len(sel) < 2:
            continue
        sel = sel[: 6 * (len(sel) // 6)] if len(sel) >= 6 else sel
        for tname in ("int64", "uint8", "int32", "uint64"):
            top = np.iinfo(getattr(np, tname)).max
            ss = [x for x in sel if x[0][0] <= top and x[0][1] <= top]
            if len(ss) < 2:
                continue
            U = np.array([x[0][0] for x in ss], dtype=getattr(np, tname))
            V = np.array([x[0][1] for x in ss], dtype=getattr(np, tname))
            E = np.array([x[1] for x in ss], dtype=np.int64)
            trials = [("1-d", U, V, None, int(E.sum())), ("1-d swapped", V, U, None, int(E.sum()))]
            if len(ss) % 2 == 0:
                trials += [("2-d axis 0", U.reshape(2, -1), V.reshape(2, -1), 0, E.reshape(2, -1).sum(axis=0)),
                           ("2-d axis 1 swapped", V.reshape(2, -1), U.reshape(2, -1), 1, E.reshape(2, -1).sum(axis=1))]
            for tn, a_, b_, axis, want in trials:
                try:
                    got = misc.count_bit_errors(a_, b_) if axis is None else misc.count_bit_errors(a_, b_, axis)
                    same = np.array_equal(np.asarray(got), np.asarray(want))
                except Exception as ex:
                    got, same = f"raised {type(ex).__name__}: {ex}"[:160], False
                if same:
                    ctx.ok((label, "err-class", cname, tname, tn), n=len(ss))
                else:
                    bad.append({"stage": "R", "op": "errcls", "w": 62, "u": [int(x) for x in a_.reshape(-1)], "v": [int(x) for x in b_.reshape(-1)],
                                "form": f"{tname} {tn} arrays, one operand {cname}", "exp": np.asarray(want).tolist(),
                                "got": got if isinstance(got, str) else np.asarray(got).tolist(), "axis": axis, "shape": list(a_.shape), "dtype": tname})
                    break
    return bad


def calls_cfg(ks, dev=None, emit=True):
    dev = "MemoTableOneShort" if dev is True else dev
    defs = {"Dev": tlc.tla({k: (k == dev) for k in CALLS_DEVS})}
    cfg = tlc.cfg_text(constants={"Ks": tlc.tla(set(ks)), "Fns": tlc.tla({"g2b", "b2g"}), "Forms": tlc.tla({"array", "scalar"}),
                                  "Tops": tlc.tla({"below", "pow2", "above"})},
                       defs=defs, invariants=["TypeOK", "ArgumentOnly", "ArgumentsUnchanged", "EarlierResultsUnchanged"], view="View", action_constraints=["Emit"] if emit else [])
    return cfg, defs


def history_stage(ctx, runs, fut_model):
    """stage H: conversion-call histories in fresh interpreters"""
    import random
    from concurrent.futures import ThreadPoolExecutor
    r, rdevs = fut_model
    ctx.account(r, GCALLS, "conversion histories")
    for d, rdev in zip(CALLS_DEVS, rdevs):
        if rdev.violated != CALLS_DEVS[d]:
            raise tlc.TlcError(f"GrayCalls.tla: Dev.{d} was expected to violate {CALLS_DEVS[d]}, TLC reported {rdev.violated}")
        ctx.notes.setdefault("deviations_refuted_by_model", {})[d] = rdev.violated
    lookup = {"g2b": {}, "b2g": {}}
    for n, rr in runs.items():
        if n.startswith("gray"):
            for c in rr.emitted:
                if c["op"] in lookup:
                    lookup[c["op"]][str(dec(c["v"]))] = dec(c["ret"])
    g = graph.Graph(r.emitted, label=lambda e: graph.key([e["fn"], e["form"], e["k"], e["top"]]))
    root = g.roots()[0]
    rng = random.Random(ctx.seed)
    paths = g.transition_cover(root, max_len=8, rng=rng)
    paths += g.random_walks(root, 300 if ctx.tier == "thorough" else 30, 10, rng)
    rng.shuffle(paths)
    jobs_paths = [{"id": i, "calls": [{k: e[k] for k in ("fn", "form", "k", "top")} for e in g.path_edges(p)]} for i, p in enumerate(paths)]
    nw = 6 if ctx.tier == "thorough" else 3
    # the first path of every worker runs in a never-used interpreter: put an array call with a power-of-two / other top first
    firsts = [jp for jp in jobs_paths if len(jp["calls"]) == 1 and jp["calls"][0]["form"] == "array"]
    rng.shuffle(firsts)
    chunks = [[] for _ in range(nw)]
    for i, jp in enumerate(firsts[:nw]):
        chunks[i].append(jp)
    rest = [jp for jp in jobs_paths if jp not in firsts[:nw]]
    for i, jp in enumerate(rest):
        chunks[i % nw].append(jp)
    with ThreadPoolExecutor(min(nw, cc.nthreads())) as ex:
        outs = list(ex.map(lambda ch: c15_calls.spawn({"lookup": lookup, "paths": ch, "seed": ctx.seed}), [c for c in chunks if c]))
    for o in outs:
        ctx.ok(n=o["ok"])
        for v in o["viol"][:3]:
            ctx.violation(f"conversion history ({'fresh interpreter' if v['fresh_interpreter'] else 'after module re-initialisation'}) "
                          f"{v['history']}: {v['what']}", {"stage": "H", "calls": v["calls"], "history": v["history"]})
    for _ in paths:
        ctx.trace_done()
    for _, _, e in g.edges:
        ctx.distinct.add(("H", graph.key(e["pre"]), e["fn"], e["form"], e["k"], e["top"]))
    ctx.sample({"stage": "H", "history": [f"{c['fn']}:{c['form']}:{c['top']}:2^{c['k']}" for c in jobs_paths[0]["calls"]]})
    ctx.notes["conversion_history_graph"] = {"states": len(g.nodes), "edges": len(g.edges), "paths": len(paths), "workers": len(outs)}


def judge_gray(ctx, bad):
    """mismatches of stage R: a known deviation is recognised by its AS-IS prediction, which is what
    Gray.tla emits with the deviation flag on (no transcription of the wrong algorithm in Python)"""
    if not bad:
        return
    asis = {}
    g2b_big = [b for b in bad if b["op"] == "g2b" and isinstance(b["v"], int) and b["v"] >= 2 ** 16]
    if g2b_big and "G2BOnly16Bits" in ctx.findings:
        for W, mode in {(b["w"], "basis" if b["w"] > 30 else "exh") for b in g2b_big}:
            r = run_gray(W, mode, dev=("G2BOnly16Bits",), emit=True, noinv=True, nrand=ctx.notes.get("gray_nrand", 8),
                         seed=ctx.seed + {62: 0, 31: 1, 17: 2}.get(W, 0))
            for c in r.emitted:
                if c["op"] == "g2b":
                    asis[(W, dec(c["v"]))] = dec(c["ret"])
    seen = set()
    for b in bad:
        what = (f"count_bit_errors({b['u']}, {b['v']}) as {b['form']}: expected {b['exp']}, got {b['got']}" if b["op"] in ("err", "errdt", "errmat", "errlong", "errcls")
                else f"{ {'b2g': 'binary2gray', 'g2b': 'gray2binary', 'pop': 'count_bits'}[b['op']] }({b['v'] if b['op'] != 'pop' else b['u']}) "
                     f"as {b['form']}: expected {b['exp']}, got {b['got']}")
        if b["op"] == "g2b" and asis.get((b["w"], b["v"])) == b["got"]:
            ctx.finding("G2BOnly16Bits", what, b)
        else:
            key = (b["op"], str(b["v"])[:40], str(b["u"])[:40])
            if key in seen:           # the same argument in another form: one report
                continue
            seen.add(key)
            ctx.violation(what, b)


# ------------------------------------------------------------------ tables of the real objects
def phase_lists(M, rng, thorough):
    """phase offsets at construction and for the following setPhaseOffset calls"""
    base = [0.0, math.pi / M, math.pi / 4, 0.3, -1.7, 2 * math.pi, 100.0]
    out = [[0.0, math.pi / M, 0.3], [math.pi / 4, 0.0]]
    k = 6 if thorough else 1
    for j in range(k):
        n = int(rng.randint(1, 4))
        # the construction phase rotates deterministically over the base values (every order x seed meets negative / > 2 pi phases)
        first = base[(int(math.log2(M)) + j + int(rng.randint(0, 7))) % len(base)] if j else base[(int(math.log2(M)) + phase_lists.turn) % len(base)]
        out.append([float(first)] + [float(rng.uniform(-7, 7)) for _ in range(n)])
    return out


phase_lists.turn = 0


def table_specs(ctx):
    thorough = ctx.tier == "thorough"
    phase_lists.turn = ctx.seed
    rng = np.random.RandomState(ctx.seed + 15)
    specs = [dict(kind="BPSK", M=2, calls=False), dict(kind="QPSK", M=4, calls=False),
             dict(kind="QPSK", M=4, phases=[0.0, 0.0, math.pi / 4], calls=False)]
    for M in cc.QAM_ORDERS:
        specs.append(dict(kind="QAM", M=M, calls=False))
    for M in cc.PSK_ORDERS_C15:
        for ph in phase_lists(M, rng, thorough):
            specs.append(dict(kind="PSK", M=M, phases=ph, calls=False))
    return specs


def run(ctx):
    thorough = ctx.tier == "thorough"
    ctx.rule = ("TLC proves the documented labelling Gray for every cardinality and after every SetPhaseOffset history, "
                "and validates the tables recorded from the real objects against Bijective/GrayAdjacent; "
                "Gray.tla cases (exhaustive W<=12, basis+seeded W=62) are executed on the real conversion functions; "
                "distinct = (function, argument) pairs and (class, M, phase history) tables")
    ctx.assumptions += ["table coordinates are recovered by undoing scale and the phase offset the harness passed (integrality 1e-9)",
                        "62-bit claim rests on GF(2)-linearity (Gray.tla header): inverse laws on the one-hot basis + additivity",
                        "numpy int64 holds every value below 2^62"]
    nrand = 600 if thorough else 40
    ctx.notes["gray_nrand"] = nrand
    # ---- stage M + emission, all TLC runs concurrently
    jobs = [("psk-all", lambda: cc.run_machine(kind="PSK", cards=list(range(0, 1101)) + [2048, 4096], noff=2, smode="seeded",
                                               nrows=1, rowlen=2, emit=False, workers=4)),
            ("qam-all", lambda: cc.run_machine(kind="QAM", cards=list(range(0, 1101)) + [4096], smode="seeded", nrows=1, rowlen=2,
                                               emit=False, workers=4)),
            ("bpsk", lambda: cc.run_machine(kind="BPSK", cards=[0, 1, 2, 3, 4], smode="seeded", nrows=1, rowlen=2, emit=False)),
            ("gray-exh12", lambda: run_gray(12, "exh", emit=True, seed=ctx.seed)),
            ("gray-basis62", lambda: run_gray(62, "basis", emit=True, additive=True, nrand=nrand, seed=ctx.seed)),
            ("gray-pairs6", lambda: run_gray(6, "pairs", additive=True)),
            ("gray-pairs3", lambda: run_gray(3, "pairs", additive=True, emit=True))]
    widths = list(range(1, 12)) if thorough else [1, 2, 5, 9]
    jobs += [(f"gray-exh{w}", lambda w=w: run_gray(w, "exh")) for w in widths]
    if thorough:
        jobs += [(f"gray-pairs{w}", lambda w=w: run_gray(w, "pairs", additive=True)) for w in (1, 2, 4, 5)]
        jobs += [("gray-basis31", lambda: run_gray(31, "basis", emit=True, additive=True, nrand=nrand, seed=ctx.seed + 1)),
                 ("gray-basis17", lambda: run_gray(17, "basis", emit=True, additive=True, nrand=nrand, seed=ctx.seed + 2))]
    ks = list(range(1, 18)) if thorough else KS_QUICK
    jobs += [("calls", lambda: tlc.run(GCALLS, calls_cfg(ks)[0], defs=calls_cfg(ks)[1], coverage=True, timeout=900)),
             ("calls-dev", lambda: [tlc.run(GCALLS, calls_cfg(ks[:3], dev=d, emit=False)[0], defs=calls_cfg(ks[:3], dev=d)[1], timeout=900)
                                    for d in CALLS_DEVS])]
    devjobs = [("G2BOnly16Bits", lambda: run_gray(62, "basis", dev=("G2BOnly16Bits",), nrand=2), "InverseLaw"),
               ("B2GShiftMissing", lambda: run_gray(4, "exh", dev=("B2GShiftMissing",)), "InverseLaw"),
               ("ErrCountsFirstOperand", lambda: run_gray(3, "pairs", dev=("ErrCountsFirstOperand",)), "HammingLaw"),
               ("CountsInMemoryOrder", lambda: run_gray(3, "pairs", dev=("CountsInMemoryOrder",)), "AxisLaw"),
               ("BlockTailTwice", lambda: run_gray(3, "pairs", dev=("BlockTailTwice",)), "TotalLaw")]
    from concurrent.futures import ThreadPoolExecutor
    with ThreadPoolExecutor(cc.nthreads()) as ex:
        futs = [(n, ex.submit(f)) for n, f in jobs]
        dfuts = [(n, ex.submit(f), inv) for n, f, inv in devjobs]
        cdev = ex.submit(cc.model_devs, ctx, ["SetPhaseOffsetDropsGray", "QamGrayIndexInverted", "GrayTwice"])
        # ---- stage T meanwhile: record the real tables
        specs = table_specs(ctx)
        traces = [cc.record_history(s)[0] for s in specs]
        runs = {n: f.result() for n, f in futs}
        for n, f, inv in dfuts:
            r = f.result()
            if r.violated != inv:
                raise tlc.TlcError(f"Gray.tla: deviation {n} was expected to violate {inv}, TLC reported {r.violated}")
            ctx.notes.setdefault("deviations_refuted_by_model", {})[n] = r.violated
        cdev.result()
    fut_model = (runs.pop("calls"), runs.pop("calls-dev"))
    for n, r in runs.items():
        ctx.account(r, GRAY if n.startswith("gray") else cc.MODULE, n)
    ctx.require_actions(["Construct", "SetPhaseOffsetAny", "Calls", "Step", "Return"])
    # ---- stage T verdicts
    verdicts = cc.validate(ctx, traces, CARE, "tables")
    for tr, vd in zip(traces, verdicts):
        cc.report(ctx, tr, vd, CARE, "(C15: nearest neighbours must differ in exactly one bit)")
        ctx.trace_done()
        ctx.distinct.add(("table", tr["spec"]["kind"], tr["m"], tuple(round(p, 6) for p in tr["spec"].get("phases", [0.0]))))
    ctx.sample({"stage": "T", "example": {"kind": "PSK", "M": 8, "phases": traces[-1]["spec"].get("phases"),
                                          "recorded_table_after_last_call": next(t for t in traces if t["m"] == 8 and t["kind"] == "PSK")["events"][-1]["tab"]}})
    # ---- stage R: the conversion functions
    bad = []
    for n, r in runs.items():
        if n.startswith("gray") and r.emitted:
            bad += replay_gray(ctx, r.emitted, n)
            ctx.trace_done()
    bad += replay_err_dtypes(ctx, runs["gray-basis62"].emitted + runs["gray-pairs3"].emitted, "dtypes")
    for n_ in ("gray-basis62", "gray-exh12", "gray-pairs3"):
        bad += replay_err_classes(ctx, runs[n_].emitted, "classes/" + n_)
    ctx.sample({"stage": "R", "example": runs["gray-basis62"].emitted[3]})
    judge_gray(ctx, bad)
    history_stage(ctx, runs, fut_model)
    ctx.exhaustive = False
    ctx.notes["tables_validated"] = len(traces)
    ctx.notes["bounds"] = {"psk_orders": cc.PSK_ORDERS_C15, "qam_orders": cc.QAM_ORDERS, "gray_exhaustive_bits": 12,
                           "gray_basis_bits": 62, "seeded_vectors": nrand}


def replay(ctx, data):
    c = data["case"]
    if c.get("stage") == "T":
        tr, _ = cc.record_history(c["spec"])
        vd = cc.validate(ctx, [tr], CARE, "replay", nparts=1)[0]
        cc.report(ctx, tr, vd, CARE)
        return
    if c.get("stage") == "H":
        o = c15_calls.spawn({"lookup": {"g2b": {}, "b2g": {}}, "seed": 0, "paths": [{"id": 0, "calls": c["calls"]}]})
        ctx.ok(n=o["ok"])
        for v in o["viol"][:1]:
            ctx.violation(f"replay (fresh interpreter): {v['what']}", c)
        return
    if c["op"] == "errdt":
        ka, kb, lay = c["form"].split()[0], c["form"].split()[2], c["form"].split()[3]
        bad = replay_err_dtypes_one(ctx, c["u"], c["v"], c["exp"], ka, kb, lay)
        judge_gray(ctx, bad)
        return
    if c["op"] == "errcls":
        from pyphysim.util import misc
        a_ = np.array(c["u"], dtype=getattr(np, c["dtype"])).reshape(c["shape"])
        b_ = np.array(c["v"], dtype=getattr(np, c["dtype"])).reshape(c["shape"])
        try:
            got = misc.count_bit_errors(a_, b_) if c["axis"] is None else misc.count_bit_errors(a_, b_, c["axis"])
            same = np.array_equal(np.asarray(got), np.asarray(c["exp"]))
        except Exception as ex:
            got, same = f"raised {type(ex).__name__}", False
        if same:
            ctx.ok()
        else:
            ctx.violation(f"count_bit_errors of {c['form']}: expected {c['exp']}, got {got if isinstance(got, str) else np.asarray(got).tolist()}", c)
        return
    if c["op"] == "errlong":
        from pyphysim.util import misc
        fu, fv = np.array(c["u"], dtype=np.int64), np.array(c["v"], dtype=np.int64)
        ix = (np.arange(c["L"]) + c["kk"]) % len(fu)
        A, B = fu[ix], fv[ix]
        if c["form"].startswith("2-d"):
            A, B = A.reshape(128, -1), B.reshape(128, -1)
        per = np.array(c["e"], dtype=np.int64)[ix]          # the per-pair counts TLC emitted, stored with the case
        want = per.sum() if c["axis"] is None else per.reshape(128, -1).sum(axis=0)
        got = misc.count_bit_errors(A, B) if c["axis"] is None else misc.count_bit_errors(A, B, c["axis"])
        if not np.array_equal(np.asarray(got), np.asarray(want)):
            ctx.violation(f"count_bit_errors of a {c['form']}: expected {np.asarray(want).tolist() if c['axis'] is None else 'per-column sums'}, got {np.asarray(got).tolist() if c['axis'] is None else 'others'}", c)
        else:
            ctx.ok()
        return
    if c["op"] == "errmat":
        from pyphysim.util import misc
        lay, axis = c["form"].split()[0], int(c["form"].split("=")[1])
        A = cc.as_layout(np.array(c["u"], dtype=np.int64), lay, fill=1)
        B = np.array(c["v"], dtype=np.int64)
        B = cc.as_layout(B, lay, fill=2) if B.shape == A.shape else B
        got = misc.count_bit_errors(A, B) if axis == -1 else misc.count_bit_errors(A, B, axis)
        if [int(x) for x in np.asarray(got).reshape(-1)] != list(c["exp"]):
            ctx.violation(f"count_bit_errors of {lay}-layout 2x3 arrays, axis={axis}: expected {c['exp']}, got {np.asarray(got).tolist()}", c)
        else:
            ctx.ok()
        return
    if c["op"] == "pop" and isinstance(c["u"], str):
        ctx.violation("count_bits on a multi-dimensional array in a non C layout: re-run ./check C15 (case not stored element-wise)", c)
        return
    cases = [{"op": c["op"] if c["op"] != "pop" else "err", "w": c["w"], "u": c["u"], "v": c["v"], "ret": c["exp"]}]
    if isinstance(c["u"], list):          # an array case: exp = the per-axis sums of the per-pair values TLC emitted
        from pyphysim.util import misc
        axis = None if c["form"].endswith("None") else int(c["form"].split("=")[1])
        lays = c["form"].split()[1].split("/") if "/" in c["form"] else ["C", "C"]
        n = len(c["u"])
        got = misc.count_bit_errors(cc.as_layout(np.array(c["u"], dtype=np.int64).reshape(2, 3, n // 6), lays[0], fill=1),
                                    cc.as_layout(np.array(c["v"], dtype=np.int64).reshape(2, 3, n // 6), lays[1], fill=2), axis)
        if not np.array_equal(np.asarray(got), np.asarray(c["exp"])):
            ctx.violation(f"count_bit_errors({lays[0]}/{lays[1]} arrays, axis={axis}) != sum of Hamming distances", c)
        else:
            ctx.ok()
        return
    judge_gray(ctx, replay_gray(ctx, cases, "replay"))
