"""C13 stage T: record random setter histories on the real path-loss objects (rational parameter values off
the lattice, valid and invalid), log after every call the outcome, the public parameters and the numerically
evaluated laws (rel), and let TLC validate all traces in one run of spec/chan/Trace_PathLoss.tla."""
import json
import os
import re
import tempfile
import warnings
from fractions import Fraction

import numpy as np

from .. import tlc
from ..core import pool_map

TRACE_MODULE = "chan/Trace_PathLoss.tla"
AREAS = ["open", "suburban", "medium city", "large city"]


def fr(x):
    f = Fraction(x)
    return [f.numerator, f.denominator]


def cents(rng, lo, hi):
    """a rational with denominator 100 in [lo, hi]"""
    return Fraction(int(rng.randint(int(lo * 100), int(hi * 100) + 1)), 100)


def pick_value(rng, model, op):
    u = rng.rand()
    if op in ("SetPol", "SetShadow", "Plot", "BySetPol", "BySetShadow"):
        return bool(rng.randint(2))
    if op == "ByConstruct":
        return BY_CLASSES[rng.randint(5)]
    if op == "SetSigma":
        return [Fraction(0), Fraction(8), cents(rng, 0, 12)][rng.randint(3)]
    if op == "SetN":
        return Fraction(2) if u < 0.3 else cents(rng, 1.5, 6)   # n = 2: the Friis clause
    if op == "SetArea":
        return AREAS[rng.randint(4)] if u < 0.8 else ["rural", "urban", "Open", ""][rng.randint(4)]
    if op == "SetFc" and model == "freespace":
        if u < 0.15:
            return [Fraction(0), Fraction(-900), Fraction(-1, 2)][rng.randint(3)]
        return cents(rng, 0.01, 6000)
    if op == "SetFc" and model == "metis":
        return cents(rng, 100, 60000)
    lo, hi = {"SetFc": (150, 1500), "SetHbs": (30, 200), "SetHms": (1, 10)}[op]
    if u < 0.55:
        return cents(rng, lo, hi)
    if u < 0.8:
        return [Fraction(lo), Fraction(hi), Fraction(lo) - Fraction(1, 100), Fraction(hi) + Fraction(1, 100)][rng.randint(4)]
    return cents(rng, 0, 2 * hi)


COMMON = ["SetPol", "SetShadow", "SetSigma", "Plot", "ByConstruct", "BySetPol", "BySetShadow"]
BY_CLASSES = ["general", "3gpp1", "freespace", "metis", "hata"]
OPS = {"general": COMMON, "3gpp1": COMMON, "freespace": COMMON + ["SetN", "SetFc", "SetN", "SetFc", "SetPol"],
       "metis": COMMON + ["SetFc", "SetFc", "SetPol"],
       "hata": COMMON + ["SetFc", "SetHbs", "SetHms", "SetArea", "SetFc", "SetHbs", "SetPol"]}


def back_to_rat(v):
    """public float parameter -> the rational it was set from (denominator <= 100), else a marker"""
    if isinstance(v, bool) or not isinstance(v, (int, float)):
        return [-1, 1]
    f = Fraction(v).limit_denominator(100)
    return fr(f) if float(f) == float(v) else [-1, 1]


def record_one(job):
    seed, nev, per_decade = job
    from . import c13
    from pyphysim.channels import pathloss as P
    rng = np.random.RandomState(seed)
    model = ["freespace", "hata", "metis", "freespace", "hata", "general", "3gpp1"][seed % 7]
    init = dict(n=[0, 1], fc=[1, 1], hbs=[0, 1], hms=[0, 1], area="", pol=False, shadow=False, sigma=[8, 1], bpol=False, bshadow=False)
    by = (None, None)  # another live object (bystander)
    if model == "general":
        n, C = cents(rng, 2, 4), cents(rng, -20, 130)
        o = P.PathLossGeneral(float(n), float(C))
        init["n"] = fr(n)
    elif model == "3gpp1":
        o = P.PathLoss3GPP1()
    elif model == "freespace":
        n, fc = (Fraction(2) if rng.rand() < 0.3 else cents(rng, 2, 4)), cents(rng, 1, 3000)
        o = P.PathLossFreeSpace(n=float(n), fc=float(fc))
        init.update(n=fr(n), fc=fr(fc))
    elif model == "metis":
        fc = cents(rng, 100, 6000)
        o = P.PathLossMetisPS7(fc=float(fc))
        init["fc"] = fr(fc)
    else:
        o = P.PathLossOkomuraHata()
        init.update(fc=[900, 1], hbs=[30, 1], hms=[1, 1], area="suburban")
    given = {"n": float(Fraction(*init["n"])), "C": float(C)} if model == "general" else {}
    ev = []
    with warnings.catch_warnings():
        warnings.simplefilter("ignore")
        for _ in range(nev if len(OPS[model]) > 3 else 5):
            try:
                op = OPS[model][rng.randint(len(OPS[model]))]
                v = pick_value(rng, model, op)
                e = {"op": op, "arg": v if isinstance(v, (bool, str)) else fr(v)}
                fe = dict(e, op=op)
                if op in ("BySetPol", "BySetShadow") and by[1] is None:
                    op = "ByConstruct"
                    v = BY_CLASSES[rng.randint(5)]
                    e = {"op": op, "arg": v}
                    fe = dict(e)
                if op.startswith("By"):
                    by = c13.by_step(by, e)
                    fe["out"] = "ok"
                elif op == "Plot":  # argument: does the curve start at distance 0 ?
                    dd = np.concatenate(([0.0] if v else [], 10.0 ** np.linspace(-2, 3, 11)))
                    fe["out"] = {"val": "ok"}.get(c13.outcome_of(lambda: c13.plot_call(o, dd))[0], "raise")
                else:
                    fe["out"] = c13.apply_setter(model, o, dict(op=op, arg=({"v": fr(v)} if op == "SetFc" else e["arg"])))[1]
                pr = c13.project(model, o)
                post = {"pol": pr["pol"] if isinstance(pr["pol"], bool) else str(pr["pol"]),
                        "shadow": pr["shadow"] if isinstance(pr["shadow"], bool) else str(pr["shadow"])}
                for k, f in (("n", "n"), ("fcv", "fc"), ("hbs", "hbs"), ("hms", "hms"), ("sigma", "sigma")):
                    if k in pr:
                        post[f] = back_to_rat(pr[k])
                if "area" in pr:
                    post["area"] = str(pr["area"])
                if by[1] is not None:
                    post["bpol"] = by[1].handle_small_distances_bool if isinstance(by[1].handle_small_distances_bool, bool) else "?"
                    post["bshadow"] = by[1].use_shadow_bool if isinstance(by[1].use_shadow_bool, bool) else "?"
                fe["post"] = post
                walls = (0, 2) if model == "metis" else (0,)
                try:
                    if o.use_shadow_bool is True and o.sigma_shadow > 0:
                        res = c13.shadow_predicates(model, o, walls=walls, nseeds=3, base_seed=seed % 1000 + len(ev))
                        fe["preds"] = {k: res[k] is None for k in res}
                        fe["why"] = {k: v for k, v in res.items() if v}
                        ev.append(fe)
                        continue
                    res = c13.rel_predicates(model, o, walls=walls, kmin=-3, kmax=3, per_decade=per_decade,
                                             inverse=model in ("general", "3gpp1", "freespace"),
                                             params=c13.public_params(model, o, given))
                    names = ["Monotone", "LinearIsDb", "InUnit", "PolicyArrayScalar", "QueryPure", "DocValue", "FriisClose"] + (
                        ["InverseId"] if model in ("general", "3gpp1", "freespace") else [])
                    fe["preds"] = {k: res[k] is None for k in names}
                    fe["why"] = {k: v for k, v in res.items() if v}
                except Exception as ex:  # a query that breaks on an admissible state
                    fe["preds"] = {"Monotone": False}
                    fe["why"] = {"Monotone": f"query raised {type(ex).__name__}: {ex}"}
                ev.append(fe)
            except Exception as ex:  # noqa: comparisons are total - an unforeseen exception of the code under test is logged, not fatal
                ev.append({"op": "SetPol", "arg": bool(o.handle_small_distances_bool is True), "out": "ok",
                           "post": {}, "preds": {"NoUnexpectedException": False},
                           "why": {"NoUnexpectedException": f"{type(ex).__name__}: {ex}"}})
    return {"model": model, "seed": seed, "init": init, "ev": ev}


def record(ctx):
    th = ctx.tier == "thorough"
    ntr, nev, per = (3000, 25, 33) if th else (280, 10, 8)
    jobs = [(ctx.seed * 100000 + i, nev, per) for i in range(ntr)]
    return pool_map(record_one, jobs, chunksize=max(1, ntr // 64))


def validate(traces):
    """one TLC run over all traces; returns (TlcResult, [(tid, idx, clause)])"""
    slim = [{"model": t["model"], "init": t["init"],
             "ev": [{k: e[k] for k in ("op", "arg", "out", "post", "preds")} for e in t["ev"]]} for t in traces]
    os.makedirs(tlc.WORK, exist_ok=True)
    fd, path = tempfile.mkstemp(prefix="c13-traces-", suffix=".json", dir=tlc.WORK)
    with os.fdopen(fd, "w") as f:
        json.dump(slim, f)
    try:
        cfg = tlc.cfg_text(invariants=["Conforms", "StateValid"])
        r = tlc.run(TRACE_MODULE, cfg, workers=4, env={"TRACE_FILE": path}, continue_=True, heap="2g")
    finally:
        os.unlink(path)
    bad = sorted({(int(a), int(b), c) for a, b, c in re.findall(r'mismatch = <<(\d+), (\d+), "([^"]*)">>', r.out)})
    first = {}
    for a, b, c in bad:
        first.setdefault(a, (a, b, c))
    if r.violated and r.violated != "Conforms":
        raise tlc.TlcError(f"Trace_PathLoss: {r.violated} violated:\n{r.trace_text[:2000]}")
    return r, list(first.values())


def negative_control(ctx, traces, bad=()):
    """liveness of the binding: ONE logged field of one recorded trace is corrupted (a value the trace spec binds: the
    parameter read back after an accepted setter); a separate small TLC run must report exactly that event"""
    import copy
    badt = {b[0] for b in bad}
    for ti, t in enumerate(traces, 1):
        if ti in badt:
            continue  # only a trace that conforms as recorded can show that the corruption is what TLC reports
        for i, e in enumerate(t["ev"]):
            f = {"SetSigma": "sigma", "SetHbs": "hbs", "SetHms": "hms", "SetFc": "fc", "SetN": "n"}.get(e["op"])
            if f and e["out"] == "ok" and isinstance(e["post"].get(f), list) and e["post"][f] == e["arg"]:
                t2 = copy.deepcopy(t)
                t2["ev"] = t2["ev"][:i + 1]
                p, q = t2["ev"][i]["post"][f]
                t2["ev"][i]["post"][f] = [p + q, q]  # the logged parameter is off by one
                r, bad = validate([t2])
                if not any(b[0] == 1 and b[1] == i + 1 and b[2] == "parameter " + f for b in bad):
                    raise tlc.TlcError(f"trace validation did not report a corrupted logged parameter ({f} after {e['op']}, "
                                       f"event {i + 1}): binding not live; TLC reported {bad}")
                ctx.notes["trace_negative_control"] = (f"logged {f} after an accepted {e['op']} changed from {p}/{q} to {p + q}/{q} in event "
                                                       f"{i + 1} of one recorded {t['model']} trace: rejected (clause 'parameter {f}')")
                return
    if not badt:
        raise tlc.TlcError("no recorded trace offers an accepted numeric setter for the negative control")
    ctx.notes["trace_negative_control"] = "skipped: no conforming recorded trace with an accepted numeric setter in this run"


def record_and_check(ctx, traces):
    r, bad = validate(traces)
    negative_control(ctx, traces, bad)
    return traces, r, bad


def report(ctx, res):
    from . import c13
    traces, r, bad = res
    r.violated = None
    ctx.account(r, TRACE_MODULE, f"{len(traces)} recorded traces")
    badt = {a for a, _, _ in bad}
    for t_i, t in enumerate(traces, 1):
        if t_i not in badt:
            ctx.trace_done()
            ctx.ok(n=len(t["ev"]))
    for a, b, c in bad:
        t = traces[a - 1]
        e = t["ev"][b - 1]
        what = (f"recorded trace (seed {t['seed']}, {t['model']}) event {b} {e['op']}({e['arg']}) -> {e['out']}, post {e['post']}: "
                f"does not conform: {c} {e.get('why', {}).get(c[4:], '') if c.startswith('law ') else ''}")
        case = {"trace": t, "event": b, "clause": c}
        if (t["model"] == "freespace" and e["op"] == "SetFc" and c == "parameter fc" and e["out"] == "raise"
                and e["post"].get("fc") == e["arg"]):
            ctx.finding(c13.FID_FC, what, case)
        elif e["op"] == "Plot" and e["out"] == "raise" and c == "parameter shadow" and e["post"].get("shadow") is False:
            ctx.finding(c13.FID_PLOT, what, case)
        elif c == "law QueryPure" and c13.TAG_I8 in str(e.get("why", {}).get("QueryPure", "")):
            ctx.finding(c13.FID_I8, what, case)
        else:
            ctx.violation(what, case)
    ctx.notes["traces_recorded"] = len(traces)
    ctx.notes["trace_events"] = sum(len(t["ev"]) for t in traces)
    if traces:
        t = traces[len(traces) // 2]
        ctx.sample({"recorded_trace": {"model": t["model"], "init": t["init"],
                                       "ev": [{k: e[k] for k in ("op", "arg", "out", "post")} for e in t["ev"][:4]]}})


def replay(ctx, c):
    """re-record the stored trace's seed on the current tree and validate it again"""
    from . import c13
    t = c["trace"]
    new = record_one((t["seed"], len(t["ev"]), 8))
    r, bad = validate([new])
    report(ctx, ([new], r, bad))
