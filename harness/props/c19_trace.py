def run(ctx):
    pass
def replay(ctx, data):
    pass
