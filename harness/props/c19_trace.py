"""C19 stage T: record construction / setter / point-in-cell histories on the real classes with random
rational arguments and random query points (sixteenths), and let TLC validate all of them in one
run against spec/cell/Trace_Geometry.tla (invariant Conforms: mismatch = <<>>)."""
import json
import os
import re
import uuid

import numpy as np

from .. import tlc
from . import c19 as base

MODULE = "cell/Trace_Geometry.tla"
KINDS = ["hex", "sec3", "square", "rect", "circle", "wrap_hex", "wrap_square", "wrap_sec3"]


def _quarter(rng, lo, hi):
    return base.q(int(rng.randint(lo, hi + 1)), 0, 4)


def _radius(rng):
    if rng.randint(0, 4) == 0:  # irrational size: k sqrt3 / 2
        return base.q(0, int(rng.randint(1, 3)), 2)
    return _quarter(rng, 4, 9)


def _pos(rng):
    return (_quarter(rng, -4, 4), _quarter(rng, -4, 4))


def _make(kind, pos, r, w, h, rot):
    s = base.shape(kind, pos, r=r, w=w, h=h, ipos=base.PFAR)
    return base.build(s, rot)[-1]


def _query(rng, obj, npts):
    pts = [[int(rng.randint(-48, 49)), int(rng.randint(-48, 49))] for _ in range(npts)]
    got = [1 if obj.is_point_inside_shape(complex(i / 16.0, j / 16.0)) else 0 for i, j in pts]
    return {"op": "query", "pts": pts, "got": got}


def record(seed, ntraces, npts):
    rng = np.random.RandomState(seed)
    traces = []
    for t in range(ntraces):
        kind = KINDS[t % len(KINDS)]
        pos, r, w, h = _pos(rng), _radius(rng), _quarter(rng, 4, 12), _quarter(rng, 4, 12)
        rot = 0 if kind == "circle" else int(rng.randint(-24, 25)) * 30
        obj = _make(kind, pos, r, w, h, rot)
        ev = [{"op": "new", "kind": kind, "pos": pos, "r": r, "w": w, "h": h, "rot": rot}, _query(rng, obj, npts)]
        if not kind.startswith("wrap"):
            for _ in range(int(rng.randint(1, 4))):
                ops = ["pos", "rel"] + ([] if kind == "circle" else ["rot"]) + (["rad"] if kind in ("hex", "sec3", "circle") else [])
                op = ops[rng.randint(0, len(ops))]
                if op == "pos":
                    v = _pos(rng)
                    obj.pos = base.pc(v)
                    ev.append({"op": "pos", "pos": v})
                elif op == "rel":
                    v = _pos(rng)
                    obj.move_by_relative_coordinate(base.pc(v))
                    ev.append({"op": "rel", "d": v})
                elif op == "rot":
                    v = int(rng.randint(-24, 25)) * 30
                    obj.rotation = v
                    ev.append({"op": "rot", "rot": v})
                else:
                    v = _radius(rng)
                    obj.radius = base.qf(v)
                    ev.append({"op": "rad", "r": v})
                ev.append(_query(rng, obj, npts))
        traces.append(ev)
    return traces


_MIS = re.compile(r"mismatch = <<(\d+), (\d+), (\d+)>>")


def validate(ctx, traces, label):
    os.makedirs(tlc.WORK, exist_ok=True)
    path = os.path.join(tlc.WORK, f"c19-traces-{uuid.uuid4().hex[:8]}.json")
    with open(path, "w") as f:
        json.dump(traces, f)
    try:
        cfg, defs = base.model(set(), emit=False, invariants=["Conforms"])
        cfg = cfg.replace("INIT Init", "INIT TInit").replace("NEXT Next", "NEXT TNext")
        r = tlc.run(MODULE, cfg, defs=defs, env={"TRACE_FILE": path}, continue_=True, workers=2)
    finally:
        os.remove(path)
    ctx.states += r.distinct
    ctx.transitions += r.generated
    ctx.model_runs.append({"module": MODULE, "label": label, "generated": r.generated, "distinct": r.distinct,
                           "depth": r.depth, "violated": r.violated, "wall_s": round(r.wall, 2)})
    mism = sorted({(int(a), int(b), int(c)) for a, b, c in _MIS.findall(r.out)})
    events = sum(len(t) for t in traces)
    # every event of every conforming trace is one state (a trace stops at its first mismatch)
    if r.distinct < len(traces) or (not mism and r.distinct < events):
        raise tlc.TlcError(f"trace validation explored {r.distinct} states for {len(traces)} traces / {events} events")
    if r.violated and not mism:
        raise tlc.TlcError(f"trace validation reported {r.violated} without a parsable mismatch")
    return mism


def classify(trace, idx):
    """finding id for a mismatch at event idx (1-based) of a trace, or None"""
    kind = trace[0]["kind"]
    rot = trace[0]["rot"]
    moved = False
    for ev in trace[1:idx]:
        if ev["op"] == "rot":
            rot = ev["rot"]
        if ev["op"] in ("pos", "rel"):
            moved = True
    if kind in ("rect", "square") and moved:
        return base.F_MOVE
    if (kind == "square" and rot % 90 != 0) or (kind == "rect" and rot % 180 != 0):
        return base.F_RECT
    return None


def run(ctx):
    th = ctx.tier == "thorough"
    ntraces, npts = (480, 40) if th else (96, 24)
    traces = record(ctx.seed + 77, ntraces, npts)
    mism = validate(ctx, traces, "traces")
    badt = {}
    for t, i, n in mism:
        badt.setdefault(t, (i, n))
    for t, trace in enumerate(traces, start=1):
        ctx.trace_done()
        if t not in badt:
            ctx.ok(n=sum(len(e["pts"]) for e in trace if e["op"] == "query"))
            continue
        i, n = badt[t]
        ev = trace[i - 1]
        p = complex(ev["pts"][n - 1][0] / 16.0, ev["pts"][n - 1][1] / 16.0)
        hist = [{k: v for k, v in e.items() if k not in ("pts", "got")} for e in trace[:i] if e["op"] != "query"]
        what = (f"recorded history {hist}: is_point_inside_shape({p}) returned {bool(ev['got'][n - 1])}, "
                f"the specification decides {not ev['got'][n - 1]}")
        case = {"kind": "trace", "trace": trace[:i]}
        fid = classify(trace, i)
        if fid:
            ctx.finding(fid, what, case)
        else:
            ctx.violation(what, case)
    ctx.notes["traces_recorded"] = {"traces": len(traces), "events": sum(len(t) for t in traces),
                                    "decisions": sum(len(e["pts"]) for t in traces for e in t if e["op"] == "query")}
    # liveness of the binding: one corrupted decision must be reported by TLC
    probe = json.loads(json.dumps(traces[:8]))
    done = False
    for t in probe:
        if t[0]["kind"] != "hex" or done:
            continue
        q = t[1]
        for n, (i, j) in enumerate(q["pts"]):
            if abs(i / 16.0 - base.qf(t[0]["pos"][0])) < 0.2 and abs(j / 16.0 - base.qf(t[0]["pos"][1])) < 0.2:
                q["got"][n] = 0  # a point next to the centre reported as outside
                done = True
                break
        if not done:
            q["pts"][0] = [int(round(16 * base.qf(t[0]["pos"][0]))), int(round(16 * base.qf(t[0]["pos"][1])))]
            q["got"][0] = 0
            done = True
    if done:
        m2 = validate(ctx, probe, "corrupted-probe")
        if not m2:
            raise tlc.TlcError("trace validation did not report a corrupted decision (binding not live)")
        ctx.notes["corrupted_trace_detected"] = True


def replay(ctx, data):
    trace = data["case"]["trace"]
    # re-execute the history on the real classes, then validate the fresh log
    new = trace[0]
    obj = _make(new["kind"], tuple(map(tuple, new["pos"])), tuple(new["r"]), tuple(new["w"]), tuple(new["h"]), new["rot"])
    fresh = [new]
    for ev in trace[1:]:
        if ev["op"] == "pos":
            obj.pos = base.pc(ev["pos"])
        elif ev["op"] == "rel":
            obj.move_by_relative_coordinate(base.pc(ev["d"]))
        elif ev["op"] == "rot":
            obj.rotation = ev["rot"]
        elif ev["op"] == "rad":
            obj.radius = base.qf(ev["r"])
        if ev["op"] == "query":
            got = [1 if obj.is_point_inside_shape(complex(i / 16.0, j / 16.0)) else 0 for i, j in ev["pts"]]
            fresh.append({"op": "query", "pts": ev["pts"], "got": got})
        else:
            fresh.append(ev)
    mism = validate(ctx, [fresh], "replay")
    ctx.trace_done()
    if mism:
        t, i, n = mism[0]
        fid = classify(fresh, i)
        what = f"recorded history disagrees with the specification at event {i}, query {n}"
        if fid:
            ctx.finding(fid, what, data["case"])
        else:
            ctx.violation(what, data["case"])
    else:
        ctx.ok(n=1)
