"""C12 - water-filling returns the capacity-optimal power allocation.

Stage M: TLC on spec/comm/WaterFilling.tla.  Intended instance (all Dev flags FALSE): NonNeg,
SumIsP, KKT, MatchesOptimum, Optimal, ExchangeOptimal, PermutationEquivariant and the loop lemmas
hold on the whole enumerated domain.  Every Dev flag TRUE: TLC must find the violation of the
invariant that flag is aimed at (non-vacuity).  Opt.DropOnTie TRUE: invariants still hold (the
`>=` mutant of the drop test is equivalent).
Stage R: the same TLC runs emit one case per input (exact rationals: inputs, optimal powers, water
level).  Each case is executed on the real pyphysim.comm.waterfilling.doWF; powers and water level
are compared with the emitted exact values (1e-9 relative).
Stage T: see c12_trace.py - random rational inputs outside the enumerated alphabet are run through
the real doWF, the float results are turned into exact rationals and ONE batched TLC run
(Trace_WaterFilling.tla) validates them against the KKT conditions in exact integer arithmetic.

Python never computes an expected value: it converts <<n, d>> pairs to floats and compares."""
import itertools
import os
from concurrent.futures import ThreadPoolExecutor
from fractions import Fraction

import numpy as np

from .. import tlc

MODULE = "comm/WaterFilling.tla"
TOL = 1e-9
FID = "MuIgnoresEs"

# many JVMs run side by side: keep each one's helper threads down (measured: 29 s -> 20 s for 12 processes)
JVM_ENV = {"JAVA_TOOL_OPTIONS": "-XX:ParallelGCThreads=1 -XX:CICompilerCount=2"}

DEVS = ["MuIgnoresEs", "SpreadOverAll", "AscendingSort", "NoUnsort", "StopEarly", "EsDroppedInLoop", "AbsGainFloor",
        "SortOrderCached", "TinyLevelUniform"]
# model-level mutant -> the invariant that must refute it
DEV_REFUTED_BY = {"MuIgnoresEs": "KKT", "SpreadOverAll": "SumIsP", "AscendingSort": "NonNeg",
                  "NoUnsort": "PermutationEquivariant", "StopEarly": "NonNeg", "EsDroppedInLoop": "MatchesOptimum",
                  "AbsGainFloor": "ScaleLaws", "SortOrderCached": "MatchesOptimum",
                  "TinyLevelUniform": "LiveChannelLaw"}
INVARIANTS = ["TypeOK", "NonNeg", "SumIsP", "KKT", "MatchesOptimum", "WaterLevelUnique", "Optimal",
              "ExchangeOptimal", "PermutationEquivariant", "RunAgrees", "ScaleLaws", "ScaleLawsOptimum", "DeadChannelLaw", "LiveChannelLaw", "ReplicationLaw", "ReplicationLawOptimum", "KeepsOne", "PsNonNeg", "DropSound",
              "StopSound"]
ACTIONS = ["Pick", "Sort", "Level", "DropWorst", "Spread", "Unsort", "Mu", "Reuse"]

G_STD = [(1, 4), (1, 2), (1, 1), (2, 1), (4, 1), (8, 1)]
G_WIDE = [(1, 1024), (1, 32), (1, 1), (32, 1), (1024, 1)]
POWERS = [(1, 2), (1, 1), (2, 1), (5, 1)]
NOISES = [(1, 10), (1, 1), (2, 1)]
ENERGIES = [(1, 2), (1, 1), (2, 1)]


def rset(pairs):
    return "{" + ", ".join(f"<<{n}, {d}>>" for n, d in pairs) + "}"


def model(gains, first, lens, powers, noises, energies, dev=(), emit=True, invariants=None, **opt):
    o = dict(AllTieBreaks=True, DropOnTie=False, PermAll=True, Reuse=True, GridN=4, ExN=4,
             OptAMax=[(160, 1), (160, 1)], ExAMax=(160, 1), Scales={(3, 1), (1, 2)}, GainFloor=(1, 4),
             DeadGains={(1, 4096)}, DeadCount=2, DeadMaxLen=3, Reps={2, 3}, RepMaxLen=4, LiveGains={(4096, 1)}, LiveMaxLen=3, TinyLevel=(1, 1000))
    o.update(opt)
    optrec = tlc.tla(o)
    defs = {"Gains": rset(gains), "FirstGains": rset(first), "Lens": tlc.tla(set(lens)),
            "Powers": rset(powers), "Noises": rset(noises), "Energies": rset(energies),
            "Dev": tlc.tla({k: (k in dev) for k in DEVS}), "Opt": optrec}
    cfg = tlc.cfg_text(defs=defs, invariants=INVARIANTS if invariants is None else invariants,
                       action_constraints=["Emit"] if emit else [])
    return cfg, defs


def run_model(job):
    cfg, defs = model(**job["model"])
    kw = dict(defs=defs, coverage=job.get("coverage", False), heap="1g", workers=1,
              timeout=job.get("timeout", 3000), env=JVM_ENV)
    cache = os.environ.get("VERIF_C12_CACHE")   # builders' aid for mutation runs only (the TLC side does not
    if not cache:                               # depend on the tree under test); never set by registered commands
        return tlc.run(MODULE, cfg, **kw)
    import hashlib
    import pickle
    spec = open(os.path.join(tlc.SPEC, MODULE)).read()
    key = hashlib.sha1(repr((spec, cfg, sorted(defs.items()), kw["coverage"])).encode()).hexdigest()
    path = os.path.join(cache, key + ".pkl")
    if os.path.exists(path):
        return pickle.load(open(path, "rb"))
    r = tlc.run(MODULE, cfg, **kw)
    r.out = ""
    os.makedirs(cache, exist_ok=True)
    with open(path + ".tmp", "wb") as f:
        pickle.dump(r, f)
    os.replace(path + ".tmp", path)
    return r


# ------------------------------------------------------------------ driving the real doWF
def fl(q):
    return q[0] / q[1]


def case_key(c):
    return (tuple(map(tuple, c["g"])), tuple(c["p"]), tuple(c["n0"]), tuple(c["es"]))


def close(x, want):
    return bool(np.isfinite(x)) and abs(x - want) <= TOL * max(1.0, abs(want))


SCALES = [1e-30, 1e-15, 1e-9, 1e9, 1e15, 1e30]
TOL32 = 1e-5      # a float32 gain array makes numpy 2 compute in float32 (eps 6e-8): relative to the water level


def call(g, P, n0, es):
    from pyphysim.comm import waterfilling
    with np.errstate(all="ignore"):
        return waterfilling.doWF(g, P, n0, es)


def short(v):
    return str(v) if len(v) <= 12 else str(v[:8])[:-1] + f", ... {len(v)} values]"


def judge_result(res, n, want, wmu, out_scale=1.0, tol=TOL, ref=1.0):
    """compare (powers, mu) / out_scale with the exact expected values; None or (what, is_mu)"""
    pw, mu = res
    pw = np.asarray(pw)
    if pw.shape != (n,):
        return f"powers have shape {pw.shape}, expected {(n,)}", False
    if pw.dtype.kind != "f":
        return f"powers have dtype {pw.dtype} (not floating point)", False
    for i in range(n):
        x = float(pw[i]) / out_scale
        if not (np.isfinite(x) and abs(x - want[i]) <= tol * max(1.0, ref, abs(want[i]))):
            return (f"power of channel {i} is {x!r}, the optimum (exact, from TLC) is {want[i]!r}; "
                    f"returned {short([float(v) / out_scale for v in pw])} expected {short(want)}"), False
    x = float(mu) / out_scale
    if not (np.isfinite(x) and abs(x - wmu) <= tol * max(1.0, ref, abs(wmu))):
        return (f"returned water level {x!r}, but the allocation is max(0, mu - N0/(Es g_i)) only for mu = {wmu!r}"), True
    return None


def presentations(c, gf):
    """the same gain vector handed over in other numpy representations: (label, array, keep-alive base, tol).
    Only representations that hold the gains EXACTLY are produced."""
    n = len(gf)
    out = []
    if all(x[1] == 1 for x in c["g"]):
        out += [("int64 gains", gf.astype(np.int64), None, TOL), ("int32 gains", gf.astype(np.int32), None, TOL)]
        if max(x[0] for x in c["g"]) < 256:
            out.append(("uint8 gains", gf.astype(np.uint8), None, TOL))
    if np.array_equal(gf.astype(np.float32).astype(float), gf):
        out.append(("float32 gains", gf.astype(np.float32), None, TOL32))
    big = np.full(2 * n + 1, 99.0)
    big[1::2] = gf
    out.append(("strided view a[1::2]", big[1::2], big, TOL))
    rev = gf[::-1].copy()
    out.append(("reversed view a[::-1]", rev[::-1], rev, TOL))
    ro = gf.copy()
    ro.setflags(write=False)
    out.append(("read-only array", ro, None, TOL))
    two = np.column_stack([gf, gf + 1.0])
    out.append(("column view m[:, 0] of a 2-D array", two[:, 0], two, TOL))
    return out


def run_case(c):
    """Execute one TLC-emitted case on the real doWF: the plain float64 call, the same gains in other array
    representations, and the scaled calls licensed by the scaling laws of WaterFilling.tla.  Returns
    (kind, text, calls): kind in {"ok", "finding", "violation"}.  Expected values are the emitted rationals."""
    gf = np.array([fl(x) for x in c["g"]], dtype=float)
    n = len(gf)
    P, n0, es = fl(c["p"]), fl(c["n0"]), fl(c["es"])
    want, wmu = [fl(x) for x in c["pw"]], fl(c["mu"])
    calls = 0

    def attempt(label, g, P_, n0_, es_, base=None, out_scale=1.0, tol=TOL):
        """one call; the argument (and the array a view was cut from) must come back untouched"""
        nonlocal calls
        calls += 1
        g_before = g.copy()
        base_before = None if base is None else base.copy()
        try:
            res = call(g, P_, n0_, es_)
        except Exception as ex:  # doWF is total on positive inputs
            return f"{label}: doWF raised {type(ex).__name__}: {ex}", False
        if not np.array_equal(g, g_before) or g.dtype != g_before.dtype or \
                (base is not None and not np.array_equal(base, base_before)):
            return f"{label}: doWF modified its input array", False
        bad = judge_result(res, n, want, wmu, out_scale, tol, ref=abs(wmu) if tol != TOL else 1.0)
        return None if bad is None else (f"{label}: " + bad[0], bad[1])

    # 1. the plain call (float64 array, Python floats)
    bad = attempt("float64 gains", gf.copy(), P, n0, es)
    if bad:
        text, is_mu = bad
        if is_mu and c["es"] != [1, 1]:
            res = call(gf.copy(), P, n0, es)
            if close(float(res[1]), fl(c["munoes"])):
                return "finding", text + " (returned value equals p_best + N0/g_best: Es is missing)", calls
        return "violation", text, calls
    if c["n0"] == [1, 1] and c["es"] == [1, 1]:
        from pyphysim.comm import waterfilling
        calls += 1
        d = waterfilling.doWF(gf.copy(), P)
        if judge_result(d, n, want, wmu):
            return "violation", "doWF(g, P) differs from doWF(g, P, 1.0, 1.0): defaults are not noiseVar=1, Es=1", calls
    # 2. other representations of the same numbers (results must not depend on dtype / memory layout)
    for label, arr, base, tol in presentations(c, gf):
        bad = attempt(label, arr, P, n0, es, base=base, tol=tol)
        if bad:
            return "violation", bad[0], calls
    if all(x[1] == 1 for x in (c["p"], c["n0"], c["es"])):
        bad = attempt("P, N0, Es as Python ints", gf.copy(), int(P), int(n0), int(es))
        if bad:
            return "violation", bad[0], calls
        if all(x[1] == 1 for x in c["g"]):       # the all-integer call, e.g. doWF(np.array([1, 2, 4]), 2, 1, 1)
            bad = attempt("int64 gains AND Python-int P, N0, Es", gf.astype(np.int64), int(P), int(n0), int(es))
            if bad:
                return "violation", bad[0], calls
    bad = attempt("P, N0, Es as numpy float64 scalars", gf.copy(), np.float64(P), np.float64(n0), np.float64(es))
    if bad:
        return "violation", bad[0], calls
    # 3. scaling laws (ScaleLaws in WaterFilling.tla): no absolute scale may enter the result
    for k in SCALES:
        for label, args, oscale in (
                (f"gains and N0 both x {k:g} (same powers, same level)", (gf * k, P, n0 * k, es), 1.0),
                (f"N0 and Es both x {k:g} (same powers, same level)", (gf.copy(), P, n0 * k, es * k), 1.0),
                (f"gains x {k:g}, Es / {k:g} (same powers, same level)", (gf * k, P, n0, es / k), 1.0),
                (f"P and N0 both x {k:g} (powers and level x {k:g})", (gf.copy(), P * k, n0 * k, es), k)):
            bad = attempt(label, *args, out_scale=oscale)
            if bad:
                return "violation", bad[0], calls
    def exact(label, arr, P_, w):
        """a derived call whose exact expected result follows from a law of WaterFilling.tla"""
        nonlocal calls
        calls += 1
        before = arr.copy()
        try:
            res = call(arr, P_, n0, es)
        except Exception as ex:
            return f"{label}: doWF raised {type(ex).__name__}: {ex}"
        if not np.array_equal(arr, before):
            return f"{label}: doWF modified its input array"
        bad = judge_result(res, len(w), w, wmu)
        return None if bad is None else f"{label}: " + bad[0]

    # 4. channels whose bottom is not below the water level are irrelevant (DeadChannelLaw): one, four and ten of
    #    them, equal and distinct, 20 .. 300 orders of magnitude weaker than the weakest channel, at the front, in
    #    the middle and at the end (up to ten successive drops in one call)
    d0 = float(gf.min()) * 1e-20
    if n0 / (es * d0) >= wmu:                # premise of the law, on emitted numbers (gains below d0 even more so)
        mid = n // 2
        distinct10 = d0 / np.arange(1.0, 11.0)
        mixed10 = np.concatenate([d0 / np.arange(1.0, 6.0), np.full(5, d0 / 7.0)])
        for label, pos, dead in (("one dead channel (min(g) x 1e-20) appended", n, np.array([d0])),
                                 ("one dead channel (min(g) x 1e-20) prepended", 0, np.array([d0])),
                                 ("one dead channel (min(g) x 1e-300) appended", n, np.array([float(gf.min()) * 1e-300])),
                                 ("four distinct dead channels inserted in the middle", mid, distinct10[:4][::-1].copy()),
                                 ("ten distinct dead channels prepended", 0, distinct10),
                                 ("ten equal dead channels appended", n, np.full(10, d0)),
                                 ("ten dead channels (five distinct, five equal) inserted in the middle", mid, mixed10)):
            bad = exact(label, np.concatenate([gf[:pos], dead, gf[pos:]]), P,
                        want[:pos] + [0.0] * len(dead) + want[pos:])
            if bad:
                return "violation", bad, calls
    # 7. live-channel law + scaling law at the ends of the float64 range (LiveChannelLaw): an extremely strong
    #    channel whose level N0/(Es g) is a tiny NORMAL or a SUBNORMAL number joins and the power grows by mu: it
    #    takes mu (minus its negligible level), everything else and the level stay as in the moderate-scale case.
    #    All inputs and all products Es*g stay finite.
    mid = n // 2
    for label, k, G, pos in (("gain 1.5e308/max(1,Es) (subnormal level)", 1.0, 1.5e308 / max(1.0, es), 0),
                             ("gains and N0 x 1e-150, gain 1e160 (subnormal level)", 1e-150, 1e160, n),
                             ("gains and N0 x 1e-150, gain 1e150 (level ~1e-300)", 1e-150, 1e150, mid),
                             ("gains and N0 x 1e+150, gain 1e300 (level ~1e-150)", 1e150, 1e300, n),
                             ("gain 1e30 x max(g)", 1.0, 1e30 * float(gf.max()), mid)):
        if not (n0 * k) / (es * G) < wmu * 1e-12:      # premise of the law (level far below the water level)
            continue
        calls += 1
        arr = np.concatenate([gf[:pos] * k, [G], gf[pos:] * k])
        w = want[:pos] + [wmu] + want[pos:]
        lab = f"strong channel added at position {pos}, P + mu: {label}"
        before = arr.copy()
        try:
            res = call(arr, P + wmu, n0 * k, es)
        except Exception as ex:
            return "violation", f"{lab}: doWF raised {type(ex).__name__}: {ex}", calls
        bad = judge_result(res, n + 1, w, wmu)
        if bad or not np.array_equal(arr, before):
            return "violation", f"{lab}: " + (bad[0] if bad else "doWF modified its input array"), calls
    # 6. replication law (ReplicationLaw): g repeated m times with total power m P -> the allocation repeated and
    #    the same level; tiled (g1 g2 .. g1 g2 ..) and blocked (g1 g1 .. g2 g2 ..), up to length 67 n (> 16
    #    elements: other sort path inside argsort; many equal gains; long runs of the drop loop)
    for m in (2, 8, 67):
        for label, arr, w in ((f"vector tiled {m} times, P x {m}", np.tile(gf, m), want * m),
                              (f"every gain repeated {m} times, P x {m}", np.repeat(gf, m), [x for x in want for _ in range(m)])):
            if n == 1 and label.startswith("every"):
                continue
            bad = exact(label, arr, P * m, w)
            if bad:
                return "violation", bad, calls
    # 5. (rel) gains spread over many orders of magnitude INSIDE the vector, low to extreme total power.  No exact
    #    value exists in 32-bit arithmetic; the relations of the property statement are evaluated numerically
    #    from first principles on what doWF returned: p >= 0, SUM p = P, p_i = max(0, mu - N0/(Es g_i)).
    for s in (1e-13, 1e13):
        gs_ = gf * s ** np.arange(n)
        for pk in (1.0, 1e15, 1e30):
            calls += 1
            label = f"(rel) gains g_i x {s:g}^i, P x {pk:g}"
            try:
                pw, mu = call(gs_.copy(), P * pk, n0, es)
            except Exception as ex:
                return "violation", f"{label}: doWF raised {type(ex).__name__}: {ex}", calls
            pw = np.asarray(pw, dtype=float)
            mu = float(mu)
            unit = max(abs(mu), P * pk)
            kkt = np.maximum(0.0, mu - n0 / (es * gs_))
            if pw.shape != (n,) or not np.all(np.isfinite(pw)) or not np.isfinite(mu) or pw.min() < -TOL * unit \
                    or abs(pw.sum() - P * pk) > TOL * P * pk or np.abs(pw - kkt).max() > TOL * unit:
                return "violation", (f"{label}: returned powers {pw.tolist()} and level {mu!r} do not satisfy "
                                     f"p >= 0, SUM p = {P * pk!r}, p_i = max(0, mu - N0/(Es g_i)) = {kkt.tolist()}"), calls
            # (rel) permuting the widely spread channels permutes the allocation (relation between two runs)
            for pname, perm in (("reversed", np.arange(n)[::-1]), ("rotated", np.roll(np.arange(n), 1))) if n > 1 else ():
                calls += 1
                try:
                    pw2, mu2 = call(gs_[perm].copy(), P * pk, n0, es)
                except Exception as ex:
                    return "violation", f"{label}, {pname}: doWF raised {type(ex).__name__}: {ex}", calls
                pw2 = np.asarray(pw2, dtype=float)
                if pw2.shape != (n,) or not np.all(np.abs(pw2 - pw[perm]) <= TOL * unit) or not abs(float(mu2) - mu) <= TOL * unit:
                    return "violation", (f"{label}: the {pname} vector gets {pw2.tolist()}, level {float(mu2)!r}; the "
                                         f"same permutation of the first result is {pw[perm].tolist()}, level {mu!r}"), calls
    return "ok", "", calls


def run_cases(cases):
    """all variants of every case, then (action Reuse of the specification) the call history of a caller that keeps
    ONE gains array per length and overwrites it in place with the next case before calling doWF again; every
    call must return the exact values of the case whose numbers are in the buffer at that moment"""
    res = []
    for c in cases:
        try:
            res.append(run_case(c))
        except Exception as ex:      # comparisons are total: whatever doWF returned, the outcome is a verdict
            res.append(("violation", f"what doWF returned could not be compared ({type(ex).__name__}: {ex})", 1))
    bufs = {}
    last = {}
    for i, c in enumerate(cases):
        if res[i][0] != "ok":
            continue
        gf = np.array([fl(x) for x in c["g"]], dtype=float)
        n = len(gf)
        fresh = n not in bufs
        buf = bufs.setdefault(n, np.empty(n))
        prev, last[n] = last.get(n), c
        buf[:] = gf
        want, wmu = [fl(x) for x in c["pw"]], fl(c["mu"])
        bad = None
        for label, P_, w, k in (("", fl(c["p"]), want, 1.0), (" and again with P and N0 doubled", 2 * fl(c["p"]), want, 2.0)):
            try:
                r = call(buf, P_, k * fl(c["n0"]), fl(c["es"]))
            except Exception as ex:
                bad = f"doWF raised {type(ex).__name__}: {ex}"
                break
            try:
                j = judge_result(r, n, w, wmu, out_scale=k)
            except Exception as ex:
                j = (f"what doWF returned could not be compared ({type(ex).__name__}: {ex})", False)
            if j or not np.array_equal(buf, gf):
                bad = (j[0] if j else "doWF modified its input array") + label
                break
        if bad:
            res[i] = ("violation", ("call on a gains array that the caller reuses" +
                                    (" (first use)" if fresh else " (overwritten in place with these gains after an earlier call)")
                                    + ": " + bad), res[i][2] + 2, prev)
        else:
            res[i] = (res[i][0], res[i][1], res[i][2] + 2)
    return res


def size_of(c):
    return (len(c["g"]), sum(abs(x[0]) + x[1] for x in c["g"]) + sum(c["p"]) + sum(c["n0"]) + sum(c["es"]))


# ------------------------------------------------------------------------------- the check
def partitions(tier):
    jobs = []
    if tier == "quick":
        for p, n0 in itertools.product(POWERS, NOISES):
            jobs.append({"name": f"std P={p} N0={n0}", "model": dict(
                gains=G_STD, first=G_STD, lens=[1, 2, 3], powers=[p], noises=[n0], energies=ENERGIES,
                OptAMax=[(160, 1), (160, 1), (160, 1)], GridN=4)})
    else:
        for p, n0, f in itertools.product(POWERS, NOISES, G_STD):
            jobs.append({"name": f"std4 P={p} N0={n0} g1={f}", "model": dict(
                gains=G_STD, first=[f], lens=[1, 2, 3, 4] if f == G_STD[0] else [2, 3, 4], powers=[p], noises=[n0],
                energies=ENERGIES, OptAMax=[(160, 1), (160, 1), (160, 1), (16, 1)], GridN=8, Reuse=False)})
        for p, n0, f in itertools.product(POWERS, NOISES, G_WIDE):
            jobs.append({"name": f"wide P={p} N0={n0} g1={f}", "model": dict(
                gains=G_WIDE, first=[f], lens=[1, 2, 3, 4], powers=[p], noises=[n0], energies=ENERGIES,
                OptAMax=[(160, 1), (32, 1)], ExAMax=(32, 1), GridN=4, Reuse=False)})
    return jobs


SMALL = dict(gains=[(1, 2), (1, 1), (4, 1)], first=[(1, 2), (1, 1), (4, 1)], lens=[1, 2, 3], powers=[(1, 1), (5, 1)],
             noises=[(1, 10), (1, 1)], energies=[(1, 2), (2, 1)])


def model_devs(ctx, ex):
    """every model-level mutant must be refuted by the invariant it is aimed at; DropOnTie must not be"""
    jobs = [{"dev": d, "model": dict(SMALL, dev=[d], emit=False, invariants=[DEV_REFUTED_BY[d]])} for d in DEVS]
    # the absolute gain floor (1/4) lies below every gain of SMALL: EVERY other invariant holds on the domain,
    # only the scaling law (k = 1/8 moves the gains under the floor) refutes it
    # "level too small -> equal split": invisible on the domain (levels >= 1/160), refuted by the live-channel law only
    next(j for j in jobs if j["dev"] == "TinyLevelUniform")["model"].update(invariants=INVARIANTS)
    next(j for j in jobs if j["dev"] == "AbsGainFloor")["model"].update(invariants=INVARIANTS, Scales={(1, 8)},
                                                                        GainFloor=(1, 4))
    tie = {"model": dict(gains=G_STD, first=G_STD, lens=[1, 2, 3], powers=[(1, 1)], noises=[(1, 1)],
                         energies=[(1, 1), (2, 1)], DropOnTie=True)}
    cov = {"model": dict(SMALL, emit=False, DeadGains={(1, 64), (1, 4096)}, DeadCount=2, DeadMaxLen=4, LiveGains={(64, 1), (4096, 1)}, LiveMaxLen=4), "coverage": True}       # intended instance with per-action coverage
    res = list(ex.map(run_model, jobs + [tie, cov]))
    ctx.account(res.pop(), MODULE, "intended instance, small domain, coverage")
    for j, r in zip(jobs, res[:-1]):
        ctx.account(r, MODULE, f"Dev.{j['dev']}", expect_violation=DEV_REFUTED_BY[j["dev"]])
        ctx.notes.setdefault("deviations_refuted_by_model", {})[j["dev"]] = r.violated
    r = ctx.account(res[-1], MODULE, "Opt.DropOnTie (>= in the drop test): equivalent")
    ties = sum(1 for c in r.emitted if c["tie"])
    if not ties:
        raise tlc.TlcError("DropOnTie instance contains no case with a channel exactly at the water level")
    ctx.notes["drop_on_tie_equivalent"] = {"cases": len(r.emitted), "tie_cases": ties}


def run(ctx):
    from ..core import pool_map
    ctx.rule = ("TLC enumerates every (gain vector, P, N0, Es) of the stated alphabet and checks the invariants of "
                "WaterFilling.tla on every step of the algorithm machine; every emitted case is executed on the real "
                "doWF; distinct = distinct input tuples executed")
    ctx.assumptions += ["powers and water level compared with tolerance 1e-9*max(1,|x|)",
                        "Optimal (exact product comparison on the P/GridN grid) only where products fit 32-bit "
                        "integers; longer vectors rely on KKT + concavity lemma (WaterFilling.tla header)",
                        "inputs are strictly positive finite numbers"]
    jobs = partitions(ctx.tier)
    with ThreadPoolExecutor(int(os.environ.get("VERIF_PROCS", "0") or 0) or 16) as ex:
        futs = [ex.submit(run_model, j) for j in jobs]      # big partitions first, small model runs behind them
        model_devs(ctx, ex)
        runs = [f.result() for f in futs]
    cases = {}
    for j, r in zip(jobs, runs):
        ctx.account(r, MODULE, j["name"])
        for c in r.emitted:
            if c["mpw"] != c["pw"] or c["mmu"] != c["mu"]:
                raise tlc.TlcError(f"machine and declarative optimum differ in an emitted case: {c}")
            cases.setdefault(case_key(c), c)
    ctx.require_actions(ACTIONS)
    cases = sorted(cases.values(), key=size_of)
    chunks = [cases[i::32] for i in range(32)]
    res = pool_map(run_cases, chunks)
    out = sorted(((size_of(c), i, c, k, t, m, (x or [None])[0]) for ch, rs in zip(chunks, res)
                  for i, (c, (k, t, m, *x)) in enumerate(zip(ch, rs))), key=lambda x: x[:2])
    ties = 0
    ncalls = 0
    for _, _, c, kind, text, m, prev in out:
        ctx.ok(case_key(c), n=m)
        ncalls += m
        ties += bool(c["tie"])
        if kind == "finding":
            ctx.finding(FID, text, {"stage": "R", "case": c})
        elif kind == "violation":
            ctx.violation(f"doWF(g={[fl(x) for x in c['g']]}, P={fl(c['p'])}, N0={fl(c['n0'])}, Es={fl(c['es'])}): " + text,
                          {"stage": "R", "case": c, "prev": prev})
    for c in cases[:: max(1, len(cases) // 3)][:3]:
        ctx.sample({k: c[k] for k in ("g", "p", "n0", "es", "pw", "mu", "rem")})
    ctx.exhaustive = True
    ctx.notes["cases_replayed"] = len(cases)
    ctx.notes["doWF_calls_in_stage_R"] = ncalls
    ctx.notes["cases_with_channel_exactly_at_water_level"] = ties
    ctx.notes["cases_with_switched_off_channels"] = sum(1 for c in cases if c["rem"] > 0)
    from . import c12_trace
    c12_trace.run(ctx)


def replay(ctx, data):
    c = data["case"]
    if c.get("stage") == "T":
        from . import c12_trace
        return c12_trace.replay(ctx, c)
    hist = ([c["prev"]] if c.get("prev") else []) + [c["case"]]     # the buffer's previous contents, then the case
    kind, text, m = run_cases(hist)[-1][:3]
    ctx.ok(case_key(c["case"]), n=m)
    if kind == "finding":
        ctx.finding(FID, text, c)
    elif kind == "violation":
        ctx.violation(text, c)
