"""C10 - IA solvers return valid, power-limited, aligned solutions; no stale derived quantities.

Stage M: spec/ia/IaSolver.tla (cache machine of IASolverBaseClass, finite: TLC covers ALL histories of
solve / randomizeF / set_precoders / set_receive_filters / P= (valid and rejected) / channel change and
the readers): NoStaleView, CachesFresh, PowerValid hold; each deviation flag is refuted.
Stage R: every transition of the emitted graph on the five real solvers over seeded generic 3-user
channels; after every step every derived view is read on a deep copy and compared with its
recomputation from the primary inputs, and every predicate in the emitted `req` set is evaluated (rel).
Plus (rel): an iteration of AltMin / MinLeakage never increases the leaked interference."""
import copy
import random
from concurrent.futures import ThreadPoolExecutor

import numpy as np

from .. import tlc, graph
from ..core import pool_map

MODULE = "ia/IaSolver.tla"
DEVS = ["PSetterKeepsDerived", "SetPrecodersKeepsFullW", "InvalidPCommitted", "SetFiltersKeepsFullW"]
ALGS = ["ClosedForm", "AltMin", "MinLeakage", "MaxSINR", "MMSE"]
ACTS = {"Solve", "RandomizeF", "SetPrecoders", "SetFilters", "SetP", "SetPInvalid", "RejectedCall", "NewChannel", "ReadFullF", "ReadWconv", "ReadFullWH", "ReadFullW",
        "IterStep", "Clear"}
TOL = 1e-7


def model(alg, dev=(), emit=True, acts=ACTS):
    d = {k: (k in dev) for k in DEVS}
    defs = {"Acts": tlc.tla(set(acts)), "Dev": tlc.tla(d)}
    cfg = tlc.cfg_text(constants={"Alg": tlc.tla(alg)}, defs=defs, invariants=["NoStaleView", "CachesFresh", "PowerValid"],
                       action_constraints=["Emit"] if emit else [])
    return cfg, defs


def solver_class(alg):
    from pyphysim.ia import algorithms as A
    return {"ClosedForm": A.ClosedFormIASolver, "AltMin": A.AlternatingMinIASolver, "MinLeakage": A.MinLeakageIASolver,
            "MaxSINR": A.MaxSinrIASolver, "MMSE": A.MMSEIASolver}[alg]


_FORM = [0]


def P_of(kind, K):
    """the same power in the different forms a caller may use (float / numpy scalar, array / list / tuple)"""
    _FORM[0] += 1
    if kind == "default":
        return None
    if kind == "scalar":
        return (1.7, np.float64(1.7), np.float32(1.75) if False else 1.7)[_FORM[0] % 2]
    v = [0.8, 1.5, 2.2, 1.1][:K]
    return (np.array(v), list(v), tuple(v))[_FORM[0] % 3]


def P_array(kind, K):
    p = P_of(kind, K)
    if p is None:
        return np.ones(K)
    return np.ones(K) * np.asarray(p, dtype=float)


def unit(rs, r, c):
    a = rs.randn(r, c) + 1j * rs.randn(r, c)
    return a / np.linalg.norm(a, "fro")


class Driver:
    def __init__(self, alg, seed, K=3, N=2, Ns=1):
        from pyphysim.channels.multiuser import MultiUserChannelMatrix
        self.alg, self.K, self.N, self.Ns = alg, K, N, Ns
        self.rs = np.random.RandomState(seed)
        self.ch = MultiUserChannelMatrix()
        self.ch.set_channel_seed(seed + 7)
        self.ch.randomize(N, N, K)
        # the alignment conditions do not depend on the overall channel gain: every third object works on a channel with
        # a strong common path loss (all gains ~1e-7), noise scaled along
        self.scale = 1.0
        if seed % 3 == 1:
            self.scale = 1e-7
            self.ch.set_pathloss(np.full((K, K), self.scale ** 2))
        if alg in ("MMSE", "MaxSINR"):
            self.ch.noise_var = 0.01 * self.scale ** 2
        self.s = solver_class(alg)(self.ch)
        if alg != "ClosedForm":
            self.s.max_iterations = 40
            self.s._rs.seed(seed + 13) if hasattr(self.s, "_rs") else None
            # initialisation modes are part of the quantifier
            modes = ["random", "svd", "closed_form"] + (["alt_min"] if alg != "AltMin" else [])
            self.s.initialize_with = modes[seed % len(modes)]
        self.F = None          # primary inputs as the harness knows them
        self.given = []        # (what, array the caller passed, copy): the solver must not write into the caller's arrays
        self.held = []         # (what, array a reader returned, copy): a later call must not change an earlier result
        self.fullF = None      # MMSE: solve() returns power-scaled precoders with LESS than full power; they are primary then
        self.WH = None
        self.pkind = "default"

    def step(self, e):
        op, a = e["ret"]["op"], e["ret"]["a"]
        s, K = self.s, self.K
        if op == "Solve":
            p = P_of(a[0], K)
            # Ns handed over as an array that the caller changes afterwards: the solver must not be affected
            ns_arg = np.ones(K, dtype=int) * self.Ns if self.rs.rand() < 0.5 else self.Ns
            prev_mode = None
            if self.alg != "ClosedForm" and self.F is not None and self.F[0].shape[1] == self.Ns and self.rs.rand() < 0.4:
                # continue from the precoders the object holds ('fix' initialisation), possibly with another power
                prev_mode = s.initialize_with
                s.initialize_with = "fix"
            try:
                s.solve(ns_arg) if p is None else s.solve(ns_arg, p)
            finally:
                if prev_mode is not None:
                    s.initialize_with = prev_mode
            if isinstance(ns_arg, np.ndarray):
                ns_arg[:] = 7
            self.pkind = a[0]
            self.F = [np.array(x) for x in s.F]
            self.WH = [np.array(x) for x in s.W_H]
            self.fullF = [np.array(x) for x in s.full_F] if self.alg == "MMSE" else None
            return None
        if op == "RandomizeF":
            p = P_of(a[0], K)
            s.randomizeF(self.Ns) if p is None else s.randomizeF(self.Ns, p)
            self.pkind = a[0]
            self.F = [np.array(x) for x in s.F]
            self.fullF = None
            return None
        if op == "SetPrecoders":
            how, pk, ns = a
            F = [unit(self.rs, self.N, ns) for _ in range(K)]
            newp = self.pkind if pk == "keep" else pk
            kw = {}
            if pk != "keep":
                # the power as the K-vector, as a list, or (scalar kind) as one number
                pv = P_array(pk, K)
                kw["P"] = float(pv[0]) if pk == "scalar" else (list(pv) if self.rs.rand() < 0.5 else pv)
            Fa = np.empty(K, dtype=object)
            for k in range(K):
                Fa[k] = F[k]
            form = self.rs.randint(0, 3)
            arg = list(F) if form == 0 else (Fa if form == 1 else np.array(F))      # list / object array / stacked 3-D array
            self.given = [(f"precoder {k} passed to set_precoders", F[k], F[k].copy()) for k in range(K)]
            if how == "F":
                s.set_precoders(F=arg, **kw)
            else:
                pa = P_array(newp, K)
                full = [F[k] * np.sqrt(pa[k]) for k in range(K)]
                if how == "both":
                    s.set_precoders(F=arg, full_F=full, **kw)
                else:
                    s.set_precoders(full_F=full, **kw)
            self.pkind = newp
            self.F = F
            self.fullF = None
            return None
        if op == "SetFilters":
            WH = [self.rs.randn(a[1], self.N) + 1j * self.rs.randn(a[1], self.N) for _ in range(K)]
            if a[0] == "W_H":
                s.set_receive_filters(W_H=list(WH))
            else:
                s.set_receive_filters(W=[w.conj().T for w in WH])
            self.WH = WH
            return None
        if op == "SetP":
            s.P = P_of(a[0], K)
            self.pkind = a[0]
            self.fullF = None
            return None
        if op == "SetPInvalid":
            bad = {"negvec": [1.0, -2.0, 0.5, 1.0][:K], "zero": 0.0, "short": [1.0, 2.0][: K - 1]}[a[0]]
            try:
                s.P = bad
            except ValueError:
                return None
            return ("error", f"P = {bad} was accepted (no ValueError)")
        if op == "RejectedCall":
            w = [self.rs.randn(1, self.N) + 0j for _ in range(K)]
            try:
                if a[0] == "precodersNone":
                    s.set_precoders()
                elif a[0] == "precodersBadP":
                    try:
                        s.set_precoders(F=[unit(self.rs, self.N, 1) for _ in range(K)], P=[1.0, -2.0, 0.5, 1.0][:K])
                    except ValueError:
                        return None
                    return ("error", "set_precoders accepted a power vector with a negative entry")
                elif a[0] == "filtersBoth":
                    s.set_receive_filters(W_H=w, W=[x.conj().T for x in w])
                else:
                    s.set_receive_filters()
            except RuntimeError:
                return None
            return ("error", f"rejected call {a[0]} was accepted")
        if op == "Clear":
            s.clear()
            self.F = self.WH = self.fullF = None
            self.pkind = "default"
            return None
        if op == "IterStep":
            p = P_of(self.pkind, K)
            c0 = float(np.real(s.get_cost()))
            modes = (s.initialize_with, s.max_iterations, getattr(s, "relative_factor", None))
            s.initialize_with, s.max_iterations = "fix", 1
            try:
                s.solve(self.Ns) if p is None else s.solve(self.Ns, p)
            finally:
                s.initialize_with, s.max_iterations = modes[0], modes[1]
            c1 = float(np.real(s.get_cost()))
            self.F = [np.array(x) for x in s.F]
            self.WH = [np.array(x) for x in s.W_H]
            self.fullF = None
            if c1 > c0 + 1e-9 * max(1.0, c0) * max(1.0, self.scale ** 2):
                return ("error", f"one more iteration raised the total leaked interference power from {c0:.8e} to {c1:.8e}")
            return None
        if op == "NewChannel":
            self.ch.randomize(self.N, self.N, K)
            if self.scale != 1.0:
                self.ch.set_pathloss(np.full((K, K), self.scale ** 2))
            self.F = None
            self.WH = None
            self.fullF = None
            return None
        if op == "ReadFullF":
            r = s.full_F
            self.held = (self.held + [(f"full_F[{k}] read earlier", r[k], np.array(r[k])) for k in range(K)])[-9:]
            return ("full_F", r)
        if op == "ReadWconv":
            return ("conv", s.W if e["post"]["wGiven"] == "W_H" else s.W_H)
        if op == "ReadFullWH":
            return ("full_W_H", s.full_W_H)
        if op == "ReadFullW":
            return ("full_W", s.full_W)
        raise ValueError(op)

    # expected views recomputed from the primary inputs
    def expected(self):
        K = self.K
        P = P_array(self.pkind, K)
        ev = {}
        if self.F is not None:
            ev["full_F"] = self.fullF if self.fullF is not None else [self.F[k] * np.sqrt(P[k]) for k in range(K)]
        if self.WH is not None:
            ev["W_H"] = self.WH
            ev["W"] = [w.conj().T for w in self.WH]
        if self.F is not None and self.WH is not None and self.F[0].shape[1] == self.WH[0].shape[0]:
            fw = []
            for k in range(K):
                Hkk = self.ch.get_Hkl(k, k)
                heq = self.WH[k].dot(Hkk).dot(ev["full_F"][k])
                fw.append(np.linalg.solve(heq, self.WH[k]))
            ev["full_W_H"] = fw
            ev["full_W"] = [x.conj().T for x in fw]
        return ev


def close_list(got, want):
    if got is None or len(got) != len(want):
        return False
    return all(np.asarray(g).shape == np.asarray(w).shape and np.allclose(g, w, rtol=TOL, atol=TOL) for g, w in zip(got, want))


def check_state(drv, e, probe):
    """all views on a deep copy + required predicates; returns list of discrepancies"""
    bad = []
    post, req = e["post"], set(e["req"])
    K = drv.K
    ev = drv.expected()
    s = copy.deepcopy(drv.s)
    P = P_array(drv.pkind, K)
    if not np.allclose(np.asarray(s.P, dtype=float) * np.ones(K), P):
        bad.append(f"P is {s.P}, expected {P}")
    order = [("full_F", lambda: s.full_F), ("W", lambda: s.W), ("W_H", lambda: s.W_H), ("full_W_H", lambda: s.full_W_H), ("full_W", lambda: s.full_W)]
    rot = probe % len(order)
    for name, f in order[rot:] + order[:rot]:
        if name not in ev:
            continue
        try:
            got = f()
        except Exception as ex:
            bad.append(f"reading {name} raised {type(ex).__name__}: {ex}")
            continue
        if not close_list(got, ev[name]):
            bad.append(f"{name} is not what the current F, P, W and channel give (stale or wrong derived quantity)")
    F = drv.F
    if F is not None:
        if "UnitNormF" in req:
            for k in range(K):
                if abs(np.linalg.norm(np.asarray(s.F[k]), "fro") - 1) > 1e-6:
                    bad.append(f"precoder {k} has Frobenius norm {np.linalg.norm(s.F[k], 'fro')}")
        try:
            fF = copy.deepcopy(drv.s).full_F
            for k in range(K):
                pw = np.linalg.norm(fF[k], "fro") ** 2
                if "PowerLeP" in req and pw > P[k] * (1 + 1e-6):
                    bad.append(f"user {k} transmits power {pw} > P {P[k]}")
                if "PowerEqP" in req and abs(pw - P[k]) > 1e-6 * P[k]:
                    bad.append(f"user {k} transmits power {pw} != P {P[k]}")
        except Exception:
            pass
        if "NsMatchesShapes" in req:
            ns = np.asarray(s.Ns)
            if ns is None or list(ns) != [np.asarray(s.F[k]).shape[1] for k in range(K)]:
                bad.append(f"Ns {s.Ns} does not match the precoder shapes")
    if "NsMatchesShapes" in req and F is not None and list(np.asarray(s.Ns)) != [f.shape[1] for f in F]:
        bad.append(f"Ns {s.Ns} does not follow the installed precoders (streams {[f.shape[1] for f in F]})")
    if F is not None and drv.WH is not None and "OwnChannelIdentity" in req:
        try:
            c = copy.deepcopy(drv.s)
            fw, ff = c.full_W_H, c.full_F
            for k in range(K):
                m = np.asarray(fw[k]).dot(drv.ch.get_Hkl(k, k)).dot(ff[k])
                if not np.allclose(m, np.eye(m.shape[0]), atol=1e-6):
                    bad.append(f"full_W_H[{k}] H_kk full_F[{k}] is not the identity")
        except Exception as ex:
            bad.append(f"own-channel identity could not be evaluated: {type(ex).__name__}: {ex}")
    if "ClosedFormNulls" in req:
        for k in range(K):
            for l in range(K):
                if k != l:
                    leak = np.linalg.norm(np.asarray(s.W_H[k]).dot(drv.ch.get_Hkl(k, l)).dot(s.F[l])) / drv.scale
                    if leak > 1e-7:
                        bad.append(f"closed-form solution leaks {leak:.2e} from user {l} into user {k}")
    if "NothingReported" in req:
        # after clear(): unit power, and no precoder / filter / derived quantity left over from the forgotten solution
        if not np.allclose(np.asarray(s.P, dtype=float) * np.ones(K), np.ones(K)):
            bad.append(f"after clear() P is {s.P}")
        for name in ("F", "full_F", "W", "W_H", "full_W_H", "full_W"):
            try:
                v = getattr(s, name)
            except Exception:          # a getter may refuse without a solution
                continue
            if v is not None:
                bad.append(f"after clear() {name} still reports a value")
    if "SolvedShapes" in req:
        if list(np.asarray(s.Ns)) != [drv.Ns] * K:
            bad.append(f"Ns after solve({drv.Ns}) is {s.Ns}")
        for k in range(K):
            if np.asarray(s.W_H[k]).shape != (np.asarray(s.Ns)[k], drv.N) or np.asarray(s.F[k]).shape != (drv.N, np.asarray(s.Ns)[k]):
                bad.append(f"filter shapes of user {k} do not match Ns")
    return bad


def run_path(job):
    alg, edges, seed = job
    drv = Driver(alg, seed)
    okc = 0
    for i, e in enumerate(edges):
        try:
            got = drv.step(e)
        except Exception as ex:
            return okc, {"step": i, "op": e["ret"], "what": f"{e['ret']['op']}{e['ret']['a']} raised {type(ex).__name__}: {ex}"}
        bad = []
        if got is not None:
            kind, val = got
            if kind == "error":
                bad.append(val)
            else:
                ev = drv.expected()
                name = kind if kind != "conv" else ("W" if e["post"]["wGiven"] == "W_H" else "W_H")
                if name in ev and not close_list(val, ev[name]):
                    bad.append(f"{name} returned by the reader is stale / wrong")
        try:
            bad += check_state(drv, e, i)
        except Exception as ex:       # a view / predicate that cannot even be evaluated in a state where it is required
            bad.append(f"required views could not be evaluated after {e['ret']['op']}{e['ret']['a']}: {type(ex).__name__}: {ex}")
        for what, ref, cp in drv.given:
            if not np.array_equal(ref, cp):
                bad.append(f"the {what} was modified by the solver")
        if e["ret"]["op"] not in ("Solve",):
            for what, ref, cp in drv.held:
                if not np.array_equal(ref, cp):
                    bad.append(f"the array {what} was changed by a later call ({e['ret']['op']})")
        else:
            drv.held = []
        if bad:
            return okc, {"step": i, "op": e["ret"], "what": "; ".join(bad[:3])}
        okc += 1
    return okc, None


def leak_case(job):
    """(rel) an iteration never increases the leakage: cost after n+1 iterations <= cost after n"""
    alg, K, N, seed = job
    np.random.seed(seed % (2 ** 31))          # random initialisations draw from numpy's global generator
    from pyphysim.channels.multiuser import MultiUserChannelMatrix
    rs = np.random.RandomState(seed)
    ch = MultiUserChannelMatrix()
    ch.set_channel_seed(seed)
    ch.randomize(N, N, K)
    F0 = [unit(rs, N, 1) for _ in range(K)]
    costs = []
    for n in range(1, 14):
        s = solver_class(alg)(ch)
        s.set_precoders(F=[f.copy() for f in F0])
        s.initialize_with = "fix"
        s.max_iterations = n
        s.relative_factor = 0.0
        try:
            s.solve(1)
            costs.append(float(np.real(s.get_cost())))
        except Exception as ex:
            return f"{alg} K={K}: solve with {n} iterations raised {type(ex).__name__}: {ex}", costs
    floor = 1e-9 * max(1.0, costs[0])
    for i in range(len(costs) - 1):
        if costs[i + 1] > costs[i] + floor:
            return f"{alg} K={K} seed={seed}: leakage rose from {costs[i]:.6e} to {costs[i + 1]:.6e} at iteration {i + 2}", costs
    return None, costs


def multistream_case(job):
    """solvers must complete for more than one stream per user (4x4 antennas, Ns = 2)"""
    alg, seed = job
    np.random.seed(seed % (2 ** 31))          # random initialisations draw from numpy's global generator
    from pyphysim.channels.multiuser import MultiUserChannelMatrix
    ch = MultiUserChannelMatrix()
    ch.set_channel_seed(seed)
    ch.randomize(4, 4, 3)
    ch.noise_var = 0.01
    s = solver_class(alg)(ch) if not (alg == "ClosedForm" and seed % 2) else solver_class(alg)(ch, use_best_init=False)
    seed_solver(s, seed)
    if alg != "ClosedForm":
        s.max_iterations = 30
        # every initialisation mode (the alternating-minimization solver cannot be initialised from itself)
        mode = ("random", "closed_form", "svd", "alt_min")[(seed // 2) % 4]
        s.initialize_with = mode if not (alg == "AltMin" and mode == "alt_min") else "closed_form"
    powers = 1.5 if seed % 2 == 0 else np.array([1.5, 1.5, 1.5]) * np.array([1.0, 1e-9, 1.0])[np.roll(np.arange(3), seed % 3)]
    pw = np.ones(3) * powers
    try:
        s.solve(2, powers)
    except AssertionError as ex:
        return (f"{alg}.solve(Ns=2) initialised with {getattr(s, 'initialize_with', '-')} stopped on an assertion: {ex!r}",
                ("MinLeakMultiStreamAsserts" if alg == "MinLeakage" else None))
    except Exception as ex:
        return f"{alg}.solve(Ns=2) raised {type(ex).__name__}: {ex}", None
    try:
        return _multistream_judge(s, ch, alg, pw), None
    except Exception as ex:          # noqa
        return f"{alg}.solve(Ns=2): the solution cannot be examined: {type(ex).__name__}: {ex}", None


def _multistream_judge(s, ch, alg, pw):
    bad = []
    for k in range(3):
        Fk = np.asarray(s.F[k])
        if Fk.shape != (4, int(s.Ns[k])):
            bad.append(f"F[{k}] shape {Fk.shape} vs Ns {s.Ns[k]}")
        if alg != "MMSE" and abs(np.linalg.norm(Fk, "fro") - 1) > 1e-6:
            bad.append(f"F[{k}] norm {np.linalg.norm(Fk, 'fro'):.4f}")
        pwk = np.linalg.norm(np.asarray(s.full_F[k]), "fro") ** 2
        if pwk > pw[k] * (1 + 1e-6):
            bad.append(f"user {k} power {pwk:.4g} > {pw[k]:.4g}")
        if np.asarray(s.W_H[k]).shape != (int(s.Ns[k]), 4):
            bad.append(f"W_H[{k}] shape {np.asarray(s.W_H[k]).shape} vs Ns {s.Ns[k]}")
        try:
            m = np.asarray(s.full_W_H[k]).dot(ch.get_Hkl(k, k)).dot(s.full_F[k])
            if not np.allclose(m, np.eye(m.shape[0]), atol=1e-5):
                bad.append(f"own channel of user {k} is not turned into the identity")
        except Exception as ex:
            bad.append(f"full_W_H of user {k} cannot be evaluated: {type(ex).__name__}: {ex}")
    if alg == "ClosedForm":
        # the closed-form solution nulls every cross link, also with two streams per user
        for k in range(3):
            for l in range(3):
                if k != l:
                    leak = np.linalg.norm(np.asarray(s.W_H[k]).dot(ch.get_Hkl(k, l)).dot(s.F[l]))
                    if leak > 1e-7:
                        bad.append(f"closed-form solution (2 streams) leaks {leak:.2e} from user {l} into user {k}")
    return "; ".join(bad) if bad else None


def seed_solver(s, seed):
    """random initialisations draw from a per-solver RandomState that the API does not let one seed"""
    for o in (s, getattr(s, "_alt_min_ia_solver", None), getattr(s, "_closed_form_ia_solver", None)):
        rs = getattr(o, "_rs", None)
        if rs is not None:
            rs.seed(seed % (2 ** 31))


def solution_defects(s, ch, alg, K, Nr, Nt, pw):
    """the statement's relations on a solved solver (rel): shapes vs Ns, unit norm, power, own channel -> identity.
    Total: whatever the solver's getters raise or return while they are compared is a defect of the solution."""
    try:
        return _solution_defects(s, ch, alg, K, Nr, Nt, pw)
    except Exception as ex:          # noqa
        return [f"the solution cannot be examined: {type(ex).__name__}: {ex} (F, W_H or a derived quantity is missing or malformed)"]


def _solution_defects(s, ch, alg, K, Nr, Nt, pw):
    bad = []
    for k in range(K):
        Fk = np.asarray(s.F[k])
        if Fk.shape != (Nt[k], int(s.Ns[k])):
            bad.append(f"F[{k}] shape {Fk.shape} vs Nt {Nt[k]}, Ns {s.Ns[k]}")
        if alg != "MMSE" and abs(np.linalg.norm(Fk, "fro") - 1) > 1e-6:
            bad.append(f"F[{k}] norm {np.linalg.norm(Fk, 'fro'):.6f}")
        pwk = np.linalg.norm(np.asarray(s.full_F[k]), "fro") ** 2
        if pwk > pw[k] * (1 + 1e-6):
            bad.append(f"user {k} power {pwk:.6g} > {pw[k]:.6g}")
        elif alg != "MMSE" and abs(pwk - pw[k]) > 1e-6 * pw[k]:
            bad.append(f"user {k} power {pwk:.6g} does not meet {pw[k]:.6g}")
        if np.asarray(s.W_H[k]).shape != (int(s.Ns[k]), Nr[k]):
            bad.append(f"W_H[{k}] shape {np.asarray(s.W_H[k]).shape} vs Ns {s.Ns[k]}, Nr {Nr[k]}")
        try:
            m = np.asarray(s.full_W_H[k]).dot(ch.get_Hkl(k, k)).dot(s.full_F[k])
            if not np.allclose(m, np.eye(m.shape[0]), atol=1e-5):
                bad.append(f"own channel of user {k} is not turned into the identity")
        except Exception as ex:
            bad.append(f"full_W_H of user {k} cannot be evaluated: {type(ex).__name__}: {ex}")
    rp = np.ones(K) * np.asarray(s.P, dtype=float)
    if not np.allclose(rp, pw, rtol=1e-12, atol=0):
        bad.append(f"the solver reports P = {rp.tolist()}, it was given {list(pw)}")
    return bad


CONFIGS = [  # (Nr, Nt, K, Ns): non-square antennas, unequal stream counts, four users, two users
    (2, 3, 3, 1), (3, 2, 3, 1), (3, 4, 3, [2, 1, 1]), (4, 3, 3, [1, 2, 1]), (4, 4, 3, [2, 1, 2]), (3, 3, 4, 1),
    (2, 2, 2, 1), (3, 3, 2, [2, 1])]


def config_case(job):
    """solving completes and yields a valid solution on non-square / unequal-stream configurations"""
    alg, ci, seed = job
    np.random.seed(seed % (2 ** 31))          # random initialisations draw from numpy's global generator
    Nr, Nt, K, Ns = CONFIGS[ci]
    from pyphysim.channels.multiuser import MultiUserChannelMatrix
    ch = MultiUserChannelMatrix()
    ch.set_channel_seed(seed)
    ch.randomize(Nr, Nt, K)
    # without noise the MMSE solver loses its regularisation term; the max-SINR iteration is not defined then (the
    # interference-plus-noise covariance it inverts becomes singular as the interference aligns)
    ch.noise_var = None if (seed % 4 == 3 and alg != "MaxSINR") else 0.01
    s = solver_class(alg)(ch)
    seed_solver(s, seed)
    s.max_iterations = 40
    powers = 1.3 if seed % 2 == 0 else np.array([1.5, 0.7, 1.1, 2.0])[:K]
    try:
        s.solve(Ns if seed % 3 else (np.array(Ns) if not isinstance(Ns, int) else Ns), powers)
    except Exception as ex:
        return f"{alg}.solve(Ns={Ns}) on {K} users {Nr}x{Nt} raised {type(ex).__name__}: {ex}"
    bad = solution_defects(s, ch, alg, K, [Nr] * K, [Nt] * K, np.ones(K) * powers)
    return (f"{alg} on {K} users {Nr}x{Nt} Ns={Ns} P={powers}: " + "; ".join(bad)) if bad else None


def leak_multi_case(job):
    """(rel) leakage never increases from one iteration to the next, several (unequal) streams per user, equal powers,
    no noise; the solver is continued one iteration at a time from its own precoders"""
    alg, Nr, Ns, seed = job
    np.random.seed(seed % (2 ** 31))          # random initialisations draw from numpy's global generator
    from pyphysim.channels.multiuser import MultiUserChannelMatrix
    K = len(Ns)
    ch = MultiUserChannelMatrix()
    ch.set_channel_seed(seed)
    ch.randomize(Nr, Nr, K)
    s = solver_class(alg)(ch)
    seed_solver(s, seed)
    s.max_iterations = 1
    s.relative_factor = 0.0
    costs = []
    # equal powers: the default, a scalar, an equal vector (also a very small one)
    pw = (None, 1.7, np.full(K, 2.5), 1e-9)[seed % 4]
    args = (np.array(Ns),) if pw is None else (np.array(Ns), pw)
    try:
        s.solve(*args)
        costs.append(float(np.real(s.get_cost())))
        s.initialize_with = "fix"
        for _ in range(45):
            s.solve(*args)
            costs.append(float(np.real(s.get_cost())))
    except Exception as ex:
        return f"{alg} Ns={Ns}: continued solve raised {type(ex).__name__}: {ex}", costs
    floor = 1e-9 * max(costs[0], 1.0 if pw is None or np.max(pw) >= 1 else float(np.max(pw)))
    for i in range(len(costs) - 1):
        if costs[i + 1] > costs[i] + floor:
            return f"{alg} {Nr}x{Nr} Ns={Ns} P={pw} seed={seed}: leakage rose from {costs[i]:.8e} to {costs[i + 1]:.8e} at iteration {i + 2}", costs
    return None, costs


def greedy_case(job):
    """the stream-selection wrappers (greedy reduction, brute force over all stream combinations) leave the wrapped
    solver with a valid solution for the power they were given"""
    alg, seed = job[:2]
    wrapper = job[2] if len(job) > 2 else "greedy"
    np.random.seed(seed % (2 ** 31))          # random initialisations draw from numpy's global generator
    from pyphysim.channels.multiuser import MultiUserChannelMatrix
    from pyphysim.ia.algorithms import GreedStreamIASolver
    K, N = 3, 4
    ch = MultiUserChannelMatrix()
    ch.set_channel_seed(seed)
    ch.randomize(N, N, K)
    ch.noise_var = 1e-3 if seed % 2 else 0.1
    s = solver_class(alg)(ch)
    seed_solver(s, seed)
    s.max_iterations = 40 if wrapper == "greedy" else 10
    if seed % 3 == 0:
        s.initialize_with = "closed_form"
    powers = np.array([1.2, 1.5, 0.9]) if seed % 2 else 1.7
    if wrapper == "greedy":
        g = GreedStreamIASolver(s)
    else:
        from pyphysim.ia.algorithms import BruteForceStreamIASolver
        g = BruteForceStreamIASolver(s)
    name = "GreedStream" if wrapper == "greedy" else "BruteForceStream"
    try:
        g.solve(2, powers)
    except Exception as ex:
        return f"{name}({alg}).solve(2, {powers}) raised {type(ex).__name__}: {ex}"
    bad = solution_defects(s, ch, alg, K, [N] * K, [N] * K, np.ones(K) * powers)
    return (f"{name}({alg}) P={powers} seed={seed} (final Ns {list(s.Ns)}): " + "; ".join(bad)) if bad else None


def explore(ctx, alg, r, mode):
    ctx.account(r, MODULE, alg)
    edges = [{"pre": e["pre"], "post": e["post"], "ret": e["ret"], "req": e["req"]} for e in r.emitted]
    g = graph.Graph(edges, label=lambda e: graph.key(e["ret"]))
    root = g.roots()[0]
    rng = random.Random(ctx.seed + ALGS.index(alg))
    paths = g.transition_cover(root, max_len=9, rng=rng) if mode.get("cover", True) else []
    if mode.get("walks"):
        paths += g.random_walks(root, mode["walks"], mode.get("walk_len", 10), rng)
    jobs = [(alg, g.path_edges(p), ctx.seed * 7919 + i) for i, p in enumerate(paths)]
    res = pool_map(run_path, jobs, chunksize=max(1, len(jobs) // 64))
    for job, (okc, v) in zip(jobs, res):
        ctx.ok(n=okc)
        ctx.trace_done()
        if v:
            ctx.violation(f"{alg}: {v['what']} (step {v['step']} op {v['op']['op']}{v['op']['a']})",
                          {"kind": "path", "alg": alg, "path": job[1], "seed": job[2], "failing": v})
    for _, _, e in g.edges:
        ctx.distinct.add(alg + graph.key(e["pre"]) + graph.key(e["ret"]))
    ctx.sample({"alg": alg, "path": [e["ret"] for e in g.path_edges(paths[len(paths) // 2])]})


def model_devs(ctx):
    for dev in DEVS:
        cfg, defs = model("ClosedForm", dev=[dev], emit=False)
        r = tlc.run(MODULE, cfg, defs=defs)
        if not r.violated:
            raise tlc.TlcError(f"deviation {dev} is not detected by the invariants of IaSolver.tla")
        ctx.notes.setdefault("deviations_refuted_by_model", {})[dev] = r.violated


def run(ctx):
    ctx.rule = ("TLC enumerates the complete state graph of the derived-quantity machine per solver; replayed paths cover every "
                "transition on real solvers over seeded generic 3-user 2x2 channels; distinct = (abstract state, operation) pairs executed")
    ctx.assumptions += ["alignment numerics (unit norm, power, identity, nulling, leakage monotonicity) are evaluated numerically (rel), tolerance 1e-6",
                        "channels are generic (seeded complex Gaussian); K = 3, 2x2 antennas, one stream in the history machine",
                        "after a channel change the stored solution is only required to be valid again after the next solve()",
                        "the max-SINR solver is taken to be defined for a positive noise variance only (without noise the covariance it inverts becomes singular as the interference aligns)"]
    thorough = ctx.tier == "thorough"
    mode = {"walks": 1500, "walk_len": 12} if thorough else {"walks": 40, "walk_len": 9}
    with ThreadPoolExecutor(5) as ex:
        futs = [ex.submit(lambda a=a: tlc.run(MODULE, model(a)[0], defs=model(a)[1], coverage=True, timeout=1800)) for a in ALGS]
        devf = ex.submit(model_devs, ctx)
        runs = [f.result() for f in futs]
        devf.result()
    for alg, r in zip(ALGS, runs):
        # quick: every transition for the closed-form and the MMSE solver (their solve() differs most: no iteration /
        # power-scaled precoders are primary), seeded walks over the same graph for the other three
        m = dict(mode)
        if not thorough and alg in ("AltMin", "MinLeakage", "MaxSINR"):
            m.update(cover=False, walks=220, walk_len=10)
        explore(ctx, alg, r, m)
    ctx.require_actions(["Solve", "RandomizeF", "SetPrecoders", "SetFilters", "SetP", "SetPInvalid", "RejectedCall", "NewChannel",
                         "ReadFullF", "ReadWconv", "ReadFullWH", "ReadFullW", "IterStep", "Clear"])
    ctx.exhaustive = True
    # (rel) leakage never increases, feasible (K=3) and infeasible (K=4) configurations
    n = 40 if thorough else 6
    jobs = [(alg, K, 2, ctx.seed * 101 + i) for alg in ("AltMin", "MinLeakage") for K in (3, 4) for i in range(n)]
    for job, (d, costs) in zip(jobs, pool_map(leak_case, jobs)):
        ctx.ok(("leak",) + job)
        if d:
            ctx.violation(d, {"kind": "leak", "job": list(job), "costs": costs})
    # solvers complete for several streams per user
    jobs = [(alg, ctx.seed * 31 + i) for alg in ALGS for i in range(16 if thorough else 8)]
    for job, (d, fid) in zip(jobs, pool_map(multistream_case, jobs)):
        ctx.ok(("multistream",) + job)
        if d:
            if fid:
                ctx.finding(fid, d, {"kind": "multistream", "job": list(job)})
            else:
                ctx.violation(d, {"kind": "multistream", "job": list(job)})
    rel_cases(ctx)


def rel_cases(ctx):
    thorough = ctx.tier == "thorough"
    n = 8 if thorough else 3
    jobs = [(alg, ci, ctx.seed * 13 + i) for alg in ALGS if alg != "ClosedForm" for ci in range(len(CONFIGS)) for i in range(n)]
    for job, d in zip(jobs, pool_map(config_case, jobs)):
        ctx.ok(("config",) + job)
        if d:
            ctx.violation(d, {"kind": "config", "job": list(job)})
    jobs = [(alg, Nr, Ns, ctx.seed * 17 + i) for alg in ("AltMin", "MinLeakage") for Nr, Ns in ((4, [3, 2, 2]), (4, [3, 1, 1]), (4, [2, 1, 2, 1]), (6, [5, 3, 3]))
            for i in range(16 if thorough else 6)]
    for job, (d, costs) in zip(jobs, pool_map(leak_multi_case, jobs)):
        ctx.ok(("leakmulti", job[0], job[1], str(job[2]), job[3]))
        if d:
            ctx.violation(d, {"kind": "leakmulti", "job": list(job), "costs": costs})
    jobs = [(alg, ctx.seed * 19 + i, "greedy") for alg in ("AltMin", "MinLeakage", "MaxSINR", "MMSE") for i in range(12 if thorough else 6)]
    jobs += [(alg, ctx.seed * 23 + i, "brute") for alg in ("AltMin", "MinLeakage", "MaxSINR", "MMSE") for i in range(6 if thorough else 2)]
    for job, d in zip(jobs, pool_map(greedy_case, jobs)):
        ctx.ok(("greedy",) + job)
        if d:
            ctx.violation(d, {"kind": "greedy", "job": list(job)})


def replay(ctx, data):
    c = data["case"]
    ctx.ok()
    if c["kind"] == "config":
        d = config_case(tuple(c["job"]))
        if d:
            ctx.violation(d, c)
    elif c["kind"] == "leakmulti":
        d, costs = leak_multi_case(tuple(c["job"]))
        if d:
            ctx.violation(d, c)
    elif c["kind"] == "greedy":
        d = greedy_case(tuple(c["job"]))
        if d:
            ctx.violation(d, c)
    elif c["kind"] == "path":
        okc, v = run_path((c["alg"], c["path"], c["seed"]))
        if v:
            ctx.violation(v["what"], c)
    elif c["kind"] == "leak":
        d, costs = leak_case(tuple(c["job"]))
        if d:
            ctx.violation(d, c)
    else:
        d, fid = multistream_case(tuple(c["job"]))
        if d:
            ctx.finding(fid, d, c) if fid else ctx.violation(d, c)
