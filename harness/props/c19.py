"""C19 - cell geometry: containment, border points, cluster layouts, distance matrices, wrap-around,
Cell3Sec under setter calls, random placement (rel) and point processes (rel).

Stage M: TLC on spec/cell/Geometry.tla.  Every emission run carries all invariants (the laws of the
oracle and `machine = property`); for each named deviation TLC must FIND the violation; a small
run with -coverage shows that every action fires.
Stage R: every case TLC emitted (exact values in Q(sqrt3)) is executed on the real classes of
pyphysim.cell.shapes / pyphysim.cell.cell / pyphysim.pointprocess and compared (decisions exactly, numbers
with 1e-9).  The Cell3Sec machine is finite: its complete state graph is emitted and every transition
replayed (plus random walks).
Stage T: see c19_trace.py - decisions recorded from the real classes on random rational query points
(not on the half-integer grid) are validated by TLC against the same predicates.
(rel) sub-claims (random users, random points) are sequenced by TLC-emitted cases which carry the exact
polygon / radii; the outcome is judged with the specification's containment predicate evaluated in
floating point on those vertices - never with the library's own test."""
import math
import random
from concurrent.futures import ThreadPoolExecutor
from math import gcd

import numpy as np

from .. import tlc, graph
from ..core import pool_map

MODULE = "cell/Geometry.tla"
TOL = 1e-9
S3 = math.sqrt(3.0)
DEVS = ["RectangleContainmentIgnoresRotation", "BorderPointTwoNearestVertices", "RectanglePosSetterKeepsCorners",
        "LayoutSkipsCentring", "Sec3SetPosKeepsSectors", "Sec3SetRadiusKeepsCentres", "MoveBypassesPosSetter",
        "WrapUsersUseCachedTranslation", "CircleBorderZeroRatioIsOne", "ClusterPlaceAllDropsMinDist"]
PYTAB = [(4, 3, 5), (3, 4, 5), (5, 12, 13), (8, 15, 17), (7, 24, 25), (24, 7, 25)]     # as PyTab in Geometry.tla (sent back in every case)
INVS = ["TypeOK", "VertexLaws", "ContainmentAgrees", "ContainmentLaws", "ZAgreesWithQ", "BorderAgrees", "BorderLaws",
        "LayoutLaws", "ClusterRadiusLaws", "Sec3NoOverlap", "DistLaws", "WrapLaws", "MutFresh", "PlaceClLaws", "GenericAngleLaws", "SimilarityLaw"]
ACTIONS = ["Contain", "Border", "Layout", "DistMat", "Wrap", "MutNew", "MutSetPos", "MutMoveRel", "MutMovePolar", "MutSetRot",
           "MutSetRad", "MutAddUser", "MutDelUsers", "WrapSetPos", "WrapMoveRel", "WrapMovePolar", "WrapSetRaises",
           "Place", "PlaceCl", "PProc", "ContainG", "BorderG", "LayoutG"]
F_RECT = "RectangleContainmentIgnoresRotation"
F_BORDER = "BorderPointTwoNearestVertices"
F_MOVE = "RectanglePosSetterKeepsCorners"


# ----------------------------------------------------------------------------- Q(sqrt3) literals
def q(a, b=0, d=1):
    """(a + b sqrt3)/d in the normal form of QR3.tla"""
    if d < 0:
        a, b, d = -a, -b, -d
    g = gcd(gcd(abs(a), abs(b)), d)
    return (a // g, b // g, d // g)


Q0 = q(0)


def pt(x, y):
    return (x if isinstance(x, tuple) else q(x), y if isinstance(y, tuple) else q(y))


def qf(x):
    """the one trusted evaluation function: Q(sqrt3) -> float"""
    return (x[0] + x[1] * S3) / x[2]


# similarity applied to a whole case (SimilarityLaw of the specification): lengths * S, points * S + O.
# Set per replayed case (worker processes are single threaded); (1, 0) = the case as emitted.
_XF = [1.0, 0j]


def pc(p):
    return _XF[0] * complex(qf(p[0]), qf(p[1])) + _XF[1]


def ql(x):
    """a length of the case"""
    return _XF[0] * qf(x)


def rotf(c):
    """rotation of a case in degrees: a multiple of 30, plus a generic (Pythagorean) angle when the case has one"""
    if "g" not in c:
        return c["rot"]
    a, b, _ = c["py"]
    return c["rot"] + c["g"]["sgn"] * math.degrees(math.atan2(b, a))


def shape(kind, pos, r=Q0, w=Q0, h=Q0, rad=Q0, ipos=None):
    return dict(kind=kind, pos=pos, r=r, w=w, h=h, rad=rad, ipos=ipos or pos)


def cluster(type_, n, r, pos):
    return dict(type=type_, n=n, r=r, pos=pos)


P0 = pt(0, 0)
P1 = pt(q(1, 0, 2), -1)
P2 = pt(q(-3, 0, 4), q(1, 0, 2))
P3 = pt(q(0, 1, 2), q(1, 0, 4))  # irrational coordinate sqrt3/2
PFAR = pt(3, 2)


def model(ops, shapes=(), rots=(0,), G=4, clusters=(), crots=(0,), ucells=(1,), uangles=(0,), urel=(),
          mutalpha=None, rel=(), dev=(), emit=True, invariants=INVS, gens=()):
    mutalpha = mutalpha or malpha([MUT_BASE["Cell"]], pos=[P0], r=[q(1)], rot=[0])
    defs = {"Ops": tlc.tla(set(ops)), "Shapes": tlc.tla(list(shapes)), "Rots": tlc.tla(set(rots)),
            "Clusters": tlc.tla(list(clusters)), "CRots": tlc.tla(set(crots)), "UCells": tlc.tla(list(ucells)),
            "UAngles": tlc.tla(list(uangles)), "URel": tlc.tla(list(urel)), "MutAlpha": tlc.tla(mutalpha),
            "RelCases": tlc.tla(list(rel)), "Gens": tlc.tla(list(gens)), "Dev": tlc.tla({k: (k in dev) for k in DEVS})}
    cfg = tlc.cfg_text(constants={"G": str(G)}, defs=defs, invariants=invariants,
                       action_constraints=["Emit"] if emit else [], view="MutView" if "mut" in ops else None)
    return cfg, defs


# ----------------------------------------------------------------------------- domains per tier
def all_rots():
    return list(range(-720, 721, 30))


QUICK_ROTS = [0, 30, -300, 90, 480, -210, 180, -510, 240, -90, 660, -30, -720]


def shape_domain(thorough):
    sh = [
        shape("hex", P1, r=q(2), rad=q(2)),
        shape("hex", P0, r=q(3, 0, 2), rad=q(3, 0, 2)),
        shape("rect", P0, w=q(5, 0, 2), h=q(3, 0, 2)),
        shape("rect", P1, w=q(0, 2, 1), h=q(2), rad=q(2)),          # 2 sqrt3 x 2, radius 2
        shape("rect", P0, w=q(3), h=q(5, 0, 4), rad=q(13, 0, 8)),   # 12:5, radius 13/8
        shape("square", P0, w=q(5, 0, 2)),
        shape("square", P1, w=q(2)),
        shape("circle", pt(q(1, 0, 2), 0), r=q(7, 0, 4)),
        shape("circle", P0, r=q(2)),
        shape("sec3", P0, r=q(2)),
        shape("sec3", P1, r=q(3, 0, 2)),
        shape("wrap_hex", P1, r=q(3, 0, 2), ipos=PFAR),
        shape("wrap_square", P0, w=q(5, 0, 2), ipos=PFAR),
        shape("wrap_sec3", P0, r=q(2), ipos=PFAR),
    ]
    if thorough:
        sh += [
            shape("hex", P2, r=q(7, 0, 4), rad=q(7, 0, 4)),
            shape("hex", P3, r=q(1), rad=q(1)),
            shape("hex", P0, r=q(0, 1, 1), rad=q(0, 1, 1)),          # radius sqrt3
            shape("rect", P2, w=q(7, 0, 2), h=q(1)),
            shape("rect", P3, w=q(3, 0, 2), h=q(5, 0, 2)),           # taller than wide
            shape("rect", P0, w=q(4), h=q(3), rad=q(5, 0, 2)),
            shape("square", P2, w=q(7, 0, 4)),
            shape("square", P3, w=q(3)),
            shape("circle", P2, r=q(5, 0, 4)),
            shape("circle", P3, r=q(0, 1, 1)),
            shape("sec3", P2, r=q(7, 0, 4)),
            shape("sec3", P3, r=q(0, 1, 1)),
            shape("wrap_hex", P3, r=q(2), ipos=P2),
            shape("wrap_square", P2, w=q(3, 0, 2), ipos=P1),
            shape("wrap_sec3", P1, r=q(3, 0, 2), ipos=P2),
        ]
    return sh


def cluster_domain(thorough):
    cl = [cluster("simple", n, q(3, 0, 2), P1) for n in (1, 3, 4, 7, 13, 19)]
    cl += [cluster("square", n, q(3, 0, 2), P1) for n in (1, 4, 9)]
    cl += [cluster("3sec", n, q(3, 0, 2), P0) for n in (1, 3, 7, 19)]
    if thorough:
        cl += [cluster("simple", n, q(1), P2) for n in (1, 3, 4, 7, 13, 19)]
        cl += [cluster("simple", n, q(0, 1, 1), P0) for n in (3, 13)]
        cl += [cluster("square", 16, q(3, 0, 2), P1)] + [cluster("square", n, q(2), P2) for n in (1, 4, 9, 16)]
        cl += [cluster("3sec", n, q(3, 0, 2), P0) for n in (4, 13)] + [cluster("3sec", n, q(1), P1) for n in (1, 3, 4, 7, 13, 19)]
    return cl


def rel_domain(thorough, seed):
    users = 40 if thorough else 12
    rots = [0, 30, -60, 90, 210, -690] if thorough else [0, 30, -60, 210]
    ratios = [q(0), q(1, 0, 2), q(7, 0, 10)]
    cases = []
    # a minimum distance close to the radius: only a thin ring (the corners) is left for the rejection sampling
    thin = q(19, 0, 20)
    for rot in rots[:2]:
        cases.append(dict(what="place", s=shape("hex", P1, r=q(2)), rot=rot, ratio=thin, users=4, sector=0))
        cases.append(dict(what="place", s=shape("square", P0, w=q(5, 0, 2)), rot=rot, ratio=thin, users=4, sector=0))
        cases.append(dict(what="place", s=shape("sec3", P1, r=q(3, 0, 2)), rot=rot, ratio=thin, users=4, sector=0))
    for rot in rots:
        for ratio in ratios:
            cases.append(dict(what="place", s=shape("hex", P1, r=q(2)), rot=rot, ratio=ratio, users=users, sector=0))
            cases.append(dict(what="place", s=shape("square", P0, w=q(5, 0, 2)), rot=rot, ratio=ratio, users=users, sector=0))
            cases.append(dict(what="place", s=shape("sec3", P1, r=q(3, 0, 2)), rot=rot, ratio=ratio, users=users, sector=0))
        for sec in (1, 2, 3):
            cases.append(dict(what="place", s=shape("sec3", P1, r=q(3, 0, 2)), rot=rot, ratio=q(1, 0, 2), users=users, sector=sec))
    # cluster-level API: every way of writing the arguments, with non-zero minimum distances
    per = 6 if thorough else 4
    for ri, rot in enumerate(rots if thorough else rots[:2]):
        for t, n, some in (("simple", 7, [4, 1, 7]), ("square", 4, [3, 2]), ("3sec", 3, [2, 3])):
            cl = cluster(t, n, q(3, 0, 2), P1)
            every = list(range(1, n + 1))
            hi, lo = q(7, 0, 10), q(1, 0, 2)
            mixed = lambda m: [hi if k % 2 == 0 else lo for k in range(m)]
            cases += [
                dict(what="placecl", cl=cl, rot=rot, form="none_scalar", ids=every, nums=[per] * n, ratios=[hi] * n),
                dict(what="placecl", cl=cl, rot=rot, form="none_lists", ids=every, nums=[per + (k % 2) for k in range(n)], ratios=mixed(n)),
                dict(what="placecl", cl=cl, rot=rot, form="int", ids=some, nums=[per + k for k in range(len(some))], ratios=mixed(len(some))),
                dict(what="placecl", cl=cl, rot=rot, form="list_scalar", ids=some, nums=[per] * len(some), ratios=[hi] * len(some)),
                dict(what="placecl", cl=cl, rot=rot, form="list_scalar", ids=every, nums=[per] * n, ratios=[lo] * n),
                dict(what="placecl", cl=cl, rot=rot, form="list_lists", ids=some, nums=[per + 2 * k for k in range(len(some))], ratios=mixed(len(some))),
            ]
    for rmin in (q(0), q(1, 0, 2), q(1)):
        cases.append(dict(what="pproc", s=shape("circle", P0, r=q(2)), n=20 * users, rmin=rmin))
    cases.append(dict(what="pproc", s=shape("rect", P0, w=q(3), h=q(1)), n=20 * users, rmin=q(0)))
    cases.append(dict(what="pproc", s=shape("rect", P0, w=q(1, 0, 2), h=q(5)), n=20 * users, rmin=q(0)))
    return cases


# ----------------------------------------------------------------------------- float judge (rel)
def inside_f(verts, p, tol=1e-9):
    """the specification's containment predicate (winding number around the emitted vertices)
    evaluated in floating point; points within tol of the boundary count as inside"""
    n = len(verts)
    wn = 0
    for i in range(n):
        a, b = verts[i], verts[(i + 1) % n]
        e, w = b - a, p - a
        cr = e.real * w.imag - e.imag * w.real
        # distance to the segment
        t = (w.real * e.real + w.imag * e.imag) / (abs(e) ** 2)
        t = min(1.0, max(0.0, t))
        if abs(p - (a + t * e)) <= tol:
            return True
        if a.imag <= p.imag:
            if b.imag > p.imag and cr > 0:
                wn += 1
        elif b.imag <= p.imag and cr < 0:
            wn -= 1
    return wn != 0


def close(a, b):
    return abs(a - b) <= TOL * max(min(1.0, _XF[0]), abs(b))


# ----------------------------------------------------------------------------- building real objects
def build(s, rot):
    """the real objects for a shape record (for rotation 0 also built with the rotation argument omitted)"""
    from pyphysim.cell import shapes, cell
    k = s["kind"]
    pos = pc(s["pos"])
    dflt = isinstance(rot, int) and rot == 0
    if k == "hex":
        return [shapes.Hexagon(pos, ql(s["r"]), rot), cell.Cell(pos, ql(s["r"]), None, rot)] + \
               ([shapes.Hexagon(pos, ql(s["r"])), cell.Cell(pos, ql(s["r"]))] if dflt else [])
    if k == "rect":
        hw, hh = ql(s["w"]) / 2, ql(s["h"]) / 2
        return [shapes.Rectangle(pos - complex(hw, hh), pos + complex(hw, hh), rot),
                shapes.Rectangle(pos + complex(hw, -hh), pos + complex(-hw, hh), rot)] + \
               ([shapes.Rectangle(pos - complex(hw, hh), pos + complex(hw, hh))] if dflt else [])   # the other diagonal
    if k == "square":
        return ([cell.CellSquare(pos, ql(s["w"]))] if dflt else []) + [cell.CellSquare(pos, ql(s["w"]), None, rot)]
    if k == "circle":
        return [shapes.Circle(pos, ql(s["r"]))]
    if k == "sec3":
        return ([cell.Cell3Sec(pos, ql(s["r"]))] if dflt else []) + [cell.Cell3Sec(pos, ql(s["r"]), None, rot)]
    ipos = pc(s["ipos"])
    if k == "wrap_hex":
        return [cell.CellWrap(pos, cell.Cell(ipos, ql(s["r"]), 1, rot))]
    if k == "wrap_square":
        return [cell.CellWrap(pos, cell.CellSquare(ipos, ql(s["w"]), 1, rot))]
    if k == "wrap_sec3":
        return [cell.CellWrap(pos, cell.Cell3Sec(ipos, ql(s["r"]), 1, rot))]
    raise ValueError(k)


def build_cluster(cl, rot, cid=None):
    from pyphysim.cell import cell
    return cell.Cluster(cell_radius=ql(cl["r"]), num_cells=cl["n"], pos=pc(cl["pos"]), cluster_id=cid,
                        cell_type=cl["type"], rotation=rot)


def verts_equal(obj, verts):
    v = np.asarray(obj.vertices)
    want = np.array([pc(p) for p in verts])
    return v.shape == want.shape and np.all(np.abs(v - want) <= TOL * np.maximum(min(1.0, _XF[0]), np.abs(want)))


def non_axis(s, rot):
    k = s["kind"]
    return (k == "square" and rot % 90 != 0) or (k == "rect" and rot % 180 != 0 and not (rot % 90 == 0 and s["w"] == s["h"]))


# ----------------------------------------------------------------------------- replay of one case
def bad(what, fid=None):
    return {"what": what, "fid": fid}


class _Hang(Exception):
    pass


def _guarded(fn, arg, seconds=30):
    """run fn(arg) in this (worker) process, but give up after `seconds`: rejection sampling in the library
    loops for ever when the cell polygon and the sampling box do not meet (seen with mutants)"""
    import signal

    def on_alarm(signum, frame):
        raise _Hang()
    # (processor time of this worker, not wall-clock time: a busy machine must not look like a loop that never ends)
    from ..core import preload
    preload()                       # imports are not part of the call under test (see core.preload)
    old = signal.signal(signal.SIGPROF, on_alarm)
    signal.setitimer(signal.ITIMER_PROF, max(seconds, 120))
    try:
        try:
            return fn(arg)
        except _Hang:
            # a call that never returns does so every time: the verdict needs the watchdog to fire twice
            signal.setitimer(signal.ITIMER_PROF, max(seconds, 120))
            return fn(arg)
    finally:
        signal.setitimer(signal.ITIMER_PROF, 0)
        signal.signal(signal.SIGPROF, old)


def run_case(job):
    """job = (edge, seed) -> (n_ok, [problems]); a problem = {'what', 'fid'}"""
    try:
        return _guarded(_run_case, job)
    except _Hang:
        c = job[0]["post"]
        return 0, [bad(f"{c['op']} {c.get('s', c.get('cl'))} rotation {c.get('rot')}: the call did not return within 120 s of processor time "
                       f"(rejection sampling never finds a point inside the cell)")]


def _run_case(job):
    e, seed = job
    op = e["post"]["op"]
    _XF[:] = [2.0 ** e["xf"][0], complex(e["xf"][1], e["xf"][2])] if e.get("xf") else [1.0, 0j]
    try:
        return _run_case2(e, seed, op)
    finally:
        _XF[:] = [1.0, 0j]


def _run_case2(e, seed, op):
    try:
        return {"contain": rc_contain, "border": rc_border, "layout": rc_layout,
                "containg": rc_contain, "borderg": rc_border, "layoutg": rc_layout, "distmat": rc_distmat, "wrap": rc_wrap,
                "place": rc_place, "placecl": rc_placecl, "pproc": rc_pproc}[op](e, seed)
    except _Hang:
        raise
    except Exception as ex:  # a library call raised on a legal input
        import traceback
        tb = traceback.extract_tb(ex.__traceback__)[-1]
        return 0, [bad(f"{op}: raised {type(ex).__name__}: {ex} ({tb.filename.split('/')[-1]}:{tb.lineno})")]


def rc_contain(e, seed):
    from pyphysim.cell import cell
    c, out = e["post"], e["out"]
    s, rot = c["s"], rotf(c)
    g = int(round((math.sqrt(len(out["res"])) - 1) / 2))
    gw = 2 * g + 1
    okc, probs = 0, []

    def gp(n):
        return _XF[0] * complex((n // gw - g) / 2.0, (n % gw - g) / 2.0) + _XF[1]
    for obj in build(s, rot):
        name = type(obj).__name__
        if not verts_equal(obj, out["verts"]):
            probs.append(bad(f"{name}{_sig(s, rot)}: vertices differ from the documented construction"))
            continue
        okc += 1
        wrong, wrong_dev = [], []
        for n, code in enumerate(out["res"]):
            if code == 2:
                continue
            p = gp(n)
            got = bool(obj.is_point_inside_shape(p))
            if got == (code == 1):
                okc += 1
            elif out.get("dev") and got == (out["dev"][n] == 1) and non_axis(s, rot):
                wrong_dev.append(p)
            else:
                wrong.append((p, got))
        if wrong:
            p, got = wrong[0]
            probs.append(bad(f"{name}{_sig(s, rot)}.is_point_inside_shape({p}) = {got}, the polygon of its own "
                             f"vertices says {not got} ({len(wrong)} such points)"))
        if wrong_dev:
            probs.append(bad(f"{name}{_sig(s, rot)}.is_point_inside_shape({wrong_dev[0]}) ignores the rotation "
                             f"({len(wrong_dev)} such points)", F_RECT))
        # the same decision through CellBase.add_user (absolute position): ValueError iff outside
        if isinstance(obj, cell.CellBase) and not isinstance(obj, cell.CellWrap) and not wrong and not wrong_dev:
            for n, code in enumerate(out["res"]):
                if code == 2 or n % 3:
                    continue
                p = gp(n)
                before = obj.num_users
                try:
                    obj.add_user(cell.Node(p), relative_pos_bool=False)
                    accepted = True
                except ValueError:
                    accepted = False
                if accepted != (code == 1) or obj.num_users != before + int(accepted):
                    probs.append(bad(f"{name}{_sig(s, rot)}.add_user(Node({p})) accepted={accepted}, expected {code == 1}"))
                    break
                okc += 1
    return okc, probs


def _sig(s, rot):
    k = s["kind"]
    d = {"pos": pc(s["pos"])}
    if k in ("rect",):
        d.update(w=round(ql(s["w"]), 9), h=round(ql(s["h"]), 9))
    elif "square" in k:
        d.update(side=ql(s["w"]))
    else:
        d.update(r=round(ql(s["r"]), 9))
    d["rot"] = rot
    return "(" + ", ".join(f"{a}={b}" for a, b in d.items()) + ")"


def _ratio_forms(name):
    """the Python values a ratio can be written as (boundary values of the argument included)"""
    if name == "zero":
        return [0, 0.0, np.float64(0.0), -0.0]      # (no float32: it would lower the precision of the result)
    if name == "one":
        return [None, 1, 1.0, np.float64(1.0)]
    if name == "half":
        return [0.5, np.float64(0.5)]
    return [1.0 / 1024, np.float64(1.0 / 1024)]


def rc_border(e, seed):
    from pyphysim.cell import cell
    c, out = e["post"], e["out"]
    s, rot = c["s"], rotf(c)
    okc, probs = 0, []
    nonsq = s["kind"] == "rect" and s["w"] != s["h"]
    ctr = pc(s["pos"])
    # generic directions: 30 k + the angle of the case's second Pythagorean triple
    dth = c["gd"]["sgn"] * math.degrees(math.atan2(c["pyd"][1], c["pyd"][0])) if "gd" in c else 0
    for obj in build(s, rot):
        name = type(obj).__name__
        if not verts_equal(obj, out["verts"]):
            probs.append(bad(f"{name}{_sig(s, rot)}: vertices differ from the documented construction"))
            continue
        wrong = []
        for k in range(12):
            # the same direction written with different numbers of full turns, as int / float / numpy scalar
            base = 30 * k + dth
            angles = [base, float(base), base + 360.0, base - 360, np.float64(base + 720), base - 720.0]
            want = {"one": pc(out["bp"][k]), "half": pc(out["half"][k]), "zero": pc(out["zero"][k]), "tiny": pc(out["tiny"][k])}
            for j, rname in enumerate(("one", "half", "zero", "tiny")):
                forms = _ratio_forms(rname)
                # every angle form with one ratio form, every ratio form with one angle form
                pairs = [(a, forms[(k + i) % len(forms)]) for i, a in enumerate(angles)] + \
                        [(angles[(k + j) % len(angles)], f) for f in forms]
                for ang, ratio in pairs:
                    got = obj.get_border_point(ang) if ratio is None else obj.get_border_point(ang, ratio)
                    if close(complex(got), want[rname]):
                        okc += 1
                    else:
                        wrong.append((ang, ratio, complex(got), want[rname]))
            # a ratio far below the tolerance scale: linear between the centre and the TLC-emitted border point
            got = complex(obj.get_border_point(base, 1e-9))
            if abs(got - (ctr + 1e-9 * (want["one"] - ctr))) > 1e-12 * max(min(1.0, _XF[0]), abs(ctr)):
                wrong.append((base, 1e-9, got, ctr + 1e-9 * (want["one"] - ctr)))
        if wrong:
            a, r, got, want_ = wrong[0]
            probs.append(bad(f"{name}{_sig(s, rot)}.get_border_point({a!r}, {r!r}) = {got:.6f}, the boundary point in that "
                             f"direction scaled by the ratio is {want_:.6f} ({len(wrong)} such calls)", F_BORDER if nonsq else None))
            continue
        if isinstance(obj, cell.CellBase) and not isinstance(obj, cell.CellWrap):
            obj.add_border_user([30.0 * k + dth for k in range(12)], 0.5)
            obj.add_border_user([30 * k + dth for k in range(12)], [0.0] * 6 + [1.0 / 1024] * 6)
            obj.add_border_user(30.0 * 5 + dth, None)
            got = [u.pos for u in obj.users]
            want = [pc(w) for w in out["half"]] + [pc(w) for w in out["zero"][:6]] + [pc(w) for w in out["tiny"][6:]] + [pc(out["bp"][5])]
            if len(got) != len(want) or not all(close(g, w) for g, w in zip(got, want)):
                probs.append(bad(f"{name}{_sig(s, rot)}.add_border_user(angles, ratios): users are not at the scaled border points"))
            else:
                okc += len(want)
    return okc, probs


def rc_layout(e, seed):
    c, out = e["post"], e["out"]
    cl, rot = c["cl"], rotf(c)
    sig = f"Cluster(r={ql(cl['r'])}, n={cl['n']}, pos={pc(cl['pos'])}, type={cl['type']}, rotation={rot})"
    S2 = _XF[0] ** 2
    C = build_cluster(cl, rot, 5)
    probs = []
    cells = list(C)
    if len(cells) != cl["n"] or C.num_cells != cl["n"]:
        return 0, [bad(f"{sig}: {len(cells)} cells")]
    for k, (cellobj, want) in enumerate(zip(cells, out["cells"])):
        if not close(cellobj.pos, pc(want)):
            probs.append(bad(f"{sig}: cell {k + 1} is at {cellobj.pos:.6f}, layout demands {pc(want):.6f}"))
            break
        if cellobj.rotation != rot or cellobj.id != k + 1 or C.get_cell_by_id(k + 1) is not cellobj:
            probs.append(bad(f"{sig}: cell {k + 1} has rotation {cellobj.rotation} / id {cellobj.id}"))
            break
        if not close(cellobj.radius ** 2 / S2, qf(out["rad2"])):
            probs.append(bad(f"{sig}: cell {k + 1} has radius {cellobj.radius}, not congruent with the requested size"))
            break
    if not probs:
        if not verts_equal(cells[0], out["vfirst"]) or not verts_equal(cells[-1], out["vlast"]):
            probs.append(bad(f"{sig}: vertices of the first/last cell differ (cells not congruent / wrongly rotated)"))
        if not close(C.pos, pc(cl["pos"])) or C.rotation != rot:
            probs.append(bad(f"{sig}: cluster reports pos {C.pos} rotation {C.rotation}"))
        if "ext2" in out and not close(C.external_radius ** 2 / S2, qf(out["ext2"])):
            probs.append(bad(f"{sig}: external_radius {C.external_radius} is not the radius of the smallest circle "
                             f"around the cluster position that contains every cell ({_XF[0] * math.sqrt(qf(out['ext2']))})"))
        if "crad2" in out and cl["type"] != "square" and not close(C.radius ** 2 / S2, qf(out["crad2"])):
            probs.append(bad(f"{sig}: cluster radius {C.radius} is not half the distance between neighbouring "
                             f"clusters ({_XF[0] * math.sqrt(qf(out['crad2']))})"))
    if not probs and rot == 0:
        probs += _cluster_defaults(cl, C, sig)
    return (0 if probs else cl["n"] + 2), probs


def _cluster_defaults(cl, C, sig):
    """rotation 0: the same cluster built with the rotation argument omitted, and the positions helper with its
    default rotation=None (private static method, skipped when absent), must give the same cells"""
    from pyphysim.cell import cell
    D = cell.Cluster(ql(cl["r"]), cl["n"], pc(cl["pos"]), cell_type=cl["type"])
    if not np.allclose([x.pos for x in D], [x.pos for x in C], rtol=0, atol=TOL * min(1.0, _XF[0])) or \
            not all(np.allclose(a.vertices, b.vertices, rtol=0, atol=TOL * max(min(1.0, _XF[0]), abs(C.pos))) for a, b in zip(D, C)):
        return [bad(f"{sig}: built without the rotation argument the cluster differs from rotation=0")]
    f = getattr(cell.Cluster, "_calc_cell_positions", None)
    if f is not None:
        P = f(ql(cl["r"]), cl["n"], cl["type"])
        if not np.allclose(P[:, 0] + C.pos, [x.pos for x in C], rtol=0, atol=TOL * max(min(1.0, _XF[0]), abs(C.pos))) or np.any(P[:, 1] != 0):
            return [bad(f"{sig}: _calc_cell_positions with rotation=None differs from rotation=0")]
    return []


def _matrices_ok(C, centres, sig, when):
    """both distance-matrix methods against |user - centre| for the users the cluster has NOW (positions already
    judged) and the TLC-emitted cell centres; also after deleting the users of one cell"""
    ctr = np.array([pc(p) for p in centres])
    for step in ("", " after delete_all_users(first cell with users)"):
        us = np.array([u.pos for u in C.get_all_users()], dtype=complex)
        want = np.abs(us[:, None] - ctr[None, :])
        for name in ("calc_dist_all_users_to_each_cell", "calc_dist_all_users_to_each_cell_no_wrap_around"):
            D = np.asarray(getattr(C, name)())
            if D.shape != want.shape or not np.allclose(D, want, rtol=TOL, atol=TOL):
                return [bad(f"{sig}.{name}() {when}{step}: shape {D.shape}, expected the {want.shape} matrix of Euclidean "
                            f"user-to-cell distances")]
        first = next((k for k, x in enumerate(C, start=1) if x.num_users), None)
        if first is None:
            break
        C.delete_all_users(first)
    return []


def rc_distmat(e, seed):
    from pyphysim.cell import cell
    c, out = e["post"], e["out"]
    cl, rot, ids = c["cl"], c["rot"], c["ids"]
    sig = f"Cluster(r={qf(cl['r'])}, n={cl['n']}, pos={pc(cl['pos'])}, type={cl['type']}, rotation={rot})"
    C = build_cluster(cl, rot)
    per = c["per"]
    want_users = [pc(u) for u in out["users"]]
    if cl["type"] == "3sec":
        # relative coordinates (units of the cell radius) through add_user
        for qi, cid in enumerate(ids):
            ctr = pc(out["cells"][cid - 1])
            for u in range(per):
                rel = (want_users[qi * per + u] - ctr) / qf(cl["r"])
                C.get_cell_by_id(cid).add_user(cell.Node(rel))
    else:
        # which directions: recover k from the emitted constants is not needed - the case carries them
        angs = [30.0 * k for k in e["uangles"]]
        if len(ids) == 1:
            C.add_border_users(ids[0], angs, 0.5)
        else:
            C.add_border_users(ids, [angs] * len(ids), 0.5)
    users = C.get_all_users()
    if len(users) != len(want_users) or C.num_users != len(want_users):
        return 0, [bad(f"{sig}: {len(users)} users after adding {len(want_users)}")]
    for u, w in zip(users, want_users):
        if not close(u.pos, w):
            return 0, [bad(f"{sig}: user at {u.pos:.6f}, expected {w:.6f}", None)]
    want = np.array([[qf(x) for x in row] for row in out["d2"]]) if out["d2"] else np.zeros((0, cl["n"]))
    probs = []
    for name in ("calc_dist_all_users_to_each_cell", "calc_dist_all_users_to_each_cell_no_wrap_around"):
        D = np.asarray(getattr(C, name)())
        if D.shape != want.shape or not np.all(np.abs(D ** 2 - want) <= TOL * np.maximum(1.0, want)):
            probs.append(bad(f"{sig}.{name}(): not the Euclidean user-to-cell distances"))
    return (0 if probs else 2 * want.size), probs


def rc_wrap(e, seed):
    c, out = e["post"], e["out"]
    cl, rot = c["cl"], c["rot"]
    sig = f"Cluster(r={qf(cl['r'])}, n=19, pos={pc(cl['pos'])}, type={cl['type']}, rotation={rot})"
    C = build_cluster(cl, rot)
    np.random.seed(seed)
    C.add_random_users([1, 8, 19], 2)
    C.create_wrap_around_cells(include_users_bool=True)
    W = getattr(C, "_wrapped_cells", None)
    if W is None:  # private attribute gone: nothing to observe (not a failure)
        return 0, []
    got = []
    probs = []
    for key, w in W.items():
        wid = int(key[4:].split("_")[0])
        got.append((wid, complex(w.pos)))
        orig = C.get_cell_by_id(wid)
        shift = w.pos - orig.pos
        if not np.allclose(np.asarray(w.vertices), np.asarray(orig.vertices) + shift, rtol=0, atol=TOL) \
                or w.radius != orig.radius or w.rotation != orig.rotation:
            probs.append(bad(f"{sig}: wrapped cell {key} is not a translate of cell {wid}"))
            break
        if [u.pos for u in w.users] and not np.allclose([u.pos for u in w.users], [u.pos + shift for u in orig.users], rtol=0, atol=TOL):
            probs.append(bad(f"{sig}: users of wrapped cell {key} are not the users of cell {wid} moved along"))
            break

    # the wraps are live views: move an original cell (with users) in each of the three ways and read its wraps
    if not probs:
        for cid, how in ((1, "pos"), (8, "rel"), (19, "polar")):
            orig = C.get_cell_by_id(cid)
            before = orig.pos
            if how == "pos":
                orig.pos = orig.pos + (0.25 - 0.5j)
            elif how == "rel":
                orig.move_by_relative_coordinate(-0.5 + 0.125j)
            else:
                orig.move_by_relative_polar_coordinate(0.5, math.pi / 3)
            rel = [u.pos - orig.pos for u in orig.users]
            for key, w in W.items():
                if int(key[4:].split("_")[0]) != cid:
                    continue
                grel = [u.pos - w.pos for u in w.users]
                if len(grel) != len(rel) or not np.allclose(grel, rel, rtol=0, atol=TOL):
                    probs.append(bad(f"{sig}: after moving cell {cid} ({how}) the users shown by its wrapped copy {key} are not "
                                     f"the cell's users moved to the wrap"))
                    break
                if not np.allclose(np.asarray(w.vertices) - w.pos, np.asarray(orig.vertices) - orig.pos, rtol=0, atol=TOL):
                    probs.append(bad(f"{sig}: after moving cell {cid} the polygon of its wrapped copy {key} changed shape"))
                    break
            if how == "pos":
                orig.pos = before
            else:
                orig.move_by_relative_coordinate(before - orig.pos)
            if probs:
                break

    def key_of(i, p):
        return (i, round(p.real, 6) + 0.0, round(p.imag, 6) + 0.0)
    if not probs:
        probs += _matrices_ok(C, out["cells"], sig, "after create_wrap_around_cells(include_users_bool=True)")
    gs = sorted(key_of(i, p) for i, p in got)
    match = None
    for name in ("w1", "w2"):
        ws = sorted(key_of(w["id"], pc(w["p"])) for w in out[name])
        if gs == ws:
            match = name
    if match is None and not probs:
        probs.append(bad(f"{sig}.create_wrap_around_cells(): the {len(got)} wrapped cells are not the neighbouring copies "
                         f"of the cluster under either tiling"))
    return (0 if probs else len(got)), probs


def _judge_users(sig, users, verts, ctr, ratio, rad, want, kind, rot):
    """(rel) the randomly placed users of one cell against the TLC-emitted polygon / centre / radius"""
    if len(users) != want:
        return [bad(f"{sig}: {len(users)} users instead of {want}")]
    outside = [u.pos for u in users if not inside_f(verts, u.pos)]
    near = [u.pos for u in users if abs(u.pos - ctr) < ratio * rad - TOL]
    probs = []
    if outside:
        fid = F_RECT if (kind == "square" and rot % 90 != 0) else None
        probs.append(bad(f"{sig}: {len(outside)} of {len(users)} users lie outside the cell, e.g. {outside[0]:.4f}", fid))
    if near:
        probs.append(bad(f"{sig}: {len(near)} of {len(users)} users are closer to the centre than min_dist_ratio={ratio} "
                         f"allows, e.g. {near[0]:.4f} at {abs(near[0] - ctr) / rad:.3f} radius"))
    return probs


def _ids_form(ids, variant):
    """the same ids as list / tuple / numpy array / range (when contiguous)"""
    if variant % 4 == 1:
        return tuple(ids)
    if variant % 4 == 2:
        return np.array(ids)
    if variant % 4 == 3 and ids == list(range(ids[0], ids[0] + len(ids))):
        return range(ids[0], ids[0] + len(ids))
    return list(ids)


def rc_placecl(e, seed):
    """Cluster.add_random_users in the argument form of the case; every cell of the cluster is judged"""
    c, out = e["post"], e["out"]
    cl, rot, form = c["cl"], c["rot"], c["form"]
    ids, nums, ratios = c["ids"], c["nums"], [qf(r) for r in c["ratios"]]
    rad = math.sqrt(qf(out["rad2"]))
    kind = {"simple": "hex", "3sec": "sec3", "square": "square"}[cl["type"]]
    np.random.seed(seed)
    C = build_cluster(cl, rot)
    variant = seed % 8
    color = [None, "b", None, "g"][variant % 4]                 # a scalar colour or none
    colors = [["b", "g", "k"][k % 3] for k in range(len(ids))]     # per-cell colours
    want_color = {}
    if form == "none_scalar":
        if variant % 2 == 0:
            C.add_random_users(None, nums[0], color, ratios[0])
        elif color is None:
            C.add_random_users(num_users=nums[0], min_dist_ratio=ratios[0])
        else:
            C.add_random_users(num_users=nums[0], user_color=color, min_dist_ratio=ratios[0])
        call = f"add_random_users(cell_ids omitted, num_users={nums[0]}, user_color={color!r}, min_dist_ratio={ratios[0]})"
        want_color = {i: color for i in ids}
    elif form == "none_lists":
        cols = colors if variant % 2 == 0 else None
        C.add_random_users(None, list(nums), cols, list(ratios))
        call = f"add_random_users(None, {nums}, {cols}, {ratios})"
        want_color = {i: (cols[k] if cols else None) for k, i in enumerate(ids)}
    elif form == "int":
        for k, i in enumerate(ids):
            C.add_random_users(i, nums[k], color, float(ratios[k]))
        call = f"add_random_users(<int id>, n, {color!r}, ratio) for ids {ids}, n {nums}, ratios {ratios}"
        want_color = {i: color for i in ids}
    elif form == "list_scalar":
        C.add_random_users(_ids_form(ids, variant), nums[0], color, ratios[0])
        call = f"add_random_users({_ids_form(ids, variant)!r}, {nums[0]}, {color!r}, {ratios[0]})"
        want_color = {i: color for i in ids}
    elif form == "list_lists":
        cols = colors if variant % 2 == 0 else color
        # (numbers of users must be Python ints - the library asserts it; ratios may be numpy floats)
        C.add_random_users(_ids_form(ids, variant), list(nums), cols,
                           np.array(ratios) if variant % 3 == 1 else list(ratios))
        call = f"add_random_users({_ids_form(ids, variant)!r}, {nums}, {cols!r}, {ratios})"
        want_color = {i: (cols[k] if isinstance(cols, list) else cols) for k, i in enumerate(ids)}
    else:
        raise ValueError(form)
    sig0 = f"Cluster(type={cl['type']}, n={cl['n']}, rotation={rot}).{call}"
    okc, probs = 0, []
    total = 0
    for k, exp in enumerate(out["cells"], start=1):
        cellobj = C.get_cell_by_id(k)
        users = cellobj.users
        total += len(users)
        p = _judge_users(f"{sig0}: cell {k}", users, [pc(v) for v in exp["verts"]], pc(exp["centre"]), qf(exp["ratio"]), rad,
                         exp["count"], kind, rot)
        if not p and want_color.get(k) is not None and any(u.marker_color != want_color[k] for u in users):
            p = [bad(f"{sig0}: cell {k}: users do not carry the requested colour {want_color[k]!r}")]
        if not p and any(u.cell_id != k for u in users):
            p = [bad(f"{sig0}: cell {k}: users do not carry the id of their cell")]
        probs += p[:1]
        okc += len(users)
    if not probs and (C.num_users != total or len(C.get_all_users()) != total):
        probs.append(bad(f"{sig0}: num_users / get_all_users disagree with the cells"))
    if not probs:
        probs += _matrices_ok(C, [x["centre"] for x in out["cells"]], sig0, "with the randomly placed users")
    return (0 if probs else okc), probs[:2]


def rc_place(e, seed):
    c, out = e["post"], e["out"]
    verts = [pc(p) for p in out["verts"]]
    ctr = pc(out["centre"])
    ratio = qf(c["ratio"])
    rad = math.sqrt(qf(out["rad2"]))
    np.random.seed(seed)
    s, rot = c["s"], c["rot"]
    obj = build(s, rot)[-1]
    kind = s["kind"]
    kw = seed % 2 == 1          # the same call written with positional / keyword arguments
    if c["sector"]:
        if kw:
            obj.add_random_users_in_sector(num_users=c["users"] - 1, sector=c["sector"], min_dist_ratio=ratio)
            obj.add_random_user_in_sector(sector=c["sector"], min_dist_ratio=ratio)
        else:
            obj.add_random_users_in_sector(c["users"] - 1, c["sector"], None, ratio)
            obj.add_random_user_in_sector(c["sector"], None, ratio)
        sig = f"Cell3Sec{_sig(s, rot)}.add_random_user(s)_in_sector(sector={c['sector']}, min_dist_ratio={ratio})"
    else:
        if kw:
            obj.add_random_user(min_dist_ratio=ratio)
            obj.add_random_users(num_users=c["users"] - 1, min_dist_ratio=ratio)
        else:
            obj.add_random_user(None, ratio)
            obj.add_random_users(c["users"] - 1, "g", ratio)
        sig = f"{type(obj).__name__}{_sig(s, rot)}.add_random_user(s)(min_dist_ratio={ratio}, {'keyword' if kw else 'positional'} arguments)"
    probs = _judge_users(sig, obj.users, verts, ctr, ratio, rad, c["users"], kind, rot)
    return (0 if probs else len(obj.users)), probs


def rc_pproc(e, seed):
    from pyphysim.pointprocess import pointprocess
    c, out = e["post"], e["out"]
    s = c["s"]
    np.random.seed(seed)
    if s["kind"] == "circle":
        rmax, rmin = qf(s["r"]), qf(c["rmin"])
        pts = np.asarray(pointprocess.generate_random_points_in_circle(c["n"], rmax, rmin))
        d2 = np.abs(pts) ** 2
        okk = pts.shape == (c["n"],) and np.all(d2 <= qf(out["rad2"]) + TOL) and np.all(d2 >= qf(out["rmin2"]) - TOL)
        sig = f"generate_random_points_in_circle({c['n']}, {rmax}, {rmin})"
    else:
        w, h = qf(s["w"]), qf(s["h"])
        pts = np.asarray(pointprocess.generate_random_points_in_rectangle(c["n"], w, h))
        verts = [pc(p) for p in out["verts"]]
        okk = pts.shape == (c["n"],) and all(inside_f(verts, complex(p)) for p in pts)
        # both coordinates must actually vary over the rectangle (a swapped width/height shows here)
        okk = okk and (pts.real.max() - pts.real.min()) > 0.5 * w and (pts.imag.max() - pts.imag.min()) > 0.5 * h
        sig = f"generate_random_points_in_rectangle({c['n']}, {w}, {h})"
    if not okk:
        return 0, [bad(f"{sig}: points outside the requested region (or not spread over it)")]
    return c["n"], []


# ----------------------------------------------------------------------------- object machine
def _mk(kind, cls, w=Q0, h=Q0, cell=False, wrap=False):
    return dict(kind=kind, cls=cls, w=w, h=h, cell=cell, wrap=wrap)


MUT_BASE = {
    "Node": _mk("node", "Node"),
    "Hexagon": _mk("hex", "Hexagon"),
    "Cell": _mk("hex", "Cell", cell=True),
    "CellSquare": _mk("square", "CellSquare", w=q(5, 0, 2), cell=True),
    "Rectangle": _mk("rect", "Rectangle", w=q(5, 0, 2), h=q(3, 0, 2)),
    "Circle": _mk("circle", "Circle"),
    "Cell3Sec": _mk("sec3", "Cell3Sec", cell=True),
    "Cluster": _mk("cluster", "Cluster"),
    "Wrap(Cell)": _mk("hex", "Cell", cell=True, wrap=True),
    "Wrap(CellSquare)": _mk("square", "CellSquare", w=q(5, 0, 2), cell=True, wrap=True),
    "Wrap(Cell3Sec)": _mk("sec3", "Cell3Sec", cell=True, wrap=True),
}
PA = P0
PB = pt(q(1, 0, 2), q(0, 1, 2))      # PA + cis(60 degrees): reachable from PA by a polar move
PC = P1
WA = pt(3, 2)
WB = pt(q(7, 0, 2), q(4, 1, 2))      # WA + cis(60 degrees)
OFFS = [pt(q(1, 0, 4), q(1, 0, 8)), pt(q(-1, 0, 8), q(-1, 0, 4))]
POLAR = [dict(rho=q(1), k=2), dict(rho=q(1), k=8)]


def malpha(base, pos=(PA, PB, PC), r=(q(3, 0, 2), q(2)), rot=(0, 30, -90), wpos=(), off=OFFS, polar=POLAR):
    return dict(base=list(base), pos=list(pos), r=list(r), rot=list(rot), wpos=list(wpos), off=list(off), polar=list(polar))


def _mut_new(alpha, call):
    from pyphysim.cell import shapes, cell
    b = alpha["base"][call[1] - 1]
    pos, r, rot = pc(alpha["pos"][call[2] - 1]), qf(alpha["r"][call[3] - 1]), alpha["rot"][call[4] - 1]
    cls = b["cls"]
    if cls == "Node":
        obj = cell.Node(pos)
    elif cls == "Hexagon":
        obj = shapes.Hexagon(pos, r, rot)
    elif cls == "Cell":
        obj = cell.Cell(pos, r, 3, rot)
    elif cls == "Cell3Sec":
        obj = cell.Cell3Sec(pos, r, 3, rot)
    elif cls == "CellSquare":
        obj = cell.CellSquare(pos, qf(b["w"]), 3, rot)
    elif cls == "Rectangle":
        hw, hh = qf(b["w"]) / 2, qf(b["h"]) / 2
        obj = shapes.Rectangle(pos - complex(hw, hh), pos + complex(hw, hh), rot)
    elif cls == "Circle":
        obj = shapes.Circle(pos, r)
    elif cls == "Cluster":
        obj = cell.Cluster(r, 3, pos, None, "simple", rot)
    else:
        raise ValueError(cls)
    wrap = cell.CellWrap(pc(alpha["wpos"][call[5] - 1]), obj, include_users_bool=True) if call[5] else None
    return obj, wrap


def mut_path(job):
    try:
        return _guarded(_mut_path, job, 60)
    except _Hang:
        return 0, [bad(f"history {[_call_text(job[0], x['call']) for x in job[1]]}: a call did not return "
                       f"within 120 s of processor time (rejection sampling never finds a point inside the cell)")]


def _apply(alpha, obj, wrap, e):
    """execute the call of edge e on the real objects; returns None or a problem text"""
    from pyphysim.cell import cell
    call = e["call"]
    pre = e["pre"]
    name = call[0]
    target = wrap if name.startswith("w") else obj
    raises = call[-1] == "raises"
    try:
        if name in ("pos", "wpos"):
            target.pos = pc((alpha["wpos"] if name == "wpos" else alpha["pos"])[call[1] - 1])
        elif name in ("rel", "wrel"):
            cur, new = (pre["wpos"], alpha["wpos"][call[1] - 1]) if name == "wrel" else (pre["pos"], alpha["pos"][call[1] - 1])
            target.move_by_relative_coordinate(pc(new) - pc(cur))
        elif name in ("polar", "wpolar"):
            pol = alpha["polar"][call[1] - 1]
            target.move_by_relative_polar_coordinate(qf(pol["rho"]), pol["k"] * math.pi / 6.0)
        elif name in ("rot", "wrot"):
            target.rotation = alpha["rot"][call[1] - 1] if name == "rot" else 30
        elif name in ("rad", "wrad"):
            target.radius = qf(alpha["r"][call[1] - 1]) if name == "rad" else 1.0
        elif name == "adduser":
            obj.add_user(cell.Node(pc(e["out"]["store"]["users"][-1])), relative_pos_bool=False)
        elif name == "delusers":
            obj.delete_all_users()
        else:
            raise ValueError(name)
    except AttributeError as ex:
        return None if raises else f"raised AttributeError: {ex}"
    if raises:
        return "did not raise (this mutator is disabled for this class) - the object was changed behind its views"
    return None


def _observe(obj, wrap, e):
    """compare every public view of the object(s) with the post-state of edge e; None or a problem text"""
    import copy
    post, out = e["post"], e["out"]
    kind = post["kind"]
    if not close(obj.pos, pc(post["pos"])):
        return f"pos is {obj.pos}, expected {pc(post['pos'])}"
    if kind == "node":
        return None
    if obj.rotation != post["rot"]:
        return f"rotation is {obj.rotation}, expected {post['rot']}"
    if kind == "cluster":
        got = [x.pos for x in obj]
        if len(got) != len(out["cells"]) or not all(close(g, pc(w)) for g, w in zip(got, out["cells"])):
            return "the cells of the cluster are not at the layout positions for the reported cluster position"
        return None
    if kind in ("hex", "circle", "sec3") and not close(obj.radius, qf(post["r"])):
        return f"radius is {obj.radius}, expected {qf(post['r'])}"
    if not verts_equal(obj, out["verts"]):
        return "vertices differ from a fresh object with the current position/size/rotation"
    g = int(round((math.sqrt(len(out["res"])) - 1) / 2))
    gw = 2 * g + 1
    for n, code in enumerate(out["res"]):
        if code != 2:
            p = complex((n // gw - g) / 2.0, (n % gw - g) / 2.0)
            if bool(obj.is_point_inside_shape(p)) != (code == 1):
                return f"is_point_inside_shape({p}) = {code != 1}, a fresh object says {code == 1}"
    if post["cell"]:
        want = [pc(u) for u in out["store"]["users"]]
        got = [u.pos for u in obj.users]
        if len(got) != len(want) or obj.num_users != len(want):
            return f"{len(got)} users, expected {len(want)}"
        for gu, wu in zip(got, want):
            if not close(gu, wu):
                return (f"user at {gu:.4f}, expected {wu:.4f}: the users did not stay at their place relative to the cell "
                        f"(inside the cell: {inside_f([pc(v) for v in out['verts']], gu)})")
    if kind == "sec3":
        # sectors: observable through random placement in a sector (rel), on a copy (the users are part of the state)
        cp = copy.deepcopy(obj)
        cp.delete_all_users()
        for j in (1, 2, 3):
            cp.add_random_users_in_sector(1, j, None, 0.3)
            V = [pc(p) for p in out["secv"][j - 1]]
            u = cp.users[-1].pos
            if not inside_f(V, u):
                return f"a user placed in sector {j} lies outside that sector"
            if abs(u - pc(out["store"]["secc"][j - 1])) < 0.3 * qf(out["store"]["secr"]) - TOL:
                return f"a user placed in sector {j} is closer to its centre than requested"
        secs = [getattr(obj, n, None) for n in ("_sec1", "_sec2", "_sec3")]
        if all(x is not None for x in secs):  # private cross-check, skipped when absent
            st = out["store"]
            for j, sc in enumerate(secs):
                if not (close(sc.pos, pc(st["secc"][j])) and close(sc.radius, qf(st["secr"])) and sc.rotation == st["secrot"]):
                    return f"sector {j + 1} is stale (centre {sc.pos:.4f}, radius {sc.radius:.4f}, rotation {sc.rotation})"
    if wrap is not None:
        if not close(wrap.pos, pc(post["wpos"])):
            return f"wrap.pos is {wrap.pos}, expected {pc(post['wpos'])}"
        if wrap.rotation != post["rot"] or not close(wrap.radius, obj.radius):
            return "wrap.rotation / wrap.radius are not those of the wrapped cell"
        if not verts_equal(wrap, out["wverts"]):
            return "wrap.vertices are not the wrapped cell's polygon at the wrap's position"
        want = [pc(u) for u in out["wusers"]]
        got = [u.pos for u in wrap.users]
        if len(got) != len(want) or wrap.num_users != len(want):
            return f"wrap shows {len(got)} users, expected {len(want)}"
        for gu, wu in zip(got, want):
            if not close(gu, wu):
                return (f"wrap.users: user at {gu:.4f}, expected {wu:.4f} (the wrapped cell's user moved to the wrap; inside the "
                        f"wrap: {inside_f([pc(v) for v in out['wverts']], gu)})")
    return None


def _mut_path(job):
    """job = (alpha, edges, seed) -> (steps_ok, problems): one history of mutator calls on real objects"""
    alpha, edges, seed = job
    np.random.seed(seed)
    obj = wrap = None
    okc = 0
    moved = False
    for i, e in enumerate(edges):
        call = e["call"]
        kind = e["post"]["kind"]
        try:
            if call[0] == "new":
                obj, wrap = _mut_new(alpha, call)
                what = None
                moved = False
            else:
                moved = moved or call[0] in ("pos", "rel", "polar")
                what = _apply(alpha, obj, wrap, e)
            if what is None:
                what = _observe(obj, wrap, e)
        except _Hang:
            raise
        except Exception as ex:
            what = f"raised {type(ex).__name__}: {ex}"
        if what:
            geometric = "vertices differ" in what or "is_point_inside_shape" in what
            fid = F_MOVE if (kind in ("rect", "square") and moved and geometric) else None
            if fid is None and kind in ("rect", "square") and e["post"]["rot"] % (90 if kind == "square" else 180) != 0 \
                    and "is_point_inside_shape" in what:
                fid = F_RECT
            name = e["post"]["cls"] + ("+CellWrap" if e["post"]["wpos"] else "")
            return okc, [bad(f"{name} after {[_call_text(alpha, x['call']) for x in edges[:i + 1]]}: {what}", fid)]
        okc += 1
    # (rel) the history ends with a random placement in the live cell: inside the cell as it is NOW, at the distance requested
    if edges and edges[-1]["post"]["cell"] and obj is not None:
        import copy
        e = edges[-1]
        ratio = (0.0, 0.5, 0.95)[seed % 3]
        cp = copy.deepcopy(obj)
        cp.delete_all_users()
        cp.add_random_users(3, None, ratio)
        V = [pc(p) for p in e["out"]["verts"]]
        ctr, rad = pc(e["post"]["pos"]), math.sqrt(qf(e["out"]["rad2"]))
        for u in cp.users:
            if not inside_f(V, u.pos) or abs(u.pos - ctr) < ratio * rad - TOL:
                name = e["post"]["cls"]
                return okc, [bad(f"{name} after {[_call_text(alpha, x['call']) for x in edges]}: add_random_users(3, None, {ratio}) "
                                 f"placed a user at {u.pos:.4f}: outside the cell as it is now or closer to its centre than requested")]
        okc += 1
    return okc, []


def _call_text(alpha, call):
    n = call[0]
    if n == "new":
        w = f", wrap at {pc(alpha['wpos'][call[5] - 1])}" if call[5] else ""
        return f"new(pos={pc(alpha['pos'][call[2] - 1])}, r={qf(alpha['r'][call[3] - 1])}, rotation={alpha['rot'][call[4] - 1]}{w})"
    if n in ("pos", "rel"):
        t = pc(alpha["pos"][call[1] - 1])
        return f"pos={t}" if n == "pos" else f"move_by_relative_coordinate(to {t})"
    if n in ("wpos", "wrel"):
        t = pc(alpha["wpos"][call[1] - 1])
        return f"wrap.pos={t}" if n == "wpos" else f"wrap.move_by_relative_coordinate(to {t})"
    if n in ("polar", "wpolar"):
        pol = alpha["polar"][call[1] - 1]
        return f"{'wrap.' if n == 'wpolar' else ''}move_by_relative_polar_coordinate({qf(pol['rho'])}, {30 * pol['k']} deg)"
    if n == "rot":
        return f"rotation={alpha['rot'][call[1] - 1]}"
    if n == "rad":
        return f"radius={qf(alpha['r'][call[1] - 1])}"
    return {"adduser": "add_user", "delusers": "delete_all_users", "wrot": "wrap.rotation=30", "wrad": "wrap.radius=1"}[n]


def mut_edges(emitted):
    """emitted transitions of the object machine -> edges for graph.py: the label of the call is not part
    of the state (TLC identifies states through VIEW MutView)"""
    res = []
    for e in emitted:
        pre = {k: v for k, v in e["pre"].items() if k != "call"}
        post = {k: v for k, v in e["post"].items() if k != "call"}
        res.append({"pre": pre, "post": post, "call": e["post"]["call"], "out": e["out"]})
    return res


# ----------------------------------------------------------------------------- orchestration
def _chunks(xs, n):
    k = max(1, math.ceil(len(xs) / n))
    return [xs[i:i + k] for i in range(0, len(xs), k)]


def plan(ctx):
    """list of (label, kwargs of model()) - one TLC process each"""
    th = ctx.tier == "thorough"
    rots = all_rots() if th else QUICK_ROTS
    G = 6 if th else 5
    sh = shape_domain(th)
    runs = []
    for i, ch in enumerate(_chunks(sh, 15 if th else 7)):
        runs.append((f"contain/{i}", dict(ops={"contain"}, shapes=ch, rots=rots, G=G)))
    # (quick: the border point of a CellWrap is the inherited Shape method on vertices checked in `contain`: one wrap kind)
    bsh = sh if th else [x for x in sh if x["kind"] not in ("wrap_hex", "wrap_square")]
    for i, ch in enumerate(_chunks(bsh, 10 if th else 6)):
        runs.append((f"border/{i}", dict(ops={"border"}, shapes=ch, rots=rots, G=1)))
    cl = cluster_domain(th)
    crots = all_rots() if th else [0, 30, -90, 570]
    small = [c for c in cl if c["n"] < 13]
    big = [c for c in cl if c["n"] >= 13]
    for i, ch in enumerate(_chunks(small, 4 if th else 1) + _chunks(big, 14 if th else 2)):
        runs.append((f"layout/{i}", dict(ops={"layout"}, clusters=ch, crots=crots)))
    drots = [0, 30, -90, 570, 240, -720] if th else [30, -90]
    ua = dict(ucells=[1, 2, 7, 13, 19], uangles=[0, 3, 7, 10] if th else [0, 3, 7], urel=[pt(q(1, 0, 4), q(1, 0, 4)), pt(q(-1, 0, 4), 0), pt(0, q(-1, 0, 3))])
    for i, ch in enumerate(_chunks(cl, 4 if th else 2)):
        runs.append((f"distmat/{i}", dict(ops={"distmat"}, clusters=ch, crots=drots, **ua)))
    w19 = [c for c in cl if c["n"] == 19 and c["type"] != "square"]
    wrots = list(range(-720, 721, 90)) + [30, -150, 210] if th else [0, 30, -90]
    for i, ch in enumerate(_chunks(w19, len(w19))):
        runs.append((f"wrap/{i}", dict(ops={"wrap"}, clusters=ch, crots=wrots)))
    runs.append(("rel", dict(ops={"place", "pproc"}, rel=rel_domain(th, ctx.seed))))
    # generic (non 30 degree) rotations and directions, exact through Pythagorean angles
    gens = [dict(p=p, sgn=sg) for p, sg in ((1, 1), (3, -1), (5, 1), (2, -1), (4, 1), (6, -1))][:6 if th else 3]
    grots = [0, 30, -90, 240, -510] if th else [0, 30, -90]
    gsh = [x for x in sh if (x["kind"], x["pos"]) in (("hex", P1), ("rect", P0), ("rect", P1), ("square", P0), ("sec3", P0),
                                                    ("wrap_square", P0), ("circle", P0))]
    for i, ch in enumerate(_chunks(gsh, 4 if th else 2)):
        runs.append((f"containg/{i}", dict(ops={"containg"}, shapes=ch, rots=grots, G=G if th else 4, gens=gens if th else gens[:2])))
    # (border points divide: the pairs rotation / direction angle stay on triples with small hypotenuse - 32 bit)
    runs.append(("borderg", dict(ops={"borderg"}, shapes=gsh, rots=grots, G=1, gens=[dict(p=1, sgn=1), dict(p=2, sgn=-1), dict(p=3, sgn=-1)])))
    gcl = [cluster("simple", 7, q(3, 0, 2), P1), cluster("square", 4, q(3, 0, 2), P1), cluster("3sec", 3, q(3, 0, 2), P0),
           cluster("simple", 13, q(1), P1)]
    runs.append(("layoutg", dict(ops={"layoutg"}, clusters=gcl, crots=[0, 30] + ([-150, 690] if th else []), gens=gens)))
    if not th:
        # larger grids / the remaining 3-sector sizes, two rotations
        extra = [cluster("square", 16, q(3, 0, 2), P1), cluster("3sec", 4, q(3, 0, 2), P0), cluster("3sec", 13, q(3, 0, 2), P0)]
        runs.append(("layout/extra", dict(ops={"layout"}, clusters=extra, crots=[30, -90])))
    # distance matrices of clusters with no user and with a single user
    tiny = [cluster("simple", 3, q(3, 0, 2), P1), cluster("square", 4, q(3, 0, 2), P1), cluster("3sec", 3, q(3, 0, 2), P0)]
    runs.append(("distmat/nouser", dict(ops={"distmat"}, clusters=tiny, crots=[30], ucells=[], uangles=[0], urel=[pt(q(1, 0, 4), q(1, 0, 4))])))
    runs.append(("distmat/oneuser", dict(ops={"distmat"}, clusters=tiny, crots=[-90], ucells=[2], uangles=[5], urel=[pt(q(1, 0, 4), q(1, 0, 4))])))
    return runs


# similarity transforms (log2 of the scale, offset) the emitted contain / border / layout cases are replayed under
XFS = [(-10, 0, 0), (9, 3000, -4500), (13, 10000, 2500)]


def mut_runs(th):
    """one TLC process per kind of object (the machine of each kind is explored completely)"""
    B = MUT_BASE
    rots3 = (0, 30, -90, 240, 690) if th else (0, 30, -90)
    rots2 = (0, 30, -90) if th else (0, 30)
    G = 3 if th else 2
    runs = [
        ("Node", malpha([B["Node"]], r=[q(1)], rot=[0])),
        ("Hexagon", malpha([B["Hexagon"]], rot=rots2)),
        ("Cell", malpha([B["Cell"]], rot=rots3)),
        ("CellSquare", malpha([B["CellSquare"]], r=[q(1)], rot=rots3)),
        ("Rectangle", malpha([B["Rectangle"]], r=[q(1)], rot=rots3)),
        ("Circle", malpha([B["Circle"]], rot=[0])),
        ("Cell3Sec", malpha([B["Cell3Sec"]], rot=rots2)),
        ("Cluster", malpha([B["Cluster"]], pos=[PA, PB], r=[q(3, 0, 2)], rot=[0, 30])),
        ("Wrap(Cell)", malpha([B["Wrap(Cell)"]], pos=[PA, PB] + ([PC] if th else []), rot=rots2, wpos=[WA, WB])),
        ("Wrap(CellSquare)", malpha([B["Wrap(CellSquare)"]], pos=[PA, PB], r=[q(1)], rot=rots2, wpos=[WA, WB])),
    ]
    if th:
        runs.append(("Wrap(Cell3Sec)", malpha([B["Wrap(Cell3Sec)"]], pos=[PA, PB], rot=[0, 30], wpos=[WA, WB])))
    return [(f"mut/{n}", dict(ops={"mut"}, mutalpha=a, G=G)) for n, a in runs]


DEV_MODELS = {
    F_RECT: ("ContainmentAgrees", dict(ops={"contain"}, shapes=[shape("rect", P0, w=q(5, 0, 2), h=q(3, 0, 2))], rots=[0, 30], G=3)),
    F_BORDER: ("BorderAgrees", dict(ops={"border"}, shapes=[shape("rect", P0, w=q(3), h=q(5, 0, 4), rad=q(13, 0, 8))], rots=[0], G=1)),
    "LayoutSkipsCentring": ("LayoutLaws", dict(ops={"layout"}, clusters=[cluster("simple", 3, q(1), P1)], crots=[0])),
    F_MOVE: ("MutFresh", dict(ops={"mut"}, G=1, mutalpha=malpha([MUT_BASE["CellSquare"]], pos=[PA, PC], r=[q(1)], rot=[0]))),
    "Sec3SetPosKeepsSectors": ("MutFresh", dict(ops={"mut"}, G=1, mutalpha=malpha([MUT_BASE["Cell3Sec"]], pos=[PA, PC], r=[q(1)], rot=[0]))),
    "Sec3SetRadiusKeepsCentres": ("MutFresh", dict(ops={"mut"}, G=1, mutalpha=malpha([MUT_BASE["Cell3Sec"]], pos=[PA], r=[q(1), q(2)], rot=[30]))),
    "MoveBypassesPosSetter": ("MutFresh", dict(ops={"mut"}, G=1, mutalpha=malpha([MUT_BASE["Cell"]], pos=[PA, PB], r=[q(1)], rot=[0]))),
    "WrapUsersUseCachedTranslation": ("MutFresh", dict(ops={"mut"}, G=1, mutalpha=malpha([MUT_BASE["Wrap(Cell)"]], pos=[PA, PB], r=[q(1)], rot=[0], wpos=[WA]))),
    "ClusterPlaceAllDropsMinDist": ("PlaceClLaws", dict(ops={"place"}, rel=[dict(
        what="placecl", cl=cluster("simple", 3, q(1), P0), rot=0, form="none_scalar", ids=[1, 2, 3], nums=[2, 2, 2],
        ratios=[q(1, 0, 2)] * 3)])),
    "CircleBorderZeroRatioIsOne": ("BorderAgrees", dict(ops={"border"}, shapes=[shape("circle", P1, r=q(2))], rots=[0], G=1)),
}


def _run_model(kw, **tk):
    """one TLC process.  The result does not depend on the tree under test, so repeated runs of the check
    against several trees (mutation testing) may share it: VERIF_C19_CACHE=<dir> stores the parsed result
    keyed by configuration and specification text (development aid; unset in the registered commands)."""
    import hashlib
    import os
    import pickle
    cfg, defs = model(**kw)
    cache = os.environ.get("VERIF_C19_CACHE")
    if cache:
        h = hashlib.md5()
        for f in ("cell/Geometry.tla", "lib/QR3.tla", "lib/Emit.tla"):
            h.update(open(os.path.join(tlc.SPEC, f), "rb").read())
        h.update(cfg.encode())
        h.update(repr(sorted(defs.items())).encode())
        path = os.path.join(cache, h.hexdigest() + ".pkl")
        if os.path.exists(path):
            return pickle.load(open(path, "rb"))
    r = tlc.run(MODULE, cfg, defs=defs, **tk)
    if cache:
        os.makedirs(cache, exist_ok=True)
        r.out = ""
        pickle.dump(r, open(path + ".tmp", "wb"))
        os.replace(path + ".tmp", path)
    return r


OP_ACTION = {"containg": "ContainG", "borderg": "BorderG", "layoutg": "LayoutG",
             "contain": "Contain", "border": "Border", "layout": "Layout", "distmat": "DistMat", "wrap": "Wrap",
             "place": "Place", "placecl": "PlaceCl", "pproc": "PProc"}
CALL_ACTION = {"new": "MutNew", "pos": "MutSetPos", "rel": "MutMoveRel", "polar": "MutMovePolar", "rot": "MutSetRot",
               "rad": "MutSetRad", "adduser": "MutAddUser", "delusers": "MutDelUsers", "wpos": "WrapSetPos",
               "wrel": "WrapMoveRel", "wpolar": "WrapMovePolar", "wrot": "WrapSetRaises", "wrad": "WrapSetRaises"}


def _count_actions(ctx, emitted):
    """TLC's -coverage does not terminate in reasonable time on this module (cost model x recursive
    operators: > 300 s on a 30-state instance), so the firing of every action is established from the
    emitted transitions: each action stamps c.op / c.call."""
    for e in emitted:
        post = e["post"]
        a = CALL_ACTION[post["call"][0]] if post["op"] == "mut" else OP_ACTION[post["op"]]
        ctx.actions[a] = ctx.actions.get(a, 0) + 1


def _par():
    import os
    return max(1, min(12, int(os.environ.get("VERIF_PROCS", "0") or 0) or 12))


def _dev_run(name):
    inv, kw = DEV_MODELS[name]
    r = _run_model(dict(kw, dev=[name], emit=False))
    return name, inv, r


def run(ctx):
    th = ctx.tier == "thorough"
    ctx.rule = ("TLC enumerates every case of the finite domain given by the constants (shape x rotation x grid, cluster x "
                "rotation, complete Cell3Sec setter machine) with exact Q(sqrt3) arithmetic and checks all laws on each; every "
                "emitted case is executed on the real classes; distinct = emitted cases executed")
    ctx.assumptions += [
        "rotations are multiples of 30 degrees in [-720, 720]; positions/radii in Q(sqrt3) with small denominators",
        "query points on the half-integer grid (stage T: multiples of 1/16); points closer than 1/100 to a boundary are excluded by the specification",
        "numbers compared with 1e-9 relative tolerance, decisions exactly",
        "(rel) random placement / point processes are judged with the specification's predicate evaluated in floating point on TLC-emitted vertices",
        "wrapped cells are observed through Cluster._wrapped_cells (no public accessor); skipped if absent",
    ]
    runs = plan(ctx)
    mruns = mut_runs(th)
    with ThreadPoolExecutor(_par()) as ex:
        futs = [(label, kw, ex.submit(_run_model, kw)) for label, kw in runs]
        fmut = [(label, kw, ex.submit(_run_model, kw)) for label, kw in mruns]
        fdev = [ex.submit(_dev_run, d) for d in DEVS]
        results = [(label, kw, f.result()) for label, kw, f in futs]
        mres = [(label, kw, f.result()) for label, kw, f in fmut]
        devres = [f.result() for f in fdev]
    # ---- stage M bookkeeping
    for label, kw, r in results:
        ctx.account(r, MODULE, label)
        _count_actions(ctx, r.emitted)
    for label, kw, r in mres:
        ctx.account(r, MODULE, label)
        _count_actions(ctx, r.emitted)
    ctx.require_actions(ACTIONS)
    for name, inv, r in devres:
        if r.violated != inv:
            raise tlc.TlcError(f"deviation {name} should violate {inv}; TLC reported {r.violated}")
        ctx.notes.setdefault("deviations_refuted_by_model", {})[name] = r.violated
    # ---- stage R: pure operations
    jobs = []
    for label, kw, r in results:
        want = _expected_cases(kw)
        if len(r.emitted) < want:
            raise tlc.TlcError(f"{label}: TLC emitted {len(r.emitted)} cases, the domain has {want}")
        for i, e in enumerate(r.emitted):
            if e["post"]["op"] == "distmat":
                e["uangles"] = list(kw["uangles"])
            jobs.append((e, (ctx.seed * 7919 + len(jobs)) % (2 ** 31)))
            # the same case at another scale / far from the origin (SimilarityLaw)
            if e["post"]["op"] in ("contain", "border", "layout", "containg", "borderg", "layoutg") and (th or i % 2 == 0):
                jobs.append((dict(e, xf=XFS[(i // (1 if th else 2)) % 3]), (ctx.seed * 7919 + len(jobs)) % (2 ** 31)))
    res = pool_map(run_case, jobs, chunksize=max(1, len(jobs) // 96))
    per_op = {}
    for (e, seed), (okc, probs) in zip(jobs, res):
        op = e["post"]["op"]
        per_op[op] = per_op.get(op, 0) + 1
        ctx.ok(graph.key(e["post"]) + str(e.get("xf", "")), okc)
        ctx.trace_done()
        for p in probs:
            case = {"kind": "case", "edge": e, "seed": seed}
            if p["fid"]:
                ctx.finding(p["fid"], p["what"], case)
            else:
                ctx.violation(p["what"], case)
    ctx.notes["cases_per_operation"] = per_op
    for op in ("contain", "border", "layout", "distmat", "wrap", "place", "pproc"):
        smp = next((e for e, _ in jobs if e["post"]["op"] == op), None)
        if smp:
            ctx.sample({"op": op, "case": smp["post"], "expected": _trim(smp["out"])}, limit=8)
    # ---- stage R: setter machines (complete graph per kind of object, every transition + walks)
    rng = random.Random(ctx.seed)
    pjobs = []
    gstat = {}
    for label, kw, r in mres:
        g = graph.Graph(mut_edges(r.emitted), label=lambda e: graph.key(e["call"]))
        root = g.roots()[0]
        paths = g.transition_cover(root, max_len=12, rng=rng)
        paths += g.random_walks(root, 150 if th else 12, 10, rng)
        for p in paths:
            pjobs.append((kw["mutalpha"], g.path_edges(p), (ctx.seed * 104729 + len(pjobs)) % (2 ** 31)))
        for _, _, e in g.edges:
            ctx.distinct.add("mut" + graph.key(e["pre"]) + graph.key(e["call"]))
        gstat[label] = {"states": len(g.nodes), "transitions": len(g.edges), "paths": len(paths)}
    pres = pool_map(mut_path, pjobs, chunksize=max(1, len(pjobs) // 64))
    for job, (okc, probs) in zip(pjobs, pres):
        ctx.ok(n=okc)
        ctx.trace_done()
        for p in probs[:1]:
            case = {"kind": "mut", "alpha": job[0], "path": job[1], "seed": job[2]}
            if p["fid"]:
                ctx.finding(p["fid"], p["what"], case)
            else:
                ctx.violation(p["what"], case)
    ctx.notes["setter_machines"] = gstat
    if mres:
        e = mres[-1][2].emitted[len(mres[-1][2].emitted) // 2]
        ctx.sample({"op": "mut", "pre": e["pre"], "post": e["post"], "expected": _trim(e["out"])}, limit=8)
    ctx.exhaustive = True
    # ---- stage T
    from . import c19_trace
    c19_trace.run(ctx)
    # report one example of every kind of failure first (only the first few are written out)
    groups = {}
    for v in ctx.violations:
        k = (v["what"].split("]")[0] if v["what"].startswith("[") else "", v["case"].get("kind"),
             (v["case"].get("edge") or {}).get("post", {}).get("op"))
        groups.setdefault(k, []).append(v)
    order = []
    while any(groups.values()):
        for k in list(groups):
            if groups[k]:
                order.append(groups[k].pop(0))
    ctx.violations = order


def _expected_cases(kw):
    ops = kw["ops"]
    n = 0
    if "contain" in ops or "border" in ops:
        for s in kw["shapes"]:
            n += 1 if s["kind"] == "circle" else len(set(kw["rots"]))
    if "containg" in ops:
        n += sum(1 for s in kw["shapes"] if s["kind"] != "circle") * len(set(kw["rots"])) * len(kw["gens"])
    if "borderg" in ops:
        n += sum(1 if s["kind"] == "circle" else len(set(kw["rots"])) for s in kw["shapes"]) * len(kw["gens"])
    if "layoutg" in ops:
        n += len(kw["clusters"]) * len(set(kw["crots"])) * len(kw["gens"])
    if "layout" in ops or "distmat" in ops:
        n += len(kw["clusters"]) * len(set(kw["crots"]))
    if "wrap" in ops:
        n += len(kw["clusters"]) * len(set(kw["crots"]))
    if "place" in ops:
        n += len(kw["rel"])
    if "mut" in ops:
        n = 0
    return n


def _trim(o, limit=6):
    if isinstance(o, dict):
        return {k: _trim(v, limit) for k, v in o.items()}
    if isinstance(o, list) and len(o) > limit and not all(isinstance(x, int) for x in o[:3]):
        return [_trim(x, limit) for x in o[:limit]] + [f"... {len(o) - limit} more"]
    if isinstance(o, list) and len(o) > 24:
        return o[:24] + [f"... {len(o) - 24} more"]
    if isinstance(o, list):
        return [_trim(x, limit) for x in o]
    return o


def replay(ctx, data):
    c = data["case"]
    if c.get("kind") == "mut":
        okc, probs = mut_path((c["alpha"], c["path"], c["seed"]))
    elif c.get("kind") == "trace":
        from . import c19_trace
        return c19_trace.replay(ctx, data)
    else:
        okc, probs = run_case((c["edge"], c["seed"]))
    ctx.ok(n=okc)
    for p in probs:
        if p["fid"]:
            ctx.finding(p["fid"], p["what"], c)
        else:
            ctx.violation(p["what"], c)
