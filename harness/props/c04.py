"""C04 - MIMO schemes recover the data over any full-rank channel within the power budget.

Stage M: TLC on spec/mimo/Mimo.tla.  The intended instance (all Dev flags FALSE) must satisfy
RoundTrip, EnergyPreserved, ZfDefining, MmseDefining, MmseTendsToZf, ... on EVERY enumerated
case (the emission runs below are model-checking runs with all invariants on); each named
deviation must be refuted by TLC; a small run with -coverage checks that every action fires.
Stage R: every case TLC emitted (channel, data block, exact transmitted / received / decoded
signal, exact filters, exact SINRs) is executed on the real classes of pyphysim.mimo.mimo and
compared.  SVDMimo / GMDMimo cases carry relations (`req`) which are evaluated numerically (rel).
Objects are re-used across consecutive cases (set_channel_matrix / set_noise_var on a used
object), so a stale filter or noise variance would surface as a mismatch of the next case.

Python only drives pyphysim, converts exact values to floats and compares."""
import math
import os
from concurrent.futures import ThreadPoolExecutor
from fractions import Fraction

import numpy as np

from .. import tlc
from ..core import pool_map

MODULE = "mimo/Mimo.tla"
INVARIANTS = ["RoundTrip", "FilterFresh", "MmseBound", "ScaleLaw", "ColumnScaleLaw", "HighNoiseDefining", "ScalesCancel", "EnergyPreserved", "ChannelUses", "AlamoutiOrthogonal", "ZfDefining",
              "MmseDefining", "MmseTendsToZf", "MrtCophased", "SinrFirstPrinciples", "ZfSinrClosedForm",
              "BadLengthRaises"]
ACTIONS = ["SetChannel", "Encode", "Transmit", "SetNoiseVar", "Decode", "Query", "Rejected", "Filters", "EncodeBadLength"]
PROPERTIES = ["QueryIsPure", "RejectedChangesNothing"]       # frame conditions (action properties)
DEVS = ["SvdNeedsSquare", "SinrCoherentInterference", "NvNoneKeepsFilter", "QuerySetsNoiseVar", "RejectedKeepsEffect",
        "GmdAbsoluteTol", "GmdTieBreaks", "ZfShortcutNearUnitary"]
# channel k is handed to the implementation as 10^SCALES[k % 8] * H (gain sweep 1e-7 .. 1e7, half of the channels at unit gain)
SCALES = [0, -7, 0, 7, 0, -4, 0, 3]
CG_EVERY = 7           # channels with k % 7 = 3 (Blast / SVD / GMD, Nt >= 2) get column gains 10^-(0,2,4,1,3,..): ill conditioned
HI_NOISE = [4, 16]     # noise variances > 1 (times gain^2): the high-noise regime of the MMSE filter
ISO_EVERY = 5          # every 5th channel of blast / svd / gmd is a scaled isometry (all singular values equal)
QUERY_Q = 2
VANISH = [2, 4, 6, 8, 10, 12, 14, 16]      # noise variances 10^-e along which MMSE -> ZF is followed
ALL = ["blast", "mrc", "mrt", "svd", "gmd", "alamouti"]

# alphabets.  ALPHA keeps |h|^2 <= 2 so that every fraction-free intermediate of a 3x3 MMSE filter
# with q <= 16 stays below 2^31 (bounds in notes/C04.md); ALPHA_MED (|h|^2 <= 5) is used for Nt <= 2.
ALPHA = [[0, 0], [1, 0], [-1, 0], [0, 1], [0, -1], [1, 1], [1, -1], [-1, 1]]
ALPHA_MED = [[0, 0], [2, 0], [-1, 0], [0, 1], [0, -2], [1, 2], [2, -1], [-1, 1], [1, 0], [-2, 1]]
# exact zeros (a blocked path) are part of the MRT alphabet: the channel only has to be non-null
PYTH = [[3, 4], [-4, 3], [2, 0], [0, -1], [5, -12], [-3, -4], [0, 2], [4, -3], [0, 0], [0, 0]]
PYTH_BIG = PYTH + [[8, 15], [-7, 24], [12, -5], [0, 3], [-6, 8]]
SYMS = [[1, 0], [-1, 0], [0, 1], [0, -1], [1, 1]]
TOL = 1e-9
RTOL_REL = 1e-8

SHAPES_Q = [(1, 1), (2, 1), (3, 1), (1, 2), (2, 2), (3, 2), (1, 3), (3, 3)]
SHAPES_T = SHAPES_Q + [(4, 1), (4, 2), (1, 4), (4, 3)]
# large channels: SVDMimo / GMDMimo only (relation-only); Blast is limited to Nt <= 3 by ShapeOK
BIG_Q = [(4, 4), (5, 5), (6, 6), (7, 5), (8, 6)]
BIG_T = BIG_Q + [(6, 4), (7, 7), (8, 8), (8, 5)]


def build(schemes, shapes, klo, khi, seed, ndata, qs, decqs, alpha=ALPHA, pyth=PYTH, dev=(), emit=True,
          hist_every=12, hist_deep=4):
    defs = {"Schemes": tlc.tla(set(schemes)),
            "Shapes": "{" + ", ".join(tlc.tla(list(s)) for s in shapes) + "}",
            "Alpha": tlc.tla(alpha), "Pyth": tlc.tla(pyth), "Syms": tlc.tla(SYMS),
            "Scales": tlc.tla(SCALES), "HiNoise": tlc.tla(HI_NOISE), "Qs": tlc.tla(qs), "DecQs": tlc.tla([sorted(d) for d in decqs]), "Vanish": tlc.tla(VANISH),
            "Dev": tlc.tla({d: (d in dev) for d in DEVS})}
    cfg = tlc.cfg_text(constants={"KLo": str(klo), "KHi": str(khi), "Seed": str(seed % 65536), "NData": str(ndata),
                                  "HistEvery": str(hist_every), "HistDeep": str(hist_deep), "QueryQ": str(QUERY_Q), "IsoEvery": str(ISO_EVERY), "CgEvery": str(CG_EVERY)},
                       defs=defs, invariants=INVARIANTS, properties=PROPERTIES, action_constraints=["Emit"] if emit else [])
    return cfg, defs


def tlc_run(cfg, defs, **kw):
    """tlc.run, optionally through a result cache.  The TLC side of this check does not depend on the
    repository under test, so the builders' mutation campaigns (many runs against scratch copies) may set
    VERIF_TLC_CACHE=<dir> to re-use TLC's output; the registered commands never set it."""
    cache = os.environ.get("VERIF_TLC_CACHE")
    if not cache:
        return tlc.run(MODULE, cfg, defs=defs, **kw)
    import hashlib
    import pickle
    h = hashlib.sha256()
    for f in ("mimo/Mimo.tla", "mimo/BigNat.tla", "lib/CMat.tla", "lib/GRat.tla", "lib/Rat.tla", "lib/Emit.tla"):
        h.update(open(os.path.join(tlc.SPEC, f), "rb").read())
    h.update(repr((cfg, sorted(defs.items()), sorted(kw.items()))).encode())
    path = os.path.join(cache, h.hexdigest()[:24] + ".pkl")
    if os.path.exists(path):
        return pickle.load(open(path, "rb"))
    r = tlc.run(MODULE, cfg, defs=defs, **kw)
    os.makedirs(cache, exist_ok=True)
    tmp = path + f".{os.getpid()}.tmp"
    pickle.dump(r, open(tmp, "wb"))
    os.replace(tmp, path)
    return r


# ------------------------------------------------------------------ exact values -> floats
def gc(g):
    """Gaussian rational [re, im, den] -> complex"""
    return complex(g[0], g[1]) / g[2]


def gmat(m):
    return np.array([[gc(e) for e in row] for row in m], dtype=complex)


def imat(m):
    return np.array([[complex(e[0], e[1]) for e in row] for row in m], dtype=complex)


def ivec(v):
    return np.array([complex(e[0], e[1]) for e in v], dtype=complex)


def big(digits):
    """BigNat.tla: little-endian base 10^4 digits -> int"""
    n = 0
    for d in reversed(digits):
        n = n * 10000 + d
    return n


def ratio(r):
    return float(Fraction(big(r["num"]), big(r["den"])))


def signal(s):
    return math.sqrt(s["s2"][0] / s["s2"][1]) * gmat(s["m"])


def close(a, b, tol=TOL):
    a = np.asarray(a)
    b = np.asarray(b)
    if a.shape != b.shape:
        return False
    if a.size == 0:
        return True
    if not np.all(np.isfinite(a)):
        return False
    return bool(np.all(np.abs(a - b) <= tol * np.maximum(1.0, np.abs(b))))


# ------------------------------------------------------------------ driving the real classes
def classes():
    from pyphysim.mimo import mimo
    return {"blast": mimo.Blast, "mrc": mimo.MRC, "mrt": mimo.MRT, "svd": mimo.SVDMimo, "gmd": mimo.GMDMimo,
            "alamouti": mimo.Alamouti}, mimo


def gain(rec):
    return 10.0 ** rec.get("sc", 0)


def has_cg(rec):
    return bool(rec.get("cg")) and any(c != rec.get("cgl", 1) for c in rec["cg"])


def col_gains(rec):
    """column gains cg[j] / cgl: 10^-e_j (ill conditioned) or 1 + n_j 2^-18 (near-isometry)"""
    return np.array(rec["cg"], dtype=float) / float(rec.get("cgl", 1))


def chan_arg(rec):
    H = gain(rec) * imat(rec["H"])
    if has_cg(rec):
        H = H * col_gains(rec)[np.newaxis, :]       # H D: column gains
    if rec["form"] == "1d":
        return (H[:, 0].copy() if rec["sch"] == "mrc" else H[0, :].copy()), H
    return H.copy(), H


class Bench:
    """Objects under test.  One object per scheme is kept and re-configured for the next case (history),
    every third case starts from a fresh object built through the constructor."""

    def __init__(self):
        self.objs = {}
        self.prev = {}
        self.before = {}

    def obj(self, rec, q, out):
        cls, _ = classes()
        sch = rec["sch"]
        arg, H = chan_arg(rec)
        o = self.objs.get(sch)
        hist = None
        if o is None or rec["k"] % 3 == 0:
            o = cls[sch](arg)
        else:
            hist = self.prev.get(sch)
            o.set_channel_matrix(arg)
        if sch in ("blast", "mrc"):
            if q and q > 0:
                o.set_noise_var(gain(rec) ** 2 / q)
            elif rec["k"] % 2 == 0:
                o.set_noise_var(None)
            else:
                o.set_noise_var(0.0)
        self.objs[sch] = o
        self.prev[sch] = {"H": rec["H"], "form": rec["form"], "sch": sch, "k": rec["k"], "q": q or 0, "sc": rec.get("sc", 0), "cg": rec.get("cg"), "cgl": rec.get("cgl", 1)}
        out["hist"] = hist
        return o, H

    def link_obj(self, rec, out, g=None):
        """object for a link case, in the state of a new object (noise setting = default): built by the
        constructor, by set_channel_matrix on an empty object, or by set_channel_matrix on an object that has
        already decoded over the previous channel of that scheme (a filter kept from then would be stale)"""
        cls, _ = classes()
        sch = rec["sch"]
        arg, H = chan_arg(rec)
        mode = rec["k"] % 3
        # the channel the object held before: the most recent one of this scheme that DIFFERS from the current one
        last = self.prev.get(sch)
        if last is not None and last["H"] != rec["H"]:
            self.before[sch] = last
        prev = self.before.get(sch)
        out["hist"] = None
        if g is not None:
            arg = g.variant(arg)
        if prev is not None and rec["k"] % 2 == 0:      # a second live object of the same class
            parg, pH = chan_arg(prev)
            out["bystander"] = (cls[sch](parg), pH.shape[0])
        if mode == 0 or (mode == 2 and prev is None):
            o = cls[sch](arg)
        elif mode == 1:
            o = cls[sch]()
            if g is not None:
                okc, e = g.call("set_channel_matrix", o.set_channel_matrix, arg)
                if not okc:
                    raise e
            else:
                o.set_channel_matrix(arg)
        else:
            parg, pH = chan_arg(prev)
            o = cls[sch](parg)
            try:
                o.decode(np.zeros((pH.shape[0], 2), dtype=complex))
            except Exception:  # noqa  (judged by the case of that channel, not here)
                pass
            o.set_channel_matrix(arg)
            out["hist"] = prev
        self.prev[sch] = {"H": rec["H"], "form": rec["form"], "sch": sch, "k": rec["k"], "q": 0, "sc": rec.get("sc", 0), "cg": rec.get("cg"), "cgl": rec.get("cgl", 1)}
        return o, H

    def preload(self, hist):
        """re-create the history of a stored failing case"""
        if not hist:
            return
        cls, _ = classes()
        arg, _ = chan_arg(hist)
        o = cls[hist["sch"]](arg)
        if hist["sch"] in ("blast", "mrc"):
            o.set_noise_var(1.0 / hist["q"] if hist["q"] else 0.0)
        self.objs[hist["sch"]] = o
        self.prev[hist["sch"]] = hist
        self.before[hist["sch"]] = hist


class Res:
    def __init__(self, rec):
        self.rec = rec
        self.n = 0
        self.viol = []  # (finding-id or None, text)
        self.obs = []
        self.extra = {}

    def ok(self):
        self.n += 1

    def bad(self, what, fid=None):
        self.viol.append((fid, what))

    def check(self, cond, what, fid=None):
        if cond:
            self.n += 1
        else:
            self.viol.append((fid, what))
        return cond


def call(res, what, f, *a):
    try:
        return True, f(*a)
    except Exception as ex:  # noqa
        res.extra["exception"] = f"{type(ex).__name__}: {ex}"
        return False, ex


class Guard:
    """General call discipline (notes/CALL_DISCIPLINE.md) applied to EVERY public call of a replayed history:
    ArgumentsUnchanged   every ndarray argument is bit-identical after the call (arguments are handed over in
                         rotating memory layouts: C, Fortran, strided view, read-only; real integer-valued
                         arrays also as int64 / float64);
    EarlierResultsUnchanged  every array returned earlier by this object is re-compared after every later call."""

    def __init__(self, res, tag, salt):
        self.res, self.tag, self.n, self.held = res, tag, salt, []

    def variant(self, arr):
        arr = np.asarray(arr)
        self.n += 1
        sel = self.n % 4
        if arr.dtype.kind == "c" and not np.any(arr.imag) and self.n % 3:
            re = arr.real
            arr = re.astype(np.int64) if (self.n % 3 == 1 and np.array_equal(re, np.round(re))) else re.copy()
        if sel == 1:
            v = np.asfortranarray(arr)
        elif sel == 2 and arr.ndim >= 1:
            wide = np.zeros(arr.shape[:-1] + (2 * arr.shape[-1],), dtype=arr.dtype)
            wide[..., ::2] = arr
            v = wide[..., ::2]
        else:
            v = np.array(arr, copy=True)
        if sel == 3:
            v.setflags(write=False)
        return v

    def call(self, label, f, *args):
        snaps = [(x, x.copy()) for x in args if isinstance(x, np.ndarray)]
        okc, r = call(self.res, label, f, *args)
        for x, c in snaps:
            if not (x.shape == c.shape and x.dtype == c.dtype and np.array_equal(x, c)):
                self.res.bad(f"{self.tag}: ArgumentsUnchanged fails: {label} modified its argument")
        self.verify(label)
        if okc and isinstance(r, np.ndarray):
            self.held.append((label, r, r.copy()))
        return okc, r

    def verify(self, after):
        for label, obj, c in self.held:
            if not (obj.shape == c.shape and np.array_equal(obj, c, equal_nan=True)):
                self.res.bad(f"{self.tag}: EarlierResultsUnchanged fails: the result of {label} changed during {after}")
                self.held = [h for h in self.held if h[1] is not obj]
                return


def observe_precoder(o, nt):
    """the linear precoder, observed publicly and layout-free: encode of the unit blocks of ONE channel use"""
    cols = []
    for j in range(nt):
        e = np.zeros(nt, dtype=complex)
        e[j] = 1.0
        cols.append(np.asarray(o.encode(e)).reshape(-1))
    return np.column_stack(cols)


def observe_filter(o, nr, order=None):
    """the linear receive filter, observed publicly: decode of unit received columns (layout-free, order=None) or of
    the identity block once the layout of the scheme's decode is known; returns (G, order)"""
    cols = []
    if order is None:
        for i in range(nr):
            e = np.zeros((nr, 1), dtype=complex)
            e[i, 0] = 1.0
            cols.append(np.asarray(o.decode(e)).reshape(-1))
        G = np.column_stack(cols)
        d = np.asarray(o.decode(np.eye(nr, dtype=complex))).reshape(-1)
        for cand in ("F", "C"):
            if d.size == G.size and np.allclose(d.reshape(G.shape, order=cand), G, rtol=1e-9, atol=1e-12 * max(1.0, np.abs(G).max())):
                return G, cand
        return G, None
    d = np.asarray(o.decode(np.eye(nr, dtype=complex))).reshape(-1)
    nt = d.size // nr
    return d.reshape((nt, nr), order=order), order


def mmse_relation(Heq, G, s, nt):
    """relative residual of the defining equation  (Heq^H Heq + s I) G = sqrt(Nt) Heq^H"""
    A = Heq.conj().T.dot(Heq) + s * np.eye(Heq.shape[1])
    rhs = math.sqrt(nt) * Heq.conj().T
    return float(np.linalg.norm(A.dot(G) - rhs) / max(np.linalg.norm(A) * np.linalg.norm(G), np.linalg.norm(rhs), 1e-300))


def rejected_calls(sch, o, nr, nt, x):
    """the calls the scheme documents as refused (ValueError)"""
    out = []
    if sch in ("blast", "mrc", "svd", "gmd"):
        out.append(("set_noise_var(-1)", o.set_noise_var, (-1.0,)))
    if sch in ("blast", "svd", "gmd") and nt >= 2:
        out.append((f"encode of {len(x) - 1} symbols", o.encode, (x[:-1].copy(),)))
    if sch == "alamouti":
        out.append((f"set_channel_matrix({nr}x3)", o.set_channel_matrix, ((np.arange(nr * 3).reshape(nr, 3) + 1j).astype(complex),)))
    if sch == "mrt":
        out.append((f"set_channel_matrix(2x{nt})", o.set_channel_matrix, ((np.arange(2 * nt).reshape(2, nt) + 2j).astype(complex),)))
    return out


def eval_link(rec, bench, res):
    """one channel, one data block, one history of calls on ONE object"""
    sch, nr, nt = rec["sch"], rec["nr"], rec["nt"]
    steps = rec["steps"]
    gn = gain(rec)           # noise variances are given as gn^2 / q: decoded blocks and SINRs do not depend on the gain
    tag = f"{sch} {nr}x{nt} k={rec['k']} gain=1e{rec.get('sc', 0)}{' isometry' if rec.get('iso') else ''}{' colgain' if has_cg(rec) else ''} history={[st['a'] for st in steps]}"
    g = Guard(res, tag, rec["k"] + len(steps))
    okc, r = call(res, "configure", bench.link_obj, rec, res.extra, g)
    if not okc:
        return res.bad(f"{tag}: constructing / configuring the object raised {res.extra['exception']}")
    o, H = r
    bystander = res.extra.pop("bystander", None)
    x = ivec(rec["x"])
    res.check(o.getNumberOfLayers() == rec["layers"] and o.Nt == nt and o.Nr == nr,
              f"{tag}: layers/Nt/Nr = {o.getNumberOfLayers()}/{o.Nt}/{o.Nr}, expected {rec['layers']}/{nt}/{nr}")
    okc, enc = g.call("encode", o.encode, g.variant(x))
    if not okc:
        return res.bad(f"{tag}: encode raised {res.extra['exception']}")
    enc = np.asarray(enc)
    nsym = len(x)
    T = nsym // rec["layers"]
    e_exp = rec["energy"][0] / rec["energy"][1]
    if enc.ndim != 2 or enc.shape != (nt, T):
        return res.bad(f"{tag}: encode returned shape {enc.shape}, expected {(nt, T)}")
    res.check(close(np.linalg.norm(enc) ** 2 / T, e_exp),
              f"{tag}: EnergyPreserved fails: transmitted energy per channel use {np.linalg.norm(enc) ** 2 / T:.12g}, "
              f"mean symbol energy {e_exp:.12g}")
    if rec["tx"]["kind"] != "rel":
        res.check(close(enc, signal(rec["tx"])), f"{tag}: encode(x) differs from the exact transmitted signal")
    enc0 = enc.copy()
    want = {d["q"]: np.array([gc(w) for w in d["out"]["v"]], dtype=complex) for d in rec["decs"]}
    kinds = {d["q"]: d["out"]["kind"] for d in rec["decs"]}
    first = True
    for i, st in enumerate(steps):
        a = st["a"]
        if a == -3:          # queries: answers only (QueryIsPure is judged by the decodes that follow)
            res.check(o.getNumberOfLayers() == rec["layers"] and o.Nt == nt and o.Nr == nr, f"{tag}: step {i}: layers/Nt/Nr changed")
            for name in ("calc_linear_SINRs", "calc_SINRs"):
                okc, e = g.call(name, getattr(o, name), gn ** 2 / rec["qq"])
                if not okc:
                    return res.bad(f"{tag}: step {i}: query {name}(1/{rec['qq']}) raised {res.extra['exception']}")
            continue
        if a == -6:          # refused calls (RejectedChangesNothing is judged by the decodes that follow)
            for name, f, args in rejected_calls(sch, o, nr, nt, x):
                okc, e = g.call(name, f, *args)
                if okc or not isinstance(e, ValueError):
                    return res.bad(f"{tag}: step {i}: {name} was not refused with ValueError "
                                   f"({'returned' if okc else res.extra['exception']})")
            continue
        if a != -2:          # set_noise_var(None | 0.0 | 1/a)
            arg = None if a == -1 else (0.0 if a == 0 else gn ** 2 / a)
            okc, e = g.call("set_noise_var", o.set_noise_var, arg)
            if not okc:
                return res.bad(f"{tag}: step {i}: set_noise_var({arg}) raised {res.extra['exception']}")
            continue
        # decode: the full probe  encode -> channel -> decode  on the same object
        q = st["q"]
        if bystander is not None:      # another object of the class is used in between (class-level state)
            call(res, "bystander", bystander[0].decode, np.zeros((bystander[1], 2), dtype=complex))
        # repeated same-shape calls with OTHER data in between: their results are held as well, and they must
        # not disturb the results held so far
        decoy = x[::-1] * 1j
        okc, encd = g.call("encode(other block)", o.encode, g.variant(decoy))
        if okc:
            g.call("decode(other block)", o.decode, g.variant(H.dot(np.asarray(encd))))
        okc, enc2 = g.call("encode", o.encode, g.variant(x))
        if not okc:
            return res.bad(f"{tag}: step {i}: encode raised {res.extra['exception']}")
        if not res.check(np.asarray(enc2).shape == enc0.shape and close(np.asarray(enc2), enc0, 1e-12),
                         f"{tag}: step {i}: encode(x) is no longer what it was at the start of the history"):
            return
        okc, dec = g.call("decode", o.decode, g.variant(H.dot(np.asarray(enc2))))
        if not okc:
            fid = "SvdNeedsSquare" if (sch == "svd" and nr > nt and isinstance(dec, ValueError)) else None
            return res.bad(f"{tag}: step {i}: decode raised {res.extra['exception']}", fid)
        dec = np.asarray(dec)
        w = want[q]
        if kinds[q] == "relmmse":
            # (rel) MMSE receiver on the equivalent channel Heq = H W sqrt(Nt): the filter satisfies its defining
            # equation and the decoded block is that filter applied to the received block
            try:
                Wp = observe_precoder(o, nt)
                Gf, order = observe_filter(o, nr)
            except Exception as ex:  # noqa
                return res.bad(f"{tag}: step {i}: observing precoder / filter raised {type(ex).__name__}: {ex}")
            Heq = math.sqrt(nt) * H.dot(Wp)
            r_def = mmse_relation(Heq, Gf, gn ** 2 / q, nt)
            if not res.check(r_def <= RTOL_REL, f"{tag}: step {i}: MmseDefiningOnEquivalentChannel fails (sigma^2=1/{q}): relative residual {r_def:.3e}"):
                return
            est = Gf.dot(H.dot(np.asarray(enc2)))
            if not res.check(dec.size == est.size and (close(dec.reshape(-1), est.reshape(-1, order="F"), RTOL_REL)
                                                       or close(dec.reshape(-1), est.reshape(-1, order="C"), RTOL_REL)),
                             f"{tag}: step {i}: decode is not the receive filter applied to the received block (sigma^2=1/{q})"):
                return
        elif kinds[q] == "rel":
            if not res.check(dec.shape == w.shape and close(dec, w, RTOL_REL),
                             f"{tag}: step {i}: DecodeEqualsData fails: decode(H encode(x)) differs from x by "
                             f"{np.abs(dec.reshape(-1) - w).max() if dec.size == w.size else 'shape ' + str(dec.shape)}"):
                return
        else:
            what = "x (zero forcing)" if q == 0 else f"the exact MMSE estimate (sigma^2=1/{q})"
            if not res.check(close(dec, w), f"{tag}: step {i}: decode(H encode(x)) differs from {what}"):
                return
            if first:
                okc, dec2 = g.call("decode", o.decode, g.variant(gn * signal(rec["rx"])))
                if not okc:
                    return res.bad(f"{tag}: decode of the exact received signal raised {res.extra['exception']}")
                res.check(close(np.asarray(dec2), w), f"{tag}: decode(exact received signal) differs from {what}")
        first = False
    g.verify("the history")


def _mimo_static(mimo, name, owner="MimoBase"):
    return getattr(getattr(mimo, owner, None), name, None)


def eval_filters(rec, bench, res):
    sch, nr, nt = rec["sch"], rec["nr"], rec["nt"]
    flt = rec["flt"]
    cls, mimo = classes()
    gn = gain(rec)           # observed filters are compared after multiplication with the gain (ZF(gH) = ZF(H)/g)
    tag = f"{sch} {nr}x{nt} k={rec['k']} gain=1e{rec.get('sc', 0)}{' isometry' if rec.get('iso') else ''}{' colgain' if has_cg(rec) else ''}"
    lin = getattr(mimo, "calc_post_processing_linear_SINRs", None)
    dbf = getattr(mimo, "calc_post_processing_SINRs", None)
    if flt["kind"] == "blast":
        zf = imat(flt["zf"]["num"]) / flt["zf"]["den"]
        W = np.eye(nt) / math.sqrt(nt)
        rt = math.sqrt(nt)
        # public observation of the receive filter: decode is linear, decode(I) lists the filter column by column
        okc, r = call(res, "configure", bench.obj, rec, 0, res.extra)
        if not okc:
            return res.bad(f"{tag}: configuring raised {res.extra['exception']}")
        o, H = r
        okc, d = call(res, "decode", o.decode, np.eye(nr, dtype=complex))
        if not okc:
            return res.bad(f"{tag}: decode(I) raised {res.extra['exception']}")
        g_zf = gn * np.asarray(d).reshape((nt, nr), order="F")
        res.check(close(g_zf, rt * zf), f"{tag}: zero-forcing receive filter differs from sqrt(Nt) (H^H H)^-1 H^H")
        res.check(close(g_zf.dot(H) / (rt * gn), np.eye(nt)), f"{tag}: ZF H != I")
        f_zf = _mimo_static(mimo, "_calcZeroForceFilter")
        if f_zf is not None:
            res.check(close(gn * f_zf(H.copy()), zf), f"{tag}: _calcZeroForceFilter differs from (H^H H)^-1 H^H")
        f_pre = getattr(cls[sch], "_calc_precoder", None)
        if f_pre is not None:
            res.check(close(f_pre(H.copy()), W), f"{tag}: precoder differs from I/sqrt(Nt)")
        f_rf = getattr(cls[sch], "_calc_receive_filter", None)
        f_mm = _mimo_static(mimo, "_calcMMSEFilter")
        prev_d = None
        for m in flt["mm"]:
            q = m["q"]
            nv = gn ** 2 / q
            mm = imat(m["num"]) / m["den"]
            o.set_noise_var(nv)
            okc, d = call(res, "decode", o.decode, np.eye(nr, dtype=complex))
            if not okc:
                return res.bad(f"{tag}: decode(I) with noise variance 1/{q} raised {res.extra['exception']}")
            g_mm = gn * np.asarray(d).reshape((nt, nr), order="F")
            res.check(close(g_mm, rt * mm), f"{tag}: MMSE receive filter (sigma^2=1/{q}) differs from sqrt(Nt) (H^H H + sigma^2 I)^-1 H^H")
            # the law: ||MMSE - ZF||^2 equals the exact distance and decreases strictly
            d_exp = float(Fraction(big(m["S"]), big(m["den2"]) * flt["zf"]["den"] ** 2))
            d_got = float(np.linalg.norm(g_mm / rt - g_zf / rt) ** 2)
            res.check(close(d_got, d_exp), f"{tag}: ||MMSE(1/{q}) - ZF||^2 = {d_got:.12g}, exact {d_exp:.12g}")
            if prev_d is not None:
                res.check(d_got < prev_d, f"{tag}: ||MMSE - ZF|| does not decrease from sigma^2 > 1/{q} to 1/{q}")
            prev_d = d_got
            if f_mm is not None:
                res.check(close(gn * f_mm(H.copy(), nv), mm), f"{tag}: _calcMMSEFilter(H, 1/{q}) differs from (H^H H + sigma^2 I)^-1 H^H")
            if f_rf is not None:
                res.check(close(gn * f_rf(H.copy(), nv), rt * mm), f"{tag}: _calc_receive_filter(H, 1/{q}) differs from sqrt(Nt) MMSE")
            # post-processing SINRs (independent unit-energy streams)
            s_zf = np.array([ratio(s) for s in m["sinrZf"]])
            s_mm = np.array([ratio(s) for s in m["sinrMm"]])
            s_coh = np.array([ratio(s) for s in m["sinrCoh"]])
            if lin is not None:
                got = np.asarray(lin(H.copy(), W, rt * zf / gn, nv), dtype=float)
                res.check(close(got, s_zf), f"{tag}: linear SINR of the ZF receiver (sigma^2=1/{q}) differs from q/(Nt [(H^H H)^-1]_kk)")
                got = np.asarray(lin(H.copy(), W, rt * mm / gn, nv), dtype=float)
                sinr_verdict(res, got, s_mm, s_coh, f"{tag}: calc_post_processing_linear_SINRs with the MMSE filter (sigma^2=1/{q})")
                if dbf is not None:
                    got = np.asarray(dbf(H.copy(), W, rt * mm / gn, nv), dtype=float)
                    sinr_verdict(res, got, 10 * np.log10(s_mm), 10 * np.log10(s_coh),
                                 f"{tag}: calc_post_processing_SINRs (dB) with the MMSE filter (sigma^2=1/{q})")
            okc, got = call(res, "calc_linear_SINRs", o.calc_linear_SINRs, nv)
            if okc:
                got = np.asarray(got, dtype=float)
                if close(got, 10 * np.log10(s_mm)) or close(got, 10 * np.log10(s_coh)):
                    res.obs.append("calc_linear_SINRs returns dB")
                    got = 10 ** (got / 10)
                sinr_verdict(res, got, s_mm, s_coh, f"{tag}: {sch}.calc_linear_SINRs(1/{q})")
            else:
                res.bad(f"{tag}: calc_linear_SINRs raised {res.extra['exception']}")
        # "tends to": followed numerically down to sigma^2 = 1e-16 against the exact ZF filter, with the bound
        # ||MMSE(s) - ZF||_F <= s ||(H^H H)^-1||_F ||ZF||_F that TLC proved on the enumerated s (MmseBound)
        cbound = math.sqrt(ratio(flt["ginv2"]) * ratio(flt["zf2"]))
        floor = TOL * max(1.0, float(np.linalg.norm(zf)))
        for e in flt["vanish"]:
            s0 = 10.0 ** (-e)
            nv = gn ** 2 * s0
            o.set_noise_var(nv)
            okc, d = call(res, "decode", o.decode, np.eye(nr, dtype=complex))
            if not okc:
                res.bad(f"{tag}: decode(I) with noise variance 1e-{e} raised {res.extra['exception']}")
                break
            gap = float(np.linalg.norm(gn * np.asarray(d).reshape((nt, nr), order="F") / rt - zf))
            if not res.check(gap <= s0 * cbound + floor,
                             f"{tag}: MmseWithinBoundOfZf fails: ||MMSE(1e-{e}) - ZF||_F = {gap:.3e} exceeds "
                             f"sigma^2 ||(H^H H)^-1|| ||ZF|| = {s0 * cbound:.3e} (the MMSE filter does not tend to the ZF filter)"):
                break
            if f_mm is not None:
                gap = float(np.linalg.norm(gn * np.asarray(f_mm(H.copy(), nv)) - zf))
                if not res.check(gap <= s0 * cbound + floor,
                                 f"{tag}: MmseWithinBoundOfZf fails for _calcMMSEFilter(H, 1e-{e}): distance to ZF {gap:.3e}, "
                                 f"bound {s0 * cbound:.3e}"):
                    break
        if f_rf is not None:
            res.check(close(gn * f_rf(H.copy(), 0.0), rt * zf) and close(gn * f_rf(H.copy(), None), rt * zf),
                      f"{tag}: _calc_receive_filter(H, 0 / None) differs from sqrt(Nt) ZF")
        # high noise: sigma^2 = 4, 16 (times gain^2), exact filters from TLC
        for hn in flt.get("hn", []):
            nv = gn ** 2 * hn["s"]
            mm = imat(hn["num"]) / hn["den"]
            o.set_noise_var(nv)
            okc, d = call(res, "decode", o.decode, np.eye(nr, dtype=complex))
            if not okc:
                res.bad(f"{tag}: decode(I) with noise variance {hn['s']} raised {res.extra['exception']}")
                break
            res.check(close(gn * np.asarray(d).reshape((nt, nr), order="F"), rt * mm),
                      f"{tag}: MMSE receive filter at high noise (sigma^2={hn['s']}) differs from sqrt(Nt) (H^H H + sigma^2 I)^-1 H^H")
        okc, e = call(res, "set_noise_var", o.set_noise_var, -1.0)
        res.check((not okc) and isinstance(e, ValueError), f"{tag}: set_noise_var(-1) did not raise ValueError")
    elif flt["kind"] == "rel":
        # GMDMimo (any shape) and Blast with Nt >= 4: relations on the equivalent channel, evaluated numerically (rel)
        okc, r = call(res, "configure", bench.obj, rec, 0, res.extra)
        if not okc:
            return res.bad(f"{tag}: configuring raised {res.extra['exception']}")
        o, H = r
        rt = math.sqrt(nt)
        try:
            Wp = observe_precoder(o, nt)
            o.set_noise_var(0.0)
            G0, order = observe_filter(o, nr)
        except Exception as ex:  # noqa
            return res.bad(f"{tag}: observing precoder / zero-forcing filter raised {type(ex).__name__}: {ex}")
        if order is None:
            return res.bad(f"{tag}: decode(I) is not the column-wise filter in row- or column-major layout")
        res.check(close(np.linalg.norm(Wp) ** 2, 1.0, RTOL_REL), f"{tag}: precoder does not have unit Frobenius norm")
        Heq = rt * H.dot(Wp)
        res.check(close(G0.dot(Heq) / rt, np.eye(nt), RTOL_REL),
                  f"{tag}: ZfLeftInverseOnEquivalentChannel fails: F Heq != sqrt(Nt) I")
        if flt.get("zfx"):      # exact side of the column-gain law: ZF(H D) = D^-1 ZF(H)
            zf = imat(flt["zfx"]["num"]) / flt["zfx"]["den"]
            dcol = col_gains(rec)
            res.check(close(gn * dcol[:, np.newaxis] * G0 / rt, zf),
                      f"{tag}: ColumnScaleLaw fails: zero-forcing filter of H D differs from D^-1 (H^H H)^-1 H^H")
        nG0 = float(np.linalg.norm(G0))
        # the code solves the normal equations: its distance to the pseudo-inverse is eps cond(Heq)^2 at best
        relfloor = max(RTOL_REL, 1e3 * np.finfo(float).eps * float(np.linalg.cond(Heq)) ** 2)
        settings = [(f"1/{qv}", gn ** 2 / qv) for qv in flt["qs"]] + [(str(sv), gn ** 2 * sv) for sv in flt["hn"]]
        for name, sv in settings:
            try:
                o.set_noise_var(sv)
                Gs, _ = observe_filter(o, nr, order)
            except Exception as ex:  # noqa
                return res.bad(f"{tag}: decode(I) with sigma^2={name} raised {type(ex).__name__}: {ex}")
            r_def = mmse_relation(Heq, Gs, sv, nt)
            if not res.check(r_def <= RTOL_REL, f"{tag}: MmseDefiningOnEquivalentChannel fails (sigma^2={name}): relative residual {r_def:.3e}"):
                return
        cb = float(np.linalg.norm(np.linalg.inv(Heq.conj().T.dot(Heq)))) * nG0
        for e in flt["vanish"][1::2]:
            sv = gn ** 2 * 10.0 ** (-e)
            try:
                o.set_noise_var(sv)
                Gs, _ = observe_filter(o, nr, order)
            except Exception as ex:  # noqa
                return res.bad(f"{tag}: decode(I) with sigma^2=1e-{e} raised {type(ex).__name__}: {ex}")
            gap = float(np.linalg.norm(Gs - G0))
            if not res.check(gap <= sv * cb + relfloor * nG0,
                             f"{tag}: MmseWithinBoundOfZf fails: ||F(1e-{e}) - F(0)||_F = {gap:.3e} exceeds {sv * cb:.3e} "
                             f"(relative to ||F(0)|| = {nG0:.3e})"):
                return
    elif flt["kind"] == "mrt":
        okc, r = call(res, "configure", bench.obj, rec, 0, res.extra)
        if not okc:
            return res.bad(f"{tag}: configuring raised {res.extra['exception']}")
        o, H = r
        rt = math.sqrt(nt)
        W = np.array([[gc(p)] for p in flt["phases"]], dtype=complex) / rt
        g = rt / flt["gain"]
        okc, w_pub = call(res, "encode", o.encode, np.array([1.0 + 0j]))
        res.check(okc and close(np.asarray(w_pub), W), f"{tag}: MRT precoder (encode(1)) differs from exp(-j arg h)/sqrt(Nt)")
        okc, g_pub = call(res, "decode", o.decode, np.array([[1.0 + 0j]]))
        res.check(okc and close(gn * np.asarray(g_pub).reshape(-1), np.array([g])), f"{tag}: MRT receive gain differs from sqrt(Nt)/sum|h|")
        for s in flt["sinr"]:
            nv = gn ** 2 / s["q"]
            exp = s["v"][0] / s["v"][1]
            if lin is not None:
                got = np.asarray(lin(H.copy(), W, g / gn, nv), dtype=float).reshape(-1)
                res.check(close(got, np.array([exp])), f"{tag}: linear SINR (sigma^2=1/{s['q']}) differs from (sum|h|)^2/(Nt sigma^2)")
            okc, got = call(res, "calc_linear_SINRs", o.calc_linear_SINRs, nv)
            if okc:
                got = np.asarray(got, dtype=float).reshape(-1)
                if close(got, np.array([10 * math.log10(exp)])):
                    res.obs.append("calc_linear_SINRs returns dB")
                    got = 10 ** (got / 10)
                res.check(close(got, np.array([exp])), f"{tag}: MRT.calc_linear_SINRs(1/{s['q']}) differs from (sum|h|)^2/(Nt sigma^2)")
            else:
                res.bad(f"{tag}: calc_linear_SINRs raised {res.extra['exception']}")
    elif flt["kind"] == "alamouti":
        okc, r = call(res, "configure", bench.obj, rec, 0, res.extra)
        if not okc:
            return res.bad(f"{tag}: configuring raised {res.extra['exception']}")
        o, H = r
        for s in flt["sinr"]:
            nv = gn ** 2 / s["q"]
            exp = s["v"][0] / s["v"][1]
            okc, got = call(res, "calc_linear_SINRs", o.calc_linear_SINRs, nv)
            if not okc:
                res.bad(f"{tag}: calc_linear_SINRs raised {res.extra['exception']}")
                continue
            got = float(np.asarray(got, dtype=float).reshape(-1)[0])
            if close(got, 2 * exp) and not close(got, exp):
                # ||H||^2/sigma^2: twice the first-principles value ||H||^2/(2 sigma^2) (the code's own comment has the 2);
                # pinned by the suite and outside the statement of C04: recorded, not judged
                res.obs.append("Alamouti.calc_linear_SINRs is ||H||^2/sigma^2 (first principles: /2)")
                res.ok()
            else:
                res.check(close(got, exp), f"{tag}: Alamouti.calc_linear_SINRs(1/{s['q']}) = {got:.12g}, expected ||H||^2/(2 sigma^2) = {exp:.12g}")
            okc, got_db = call(res, "calc_SINRs", o.calc_SINRs, nv)
            res.check(okc and close(float(np.asarray(got_db).reshape(-1)[0]), 10 * math.log10(got)),
                      f"{tag}: Alamouti.calc_SINRs is not 10 log10 of calc_linear_SINRs")


def sinr_verdict(res, got, exp, asis, what):
    got = np.asarray(got, dtype=float).reshape(-1)
    if close(got, exp):
        res.ok()
    elif close(got, asis):
        res.bad(f"{what}: interfering streams are added coherently (|sum e_kj|^2 instead of sum |e_kj|^2): "
                f"got {got.tolist()}, first principles {exp.tolist()}", "SinrCoherentInterference")
    else:
        res.bad(f"{what}: got {got.tolist()}, expected {exp.tolist()}")


def eval_badlen(rec, bench, res):
    tag = f"{rec['sch']} {rec['nr']}x{rec['nt']} k={rec['k']}"
    okc, r = call(res, "configure", bench.obj, rec, 0, res.extra)
    if not okc:
        return res.bad(f"{tag}: configuring raised {res.extra['exception']}")
    o, _ = r
    okc, e = call(res, "encode", o.encode, ivec(rec["x"]))
    res.check((not okc) and isinstance(e, ValueError),
              f"{tag}: encode of {len(rec['x'])} symbols (not a multiple of Nt) did not raise ValueError")


def evaluate(rec, bench=None):
    bench = bench or Bench()
    res = Res(rec)
    with np.errstate(all="ignore"):
        try:
            {"link": eval_link, "filters": eval_filters, "badlen": eval_badlen}[rec["op"]](rec, bench, res)
        except Exception as ex:  # harness must not hide an implementation crash as a machinery failure
            res.bad(f"{rec['op']} {rec['sch']} k={rec['k']}: unexpected {type(ex).__name__}: {ex}")
    return res


def eval_chunk(recs):
    bench = Bench()
    out = []
    for rec in recs:
        r = evaluate(rec, bench)
        out.append((r.n, r.viol, r.obs, r.extra.get("hist")))
    return out


def case_key(rec):
    return (rec["op"], rec["sch"], repr(rec["H"]), repr(rec.get("x")), repr([st["a"] for st in rec.get("steps", [])]))


# ------------------------------------------------------------------------------- the check
def plan(ctx):
    """list of (label, kwargs for build) - disjoint partitions of the case space, one TLC process each"""
    seed = ctx.seed
    jobs = []
    if ctx.tier == "quick":
        nch, parts, ndata = 64, 8, 2
        qs = [[1, 4, 16]] * 4
        dq = [{4}] * 4
        step = nch // parts
        for p in range(parts):
            jobs.append((f"all/k{p}", dict(schemes=ALL, shapes=SHAPES_Q + BIG_Q, klo=p * step + 1, khi=(p + 1) * step, seed=seed,
                                           ndata=ndata, qs=qs, decqs=dq, hist_every=24, hist_deep=4)))
    else:
        nch, parts, ndata = 700, 14, 3
        qs = [[1, 4, 16, 64], [1, 4, 16, 64], [1, 4, 16], [1, 4, 16, 64]]
        dq = [{1, 64}, {1, 64}, {1, 16}, {1}]
        step = nch // parts
        for p in range(parts):
            jobs.append((f"all/k{p}", dict(schemes=ALL, shapes=SHAPES_T + BIG_T, klo=p * step + 1, khi=(p + 1) * step, seed=seed,
                                           ndata=ndata, qs=qs, decqs=dq, hist_every=70, hist_deep=4)))
        # larger entries (|h|^2 <= 5) where the arithmetic stays inside 32 bits: Nt <= 2
        sh2 = [s for s in SHAPES_T if s[1] <= 2]
        qs2 = [[1, 4, 16]] * 4
        for p in range(6):
            jobs.append((f"med/k{p}", dict(schemes=ALL, shapes=sh2, klo=2000 + p * 50 + 1, khi=2000 + (p + 1) * 50, seed=seed,
                                           ndata=2, qs=qs2, decqs=[{16}] * 4, alpha=ALPHA_MED, pyth=PYTH_BIG)))
    return jobs


def model_jobs(ctx):
    """coverage of the actions on a small instance + refutation of each named deviation (one TLC run each, run
    side by side with the emission runs)"""
    qs = [[1, 4, 16]] * 4

    def coverage():
        cfg, defs = build(ALL, [(1, 1), (1, 2), (2, 1), (2, 2), (3, 2), (5, 5)], 1, 2, ctx.seed, 1, qs, [{4}] * 4, emit=False,
                          hist_every=2, hist_deep=3)
        r = tlc_run(cfg, defs, coverage=True)
        return ("coverage", r)

    want = {"SvdNeedsSquare": (("RoundTrip",), ["svd"], [(3, 2)], 2, 2),
            "SinrCoherentInterference": (("SinrFirstPrinciples",), ["blast"], [(3, 3)], 2, 2),
            # needs the history  set_noise_var(1/q), decode, set_noise_var(None), decode  on one object
            "NvNoneKeepsFilter": (("RoundTrip", "FilterFresh"), ["blast", "mrc"], [(2, 1), (2, 2)], 2, 4),
            # a query / a refused call inside a history must leave the later decodes alone
            "QuerySetsNoiseVar": (("QueryIsPure", "RoundTrip", "FilterFresh"), ["blast", "mrc"], [(2, 1), (2, 2)], 2, 2),
            "RejectedKeepsEffect": (("RejectedChangesNothing", "RoundTrip"), ["alamouti", "mrt"], [(1, 2), (2, 2)], 2, 2),
            # a well conditioned channel handed over with gain 1e-7; a scaled isometry (k = ISO_EVERY)
            "GmdAbsoluteTol": (("RoundTrip",), ["gmd"], [(2, 2)], 2, 2),
            "GmdTieBreaks": (("RoundTrip",), ["gmd"], [(2, 2)], ISO_EVERY, 2),
            # a near-isometry (orthogonal columns, gains 1 + n 2^-18): the zero-forcing filter is not H^H
            "ZfShortcutNearUnitary": (("RoundTrip",), ["blast"], [(2, 2)], 2 * ISO_EVERY, 2)}

    def dev_run(dev):
        inv, schemes, shapes, khi, deep = want[dev]
        cfg, defs = build(schemes, shapes, 1, khi, ctx.seed, 1, qs, [{4}] * 4, dev=[dev], emit=False, hist_every=1, hist_deep=deep)
        r = tlc_run(cfg, defs)
        if r.violated not in inv:
            raise tlc.TlcError(f"deviation {dev} is not refuted by {inv} of Mimo.tla (TLC reported {r.violated})")
        return (dev, r)

    return [coverage] + [(lambda d=d: dev_run(d)) for d in want]


def run(ctx):
    ctx.rule = ("TLC draws channels/data by the in-spec LCG and checks every invariant of Mimo.tla on each case; "
                "an evaluation = one comparison of a pyphysim result with the TLC-emitted exact value (or relation); "
                "distinct = distinct (operation, scheme, channel, data block, noise variance) executed on the real classes")
    ctx.assumptions += [
        "BLAST serial-to-parallel layout: the Nt symbols of one channel use are consecutive (column-major)",
        "tolerance 1e-9 relative (1e-8 for the SVD/GMD relations); channels are Gaussian-integer, full column rank, "
        "non-symmetric, distinct singular values, no singular value equal to the geometric mean (Nt = 3)",
        "SVDMimo/GMDMimo: only the relations DecodeEqualsData / EnergyPreserved are judged (rel)",
        "calc_linear_SINRs may return dB (pinned by the suite) - recorded as an observation, the value is judged after conversion",
    ]
    jobs = plan(ctx)

    def one(job):
        label, kw = job
        cfg, defs = build(**kw)
        return label, tlc_run(cfg, defs, workers=1)

    nthreads = int(os.environ.get("VERIF_PROCS", "0") or 0) or 15      # TLC processes run side by side
    with ThreadPoolExecutor(max(1, min(nthreads, len(jobs) + 1))) as ex:
        mfs = [ex.submit(f) for f in model_jobs(ctx)]
        futs = [ex.submit(one, j) for j in jobs]
        runs = [f.result() for f in futs]
        for f in mfs:
            name, r = f.result()
            if name == "coverage":
                ctx.account(r, MODULE, "intended/coverage")
                ctx.require_actions(ACTIONS)
            else:
                ctx.notes.setdefault("deviations_refuted_by_model", {})[name] = r.violated
    recs = []
    seen = set()
    for label, r in runs:
        ctx.account(r, MODULE, label)
        for e in r.emitted:
            k = case_key(e)
            if k in seen:
                continue
            seen.add(k)
            recs.append(e)
    if not recs:
        raise tlc.TlcError("TLC emitted no case")
    per = {}
    for e in recs:
        per[(e["op"], e["sch"])] = per.get((e["op"], e["sch"]), 0) + 1
    for sch in ALL:
        if per.get(("link", sch), 0) == 0:
            raise tlc.TlcError(f"no link case emitted for scheme {sch}")
    nchunk = 64
    size = max(1, (len(recs) + nchunk - 1) // nchunk)
    chunks = [recs[i:i + size] for i in range(0, len(recs), size)]
    results = pool_map(eval_chunk, chunks)
    obs = {}
    shapes_seen = set()
    sig = {}
    for chunk, outs in zip(chunks, results):
        for rec, (n, viol, ob, hist) in zip(chunk, outs):
            ctx.ok(case_key(rec), n=max(n, 0))
            ctx.trace_done()
            shapes_seen.add((rec["sch"], rec["nr"], rec["nt"]))
            for o in ob:
                obs[o] = obs.get(o, 0) + 1
            for fid, what in viol[:1]:
                case = dict(rec)
                case["hist"] = hist
                if fid:
                    # a defect with a known signature fails on every matching case: hand the first few to the
                    # verdict (each with its replay file), count the rest
                    sig[fid] = sig.get(fid, 0) + 1
                    if sig[fid] <= 2 or (fid in ctx.findings and ctx.findings[fid].get("status") == "open"):
                        ctx.finding(fid, what, case)
                else:
                    ctx.violation(what, case)
    # different signatures first, so that the few replay files written out cover all of them
    ctx.violations.sort(key=lambda v: 0 if not v["what"].startswith("[") else 1)
    ctx.notes["cases_matching_a_finding_signature"] = sig
    for e in recs:
        if e["op"] == "link" and e["sch"] == "blast" and e["nt"] == 3:
            ctx.sample({k: e[k] for k in ("op", "sch", "H", "x", "steps", "decs")})
            break
    for e in recs:
        if e["op"] == "link" and e["sch"] == "gmd" and e["nr"] > e["nt"]:
            ctx.sample({k: e[k] for k in ("op", "sch", "H", "x", "req")})
            break
    ctx.exhaustive = False
    ctx.notes["cases_per_operation_and_scheme"] = {f"{a}/{b}": n for (a, b), n in sorted(per.items())}
    ctx.notes["shapes_executed"] = sorted(f"{s}:{a}x{b}" for s, a, b in shapes_seen)
    ctx.notes["observations_not_judged"] = obs


def replay(ctx, data):
    rec = data["case"]
    bench = Bench()
    bench.preload(rec.get("hist"))
    r = evaluate(rec, bench)
    ctx.ok(case_key(rec), n=r.n)
    for fid, what in r.viol[:1]:
        if fid:
            ctx.finding(fid, what, rec)
        else:
            ctx.violation(what, rec)
