"""C06 - combining simulation results is independent of how repetitions were grouped.

Stage M: spec/sim/Results.tla per result type x accumulate on/off: PartitionLaw, StatsLaw,
OperandUnchanged hold on the intended instance; each deviation flag is refuted by TLC.
Stage R: the emitted state graph (nodes = which observations every stored result stands for) is
covered transition by transition on real Result / SimulationResults objects; after every step
every result of every set is compared with Fold(ghost sequence) as TLC computed it (exact
rationals; the alphabets are dyadic so the float code is exact).
Also: combine_simulation_results over overlapping parameter grids (spec/sim/Combine.tla)."""
import os
import random
from concurrent.futures import ThreadPoolExecutor
from fractions import Fraction

import numpy as np

from .. import tlc, graph
from ..core import pool_map

MODULE = "sim/Results.tla"
DEVS = ["EmptyMergeAliases", "MiscMergeAdds", "SqSumNotMerged", "SkipCounterCloned", "MiscEmptyOperandWins"]
NAME = "res"
OTHER = "reps"         # a second result name in every set (SUM of 10^(alphabet index)): merges must treat every name alike
NCHOICE = 3


def R(n, d=1):
    return [n, d]


ALPHA = {
    # the first two of each are used: a zero observation (a falsy value that is a valid observation) and a non-integer
    "SUM": [{"v": R(0), "t": R(0)}, {"v": R(3, 2), "t": R(0)}, {"v": R(5), "t": R(0)}],
    "RATIO": [{"v": R(1), "t": R(2)}, {"v": R(0), "t": R(2)}, {"v": R(3), "t": R(4)}],
    "CHOICE": [{"v": R(0), "t": R(0)}, {"v": R(2), "t": R(0)}, {"v": R(1), "t": R(0)}],
    "MISC": [{"v": R(0), "t": R(0)}, {"v": R(7, 2), "t": R(0)}, {"v": R(5), "t": R(0)}],
}


def model(typ, acc, nalpha, maxobs, dev=(), emit=True, skip=False):
    d = {k: (k in dev) for k in DEVS}
    defs = {"ObsAlpha": tlc.tla(ALPHA[typ][:nalpha]), "Dev": tlc.tla(d)}
    cfg = tlc.cfg_text(constants={"Type": tlc.tla(typ), "Acc": tlc.tla(bool(acc)), "NChoice": str(NCHOICE), "NSets": "3",
                                  "MaxObs": str(maxobs), "SkipOn": "TRUE" if (skip or "SkipCounterCloned" in dev) else "FALSE"},
                       defs=defs, invariants=["PartitionLaw", "Shape", "StatsLaw", "NoSharing"],
                       properties=["OperandUnchanged", "SkipLaw"], constraints=["Bound"],
                       action_constraints=["Emit"] if emit else [])
    return cfg, defs


def fr(q):
    return Fraction(q[0], q[1])


_NUMFORM = [0]


def num(q):
    """the value in one of the numeric types a caller may pass (Python int/float, numpy scalars)"""
    f = fr(q)
    _NUMFORM[0] += 1
    if f.denominator == 1:
        return (int(f), float(f), np.int64(int(f)), np.float64(float(f)))[_NUMFORM[0] % 4]
    return (float(f), np.float64(float(f)))[_NUMFORM[0] % 2]


def type_code(typ):
    from pyphysim.simulations.results import Result
    return {"SUM": Result.SUMTYPE, "RATIO": Result.RATIOTYPE, "CHOICE": Result.CHOICETYPE, "MISC": Result.MISCTYPE}[typ]


def eq(a, b):
    try:
        return abs(float(a) - float(b)) <= 1e-12 * max(1.0, abs(float(b)))
    except (TypeError, ValueError):       # e.g. the initial text of a MISC result where a number is due: unequal, not a harness error
        return False


def flag_of(acc, form):
    """the accumulate_values argument: the plain bool, or another value of the same truthiness"""
    return ((True, np.True_, 1) if acc else (False, 0, np.False_))[form % 3]


def lists_state(r, exp):
    """(accumulated lists are what accumulation demands, accumulated lists are empty)"""
    f = exp["f"]
    d = r.to_dict() if hasattr(r, "to_dict") else r._to_dict()
    vl = [float(fr(x)) for x in f["vlist"]]
    tl = [float(fr(x)) for x in f["tlist"]]
    return ([float(x) for x in d["value_list"]] == vl and [float(x) for x in d["total_list"]] == tl,
            len(d["value_list"]) == 0 and len(d["total_list"]) == 0)


def compare_result(r, exp, typ, acc, lists=True):
    """list of discrepancies between a real Result and TLC's Fold record"""
    bad = []
    f = exp["f"]
    d = r.to_dict() if hasattr(r, "to_dict") else r._to_dict()
    if typ == "MISC":
        if exp["n"] == 0:
            return bad
        if not eq(d["value"], fr(f["value"])):
            bad.append(f"value {d['value']} != last observation {fr(f['value'])}")
        if not eq(r.get_result(), fr(f["value"])):
            bad.append("get_result() is not the last observation")
        return bad
    if r.num_updates != f["n"]:
        bad.append(f"num_updates {r.num_updates} != {f['n']}")
    if typ == "CHOICE":
        if list(np.asarray(d["value"]).astype(int)) != list(f["value"]):
            bad.append(f"choice counts {list(d['value'])} != {f['value']}")
        if f["n"] > 0:
            got = r.get_result()
            want = [c / f["n"] for c in f["value"]]
            if not np.allclose(got, want, rtol=0, atol=1e-12):
                bad.append(f"get_result() {got} != {want}")
            # the sufficient statistics of a choice result stay zero: mean and variance are defined (0) and must not raise
            if not (eq(r.get_result_mean(), 0) and eq(r.get_result_var(), 0)):
                bad.append(f"choice result: mean {r.get_result_mean()} / variance {r.get_result_var()}, expected 0 / 0")
    else:
        if not eq(d["value"], fr(f["value"])):
            bad.append(f"value {d['value']} != {fr(f['value'])}")
        if f["n"] > 0 and (typ != "RATIO" or fr(f["total"]) != 0):
            want = fr(f["value"]) / fr(f["total"]) if typ == "RATIO" else fr(f["value"])
            if not eq(r.get_result(), want):
                bad.append(f"get_result() {r.get_result()} != {want}")
    if not eq(d["total"], fr(f["total"])):
        bad.append(f"total {d['total']} != {fr(f['total'])}")
    if not eq(d["result_sum"], fr(f["sum"])):
        bad.append(f"result_sum {d['result_sum']} != {fr(f['sum'])}")
    if not eq(d["result_squared_sum"], fr(f["sqsum"])):
        bad.append(f"result_squared_sum {d['result_squared_sum']} != {fr(f['sqsum'])}")
    if exp["st"]:
        if not eq(r.get_result_mean(), fr(exp["st"]["mean"])):
            bad.append(f"mean {r.get_result_mean()} != {fr(exp['st']['mean'])}")
        if not eq(r.get_result_var(), fr(exp["st"]["var"])):
            bad.append(f"var {r.get_result_var()} != {fr(exp['st']['var'])}")
    if not lists:
        return bad
    vl = [float(fr(x)) for x in f["vlist"]]
    tl = [float(fr(x)) for x in f["tlist"]]
    if [float(x) for x in d["value_list"]] != vl:
        bad.append(f"accumulated values {d['value_list']} != {vl}")
    if [float(x) for x in d["total_list"]] != tl:
        bad.append(f"accumulated totals {d['total_list']} != {tl}")
    return bad


class _Watchdog(Exception):
    pass


_HUNG = False


def _alarm(*_):
    raise _Watchdog()


def run_path(job):
    """(steps conforming, first discrepancy or None); a path that uses more than 120 s of CPU time is a violation (processor
    time of this worker, not wall-clock time: a busy machine must not look like a program that does not terminate)"""
    import signal
    from ..core import preload
    global _HUNG
    if _HUNG:                       # this worker already reported a program that does not terminate: bounded waits, then skip
        return 0, None
    preload()                       # imports are not part of the call under test (see core.preload)
    signal.signal(signal.SIGPROF, _alarm)
    signal.setitimer(signal.ITIMER_PROF, 60)
    import time as _t
    _c0 = _t.process_time()
    try:
        try:
            try:
                return _run_path(job)
            except _Watchdog:
                # a program that does not terminate does so every time: the verdict needs the watchdog to fire twice
                signal.setitimer(signal.ITIMER_PROF, 120)
                return _run_path(job)
        except _Watchdog:
            raise
        except Exception as ex:      # noqa - raised while results were being compared: a verdict, not a harness error
            return 0, {"step": -1, "op": {"op": "?"}, "what": f"the results cannot be examined: {type(ex).__name__}: {ex}", "fid": None}
    except _Watchdog:
        _HUNG = True
        return 0, {"step": -1, "op": {"op": "?"}, "what": "program did not terminate within 120 s of processor time (twice)", "fid": None}
    finally:
        signal.setitimer(signal.ITIMER_PROF, 0)
        if os.environ.get("C06_TIMING") and _t.process_time() - _c0 > 1.0:
            open("/tmp/c06-timing.txt", "a").write(f"{job[0]} {job[1]} {len(job[3])} {_t.process_time() - _c0:.2f}\n")


def _run_path(job):
    typ, acc, alpha, edges = job[:4]
    form = job[4] if len(job) > 4 else 0
    skipon = bool(job[5]) if len(job) > 5 else False
    flag = flag_of(acc, form)
    # a truthy flag that is not `True` may be honoured or ignored, but the same way by every operation of the history
    mode = None if (acc and form % 3) else ("acc" if acc else "noacc")
    from pyphysim.simulations.results import Result, SimulationResults
    tc = type_code(typ)
    sets = [SimulationResults() for _ in range(3)]
    cur_exp = [[], [], []]
    okc = 0
    for i, e in enumerate(edges):
        op = e["op"]
        try:
            s = op["s"] - 1
            if op["op"] == "RejectedUpdate":
                r = sets[s][NAME][-1]
                try:
                    if typ == "RATIO":
                        r.update(1)                     # no total
                    else:
                        r.update(NCHOICE + 4)           # no such choice
                    return okc, {"step": i, "op": op, "what": "an invalid observation was accepted", "fid": None}
                except (ValueError, AssertionError, IndexError):
                    pass
            elif op["op"] == "AddEmpty":
                sets[s] = SimulationResults()
                sets[s].add_result(Result(NAME, tc, accumulate_values=flag, choice_num=NCHOICE if typ == "CHOICE" else None))
                sets[s].add_result(Result(OTHER, Result.SUMTYPE))
            elif op["op"] in ("AddNew", "UpdateLast"):
                ob = alpha[op["k"] - 1]
                v, t = num(ob["v"]), num(ob["t"])
                if op["op"] == "AddNew":
                    sets[s] = SimulationResults()
                    sets[s].add_new_result(OTHER, Result.SUMTYPE, 10 ** (op["k"] - 1))
                    if skipon and (op["s"] + op["k"]) % 2 == 0:          # HasSkip of the specification: this set carries the runner's counter
                        sets[s].add_new_result("num_skipped_reps", Result.SUMTYPE, op["k"])
                    if typ == "CHOICE":
                        r = Result.create(NAME, tc, int(v), NCHOICE, accumulate_values=flag)
                        sets[s].add_result(r)
                    elif acc or form % 3:
                        sets[s].add_result(Result.create(NAME, tc, v, t, accumulate_values=flag))
                    else:
                        sets[s].add_new_result(NAME, tc, v, t)
                else:
                    sets[s][OTHER][-1].update(10 ** (op["k"] - 1))
                    r = sets[s][NAME][-1]
                    if typ == "CHOICE":
                        r.update(int(v))
                    elif typ == "RATIO":
                        r.update(v, t)
                    else:
                        r.update(v)
            else:
                t_ = op["t"] - 1
                if op["op"] == "MergeRes":
                    sets[s][NAME][-1].merge(sets[t_][NAME][-1])
                    sets[s][OTHER][-1].merge(sets[t_][OTHER][-1])
                elif op["op"] == "MergeAll":
                    sets[s].merge_all_results(sets[t_])
                elif op["op"] == "AppendAll":
                    sets[s].append_all_results(sets[t_])
                    sets[t_] = SimulationResults()
        except Exception as ex:
            fid = "ChoiceUpdateRaises" if (typ == "CHOICE" and isinstance(ex, AttributeError) and "np.int" in str(ex).replace("numpy", "np") or "has no attribute 'int'" in str(ex)) else None
            return okc, {"step": i, "op": op, "what": f"{op['op']} raised {type(ex).__name__}: {ex}", "fid": fid}
        for si in range(3):
            want_sk = [float(x) for x in e["post"]["skp"][si]]
            have_sk = ([float(r.get_result()) for r in sets[si]["num_skipped_reps"]]
                       if "num_skipped_reps" in sets[si].get_result_names() else [])
            if have_sk != want_sk:
                return okc, {"step": i, "op": op, "what": f"set {si + 1}: num_skipped_reps results hold {have_sk}, the merge law demands {want_sk}", "fid": None}
        for si, exps in enumerate(e["exp"]):
            if exps == ["same"]:
                exps = cur_exp[si]
            cur_exp[si] = exps
            have = sets[si][NAME] if NAME in sets[si].get_result_names() else []
            if len(have) != len(exps):
                return okc, {"step": i, "op": op, "what": f"set {si + 1} holds {len(have)} results, expected {len(exps)}", "fid": None}
            oth = sets[si][OTHER] if OTHER in sets[si].get_result_names() else []
            ghost = e["post"]["sobs"][si]
            for p, ex_ in enumerate(exps):
                try:
                    bad = compare_result(have[p], ex_, typ, acc, lists=(typ != "MISC" and mode is not None and form % 3 == 0))
                except Exception as ex:         # noqa - a query of the result raised: a verdict about the code, not a harness error
                    bad = [f"querying the result raised {type(ex).__name__}: {ex}"]
                if typ != "MISC" and (mode is None or form % 3):
                    acc_ok, empty_ok = lists_state(have[p], ex_)
                    if mode is None and acc_ok != empty_ok:
                        mode = "acc" if acc_ok else "noacc"
                    if not (acc_ok if mode == "acc" else empty_ok if mode == "noacc" else (acc_ok or empty_ok)):
                        bad.append(f"accumulate_values={flag!r}: the accumulated lists are neither those of an accumulating result nor "
                                   f"empty the way the earlier operations of this history left them (mode {mode})")
                want_o = sum(10 ** alpha.index(ob) for ob in ghost[p])
                if len(oth) != len(exps) or oth[p].num_updates != len(ghost[p]) or (len(ghost[p]) and oth[p].get_result() != want_o):
                    bad.append(f"second result name holds {oth[p].get_result() if len(oth) == len(exps) else 'a list of other length'}, expected {want_o} "
                               f"({len(ghost[p])} updates)")
                if bad:
                    other = (op["op"] in ("MergeRes", "MergeAll", "UpdateLast") and si != op["s"] - 1)
                    what = ("operand/bystander mutated: " if other else "") + f"set {si + 1} result {p}: " + "; ".join(bad)
                    return okc, {"step": i, "op": op, "what": what, "fid": None}
        okc += 1
    return okc, None


def explore(ctx, typ, acc, nalpha, r, skip=False):
    name = f"{typ}/{'acc' if acc else 'noacc'}" + ("/skip-counter" if skip else "")
    ctx.account(r, MODULE, name)
    edges = [{"pre": e["pre"], "post": e["post"], "op": e["op"], "exp": e["exp"]} for e in r.emitted]
    g = graph.Graph(edges, label=lambda e: graph.key(e["op"]))
    root = g.roots()[0]
    rng = random.Random(ctx.seed)
    paths = g.transition_cover(root, max_len=10, rng=rng)
    paths += g.random_walks(root, 200 if ctx.tier == "quick" else 3000, 10, rng)
    alpha = ALPHA[typ][:nalpha]
    jobs = [(typ, acc, alpha, g.path_edges(p), k, skip) for k, p in enumerate(paths)]
    res = pool_map(run_path, jobs, chunksize=max(1, len(jobs) // 64))
    for job, (okc, v) in zip(jobs, res):
        ctx.ok(n=okc)
        ctx.trace_done()
        if v:
            case = {"type": typ, "acc": acc, "alpha": alpha, "path": job[3], "form": job[4], "skip": skip, "failing": v}
            if v["fid"]:
                ctx.finding(v["fid"], v["what"], case)
            else:
                ctx.violation(f"{name}: {v['what']} (step {v['step']} op {v['op']})", case)
    for _, _, e in g.edges:
        ctx.distinct.add(name + graph.key(e["pre"]) + graph.key(e["op"]))
    ctx.sample({"config": name, "program": [e["op"] for e in g.path_edges(paths[len(paths) // 3])]})


def model_devs(ctx):
    for dev, typ, viol in [("EmptyMergeAliases", "SUM", None), ("MiscMergeAdds", "MISC", None), ("SqSumNotMerged", "RATIO", None),
                           ("SkipCounterCloned", "SUM", None), ("MiscEmptyOperandWins", "MISC", None)]:
        cfg, defs = model(typ, True, 2, 3, dev=[dev], emit=False)
        r = tlc.run(MODULE, cfg, defs=defs)
        if not r.violated:
            raise tlc.TlcError(f"deviation {dev} is not detected by the properties of Results.tla")
        ctx.notes.setdefault("deviations_refuted_by_model", {})[dev] = r.violated


def run(ctx):
    ctx.rule = ("TLC enumerates every program of AddNew/UpdateLast/MergeRes/MergeAll/AppendAll over 3 result sets holding at most "
                "MaxObs observations in total (all partitions, all merge orders); distinct = (ghost state, operation) pairs executed")
    ctx.assumptions += ["observation alphabets are dyadic rationals so that float accumulation is exact",
                        "MISC results: only the value (last observation wins) is claimed",
                        "a MISC operand that never saw an observation leaves the receiver as it is (no last observation to take over)"]
    thorough = ctx.tier == "thorough"
    cfgs = []
    for typ in ("SUM", "RATIO", "CHOICE", "MISC"):
        for acc in (True, False):
            if not thorough and not acc:
                continue      # quick: the accumulate-off variants are subsumed; the representative is the skip-counter configuration below
            if thorough and acc and typ in ("SUM", "RATIO"):
                nalpha, maxobs = 2, 4        # ~20k states, ~4e5 transitions each
            else:
                nalpha, maxobs = (3 if typ == "CHOICE" and thorough else 2), 3       # thorough: all three choice indexes
            cfgs.append((typ, acc, nalpha, maxobs))
    # the runner's num_skipped_reps counter carried by some of the sets (merge_all_results has a special rule for it)
    cfgs.append(("SUM", False, 1, 3, True))            # one-letter alphabet: sets 1 and 3 carry the counter, set 2 does not
    model_devs(ctx)
    # one configuration after the other in the thorough tier (the emitted graphs are large), all at once in the quick tier
    group = 2 if thorough else 8
    for i in range(0, len(cfgs), group):
        part = cfgs[i:i + group]
        with ThreadPoolExecutor(group) as ex:
            runs = list(ex.map(lambda c: tlc.run(MODULE, *model(*c[:4], skip=(len(c) > 4 and c[4]))[:1], defs=model(*c[:4], skip=(len(c) > 4 and c[4]))[1],
                                                 coverage=not thorough, timeout=3000, heap="3g"), part))
        for c, r in zip(part, runs):
            explore(ctx, c[0], c[1], c[2], r, skip=(len(c) > 4 and c[4]))
            r.emitted = None
            r.out = ""
        del runs
    if not thorough:
        ctx.require_actions(["AddNew", "AddEmpty", "UpdateLast", "RejectedUpdate", "MergeRes", "MergeAll", "AppendAll"])
    ctx.exhaustive = True
    from . import c06_combine
    c06_combine.run(ctx)
    d = array_obs_case()
    ctx.ok(("array-obs",))
    if d:
        ctx.violation(d, {"kind": "array-obs"})
    # very long histories by doubling (counts far beyond 2^31)
    jobs = [(typ, acc, 45) for typ in ("SUM", "RATIO", "CHOICE") for acc in (False,)]
    for job, d in zip(jobs, pool_map(doubling_case, jobs)):
        ctx.ok(("doubling",) + job)
        if d:
            ctx.violation(d, {"kind": "doubling", "job": list(job)})


def doubling_case(job):
    """PartitionLaw for very long histories: a result merged k times with a copy of itself is the fold of 2^k copies of its
    observations - counts beyond 2^31 / 2^53 must still be exact (Python integers in the expectation)"""
    import copy
    typ, acc, steps = job
    from pyphysim.simulations.results import Result
    tc = type_code(typ)
    if typ == "CHOICE":
        r = Result.create(NAME, tc, 0, NCHOICE, accumulate_values=acc)
        r.update(2)
        r.update(2)
        base = {"n": 3, "counts": [1, 0, 2], "total": 3}
    elif typ == "RATIO":
        r = Result.create(NAME, tc, 1, 4, accumulate_values=acc)
        r.update(3, 4)
        base = {"n": 2, "value": 4, "total": 8}
    else:
        r = Result.create(NAME, tc, 3, accumulate_values=acc)
        r.update(5)
        base = {"n": 2, "value": 8, "total": 0}
    for k in range(1, steps + 1):
        try:
            other = copy.deepcopy(r)
            r.merge(other)
            f = 2 ** k
            d = r.to_dict() if hasattr(r, "to_dict") else r._to_dict()
            if r.num_updates != base["n"] * f:
                return f"{typ}: after {k} doublings num_updates is {r.num_updates}, expected {base['n'] * f}"
            if typ == "CHOICE":
                got = [int(x) for x in d["value"]]
                if got != [c * f for c in base["counts"]] or int(d["total"]) != base["total"] * f:
                    return f"{typ}: after {k} doublings the counts are {got} / total {d['total']}, expected {[c * f for c in base['counts']]} / {base['total'] * f}"
                shares = [float(x) for x in r.get_result()]
                if shares != [c / base["total"] for c in base["counts"]]:
                    return f"{typ}: after {k} doublings get_result() is {shares}"
            else:
                if float(d["value"]) != float(base["value"] * f) or float(d["total"]) != float(base["total"] * f):
                    return f"{typ}: after {k} doublings value / total are {d['value']} / {d['total']}, expected {base['value'] * f} / {base['total'] * f}"
        except Exception as ex:        # noqa
            return f"{typ}: doubling {k} raised {type(ex).__name__}: {ex}"
    return None


def array_obs_case(_=None):
    """(rel) array-valued observations: the sum is the element-wise sum, in one object or split and merged; neither the
    caller's arrays nor the merged-in operand are written to"""
    try:
        from pyphysim.simulations.results import Result
        obs = [np.array([1.0, 2.0]), np.array([10.0, 20.0]), np.array([100.0, 200.0])]
        keep = [o.copy() for o in obs]
        for cut in (1, 2):
            one = Result("v", Result.SUMTYPE)
            for o in obs:
                one.update(o)
            a, b = Result("v", Result.SUMTYPE), Result("v", Result.SUMTYPE)
            for o in obs[:cut]:
                a.update(o)
            for o in obs[cut:]:
                b.update(o)
            bval = np.array(b.get_result())
            a.merge(b)
            want = np.sum(keep, axis=0)
            for what, r in (("one object", one), (f"split {cut}+{3 - cut} and merged", a)):
                if not np.array_equal(np.asarray(r.get_result()), want) or r.num_updates != 3:
                    return f"array observations, {what}: value {r.get_result()}, {r.num_updates} updates; expected {want.tolist()}, 3"
            if not np.array_equal(np.asarray(b.get_result()), bval) or b.num_updates != 3 - cut:
                return "array observations: the merged-in operand was changed by the merge"
            for o, k in zip(obs, keep):
                if not np.array_equal(o, k):
                    return f"array observations: the caller's observation array {k.tolist()} was overwritten with {o.tolist()}"
        return None
    except Exception as ex:      # noqa
        return f"array observations: {type(ex).__name__}: {ex}"


def replay(ctx, data):
    if data["case"].get("kind") == "array-obs":
        d = array_obs_case()
        ctx.ok()
        if d:
            ctx.violation(d, data)
        return
    c = data["case"]
    if c.get("kind") == "doubling":
        d = doubling_case(tuple(c["job"]))
        ctx.ok()
        if d:
            ctx.violation(d, c)
        return
    if c.get("kind") == "combine":
        from . import c06_combine
        return c06_combine.replay(ctx, c)
    okc, v = run_path((c["type"], c["acc"], c["alpha"], c["path"], c.get("form", 0), c.get("skip", False)))
    ctx.ok(n=okc)
    if v:
        if v["fid"]:
            ctx.finding(v["fid"], v["what"], c)
        else:
            ctx.violation(v["what"], c)
