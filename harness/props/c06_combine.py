"""C06, CombineLaw: combine_simulation_results over overlapping parameter grids obeys the merge law per
parameter combination (cases and expected pairing from spec/sim/Params.tla)."""
from ..core import pool_map
from . import params_common as pc


def run(ctx):
    thorough = ctx.tier == "thorough"
    runs = [("combine", [[1, 2, 3, 4]], [2 if not thorough else 3], "combine/1param")]
    runs.append(("combine", [[1, 2, 3], [1, 2]], [2, 2], "combine/2params"))
    runs.append(("combine", [], [], "combine/0params"))          # result sets of simulations without unpacked parameters
    # both association orders of a three-way combine (operands that hold observation-less results are merged again)
    runs.append(("combine3", [[1, 2, 3]], [2], "combine3/1param"))
    if thorough:
        runs.append(("combine", [[1, 2, 3, 4], [1, 2, 3]], [3, 2], "combine/2params-large"))
        runs.append(("combine3", [[1, 2], [1, 2]], [2, 2], "combine3/2params"))
    for mode, universe, maxlen, label in runs:
        r = pc.run_tlc(ctx, mode, universe, maxlen, label)
        cases = r.emitted
        res = pool_map(pc.run_case, cases, chunksize=max(1, len(cases) // 64))
        for c, d in zip(cases, res):
            ctx.ok((c["kind"], str(c["ga"]), str(c["gb"]), str(c.get("gc")), c.get("nobs"), c.get("acc")))
            if d:
                ctx.violation(f"{label}: {d}", {"kind": "combine", "case": c})
        if cases:
            ctx.sample({"combine": {"ga": cases[len(cases) // 2]["ga"], "gb": cases[len(cases) // 2]["gb"],
                                    "expected_pairing": cases[len(cases) // 2]["exp"]}})
    ctx.require_actions(["Next"])


def replay(ctx, c):
    d = pc.run_case(c["case"])
    ctx.ok()
    if d:
        ctx.violation(d, c)
