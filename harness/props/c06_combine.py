def run(ctx):
    pass


def replay(ctx, c):
    pass
