"""C18, stage T: calls recorded on the real pyphysim reference-signal code with random arguments are
validated by TLC against spec/refsig/Trace_ZadoffChu.tla (one batched run).

The recorder makes every observation exact before TLC sees it: an element of modulus 1 becomes its
integer phase exponent on the grid the specification uses (residual checked here, -1 / -2 mark an element
that is not on the unit circle / not on the grid), get_extended_ZF is run on integer labels.  A canary
trace (a copy of a recorded event with one exponent moved by one grid step) is appended to every run and
must be rejected by TLC - otherwise the binding is dead and the run is a machinery failure."""
import copy
import json
import os
import re
import tempfile

import numpy as np

from .. import tlc

TRACE_MODULE = "refsig/Trace_ZadoffChu.tla"
JVM_ENV = {"JAVA_TOOL_OPTIONS": "-XX:ParallelGCThreads=1 -XX:CICompilerCount=2"}
GRID_TOL = 1e-7      # grid steps are >= pi / (1193 * 12) = 2.2e-4


def quant(x, M):
    """complex array -> exponents t (mod 2M) with x = exp(-j pi t / M); -1: |x| != 1, -2: off the grid"""
    x = np.asarray(x, dtype=complex)
    t = np.rint(-np.angle(x) * M / np.pi).astype(np.int64) % (2 * M)
    off = np.abs(x - np.exp(-1j * np.pi * t / M)) > GRID_TOL
    t[off] = -2
    t[np.abs(np.abs(x) - 1.0) > GRID_TOL] = -1
    return [int(v) for v in t]


def observe(a):
    """execute one call (arguments a) on the real code and make the observation exact"""
    from pyphysim.reference_signals.dmrs import DmrsUeSequence
    from pyphysim.reference_signals.root_sequence import RootSequence
    from pyphysim.reference_signals.srs import SrsUeSequence
    from pyphysim.reference_signals.zadoffchu import calcBaseZC, get_extended_ZF
    op = a["op"]
    if op == "zc":
        return dict(a, e=quant(calcBaseZC(a["n"], a["u"], a["q"]), a["n"]))
    if op == "ext":
        out = np.asarray(get_extended_ZF(np.arange(a["n"]), a["size"]))
        return dict(a, src=[int(v) for v in out])
    if op == "root-args":
        kw = {}
        if a["size"]:
            kw["size"] = a["size"]
        if a["given"]:
            kw["Nzc"] = a["given"]
        try:
            r = RootSequence(root_index=a["u"], **kw)
            return dict(a, out="ok", nzc=int(r.Nzc), len=int(r.size))
        except Exception as ex:       # the rule of the specification: AttributeError, nothing else
            return dict(a, out=type(ex).__name__, nzc=0, len=0)
    if op == "root" and a["given"] and a.get("omit"):
        root = RootSequence(root_index=a["u"], Nzc=a["given"])              # size omitted: size = Nzc
    elif op == "root" and a["given"]:
        root = RootSequence(root_index=a["u"], size=a["size"], Nzc=a["given"])
    else:
        root = RootSequence(root_index=a["u"], size=a["size"])
    if op == "root":
        return dict(a, nzc=int(root.Nzc), len=int(root.size), e=quant(root.seq_array(), int(root.Nzc)))
    D = 8 if a["fam"] == "srs" else 12
    if a["fam"] == "srs":
        seq = SrsUeSequence(root, a["ncs"], normalize=a["normalize"])
    else:
        cc = np.array(a["cover"]) if a["cover"] else None
        seq = DmrsUeSequence(root, a["ncs"], cover_code=cc, normalize=a["normalize"])
    arr = np.atleast_2d(seq.seq_array())
    p = float(np.mean(np.abs(arr) ** 2))
    norm2 = int(round(1.0 / p)) if p > 0 else 0
    arr = arr * np.sqrt(norm2)
    return dict(a, nzc=int(root.Nzc), norm2=norm2, t=[quant(row, int(root.Nzc) * D) for row in arr])


def choose(rng):
    """random arguments outside the alphabets the case families enumerate"""
    from pyphysim.reference_signals.root_sequence import RootSequence
    op = ["zc", "ext", "root", "root", "ue", "ue", "root-args"][rng.randint(7)]
    if op == "root-args":
        form = rng.randint(5)
        size = int(rng.randint(25, 1201))
        odd = 2 * int(rng.randint(12, 600)) + 1
        if form == 0:
            return {"op": op, "size": 0, "given": 0, "u": 1}                        # neither: rejected
        if form == 1:
            return {"op": op, "size": 0, "given": odd, "u": int(rng.randint(1, odd))}   # Nzc only
        if form == 2:
            return {"op": op, "size": odd, "given": odd, "u": int(rng.randint(1, odd))}  # size == Nzc explicitly
        if form == 3:
            g = odd + 2 * int(rng.randint(1, 20))
            return {"op": op, "size": max(25, odd), "given": max(25, odd) + (g - odd), "u": 1}   # size < Nzc: rejected
        return {"op": op, "size": max(size, odd), "given": min(size, odd) | 1, "u": 1}
    if op == "zc":
        n = int([2 * rng.randint(1, 31) + 1, 2 * rng.randint(1, 600) + 1, rng.randint(3, 400)][rng.randint(3)])
        return {"op": "zc", "n": n, "u": int(rng.randint(1, n)), "q": int(rng.randint(-3, 4)) * int(rng.randint(2))}
    if op == "ext":
        n = 2 * int(rng.randint(1, 60)) + 1
        return {"op": "ext", "n": n, "size": int(rng.randint(n, 4 * n + 2))}
    size = int(rng.randint(25, 1201))
    if op == "root" and rng.randint(4) == 0:
        # explicit base length (any odd length below the size; the extension may wrap several times)
        given = 2 * int(rng.randint(6, max(7, size // 2))) + 1
        given = min(given, size if size % 2 else size - 1)
        if rng.randint(3) == 0 and given > 24:
            return {"op": "root", "size": given, "u": int(rng.randint(1, given)), "given": given, "omit": True}
        return {"op": "root", "size": size, "u": int(rng.randint(1, given)), "given": given, "omit": False}
    have = RootSequence(root_index=1, size=size).Nzc          # a root index the code accepts for this size
    u = int(rng.randint(1, have))
    if op == "root":
        return {"op": "root", "size": size, "u": u, "given": 0}
    fam = ["srs", "dmrs"][rng.randint(2)]
    D = 8 if fam == "srs" else 12
    cover = [] if fam == "srs" else [[], [1, 1], [1, -1], [-1, 1], [-1, -1]][rng.randint(5)]
    return {"op": "ue", "fam": fam, "size": size, "u": u, "ncs": int(rng.randint(-(D - 1), D)),  # |n_cs| < D accepted
            "cover": cover, "normalize": bool(rng.randint(2))}


def record_event(rng):
    """comparisons are total: a call that raises while it is being observed is an event of its own (a verdict)"""
    a = choose(rng)
    try:
        return observe(a)
    except Exception as ex:
        return {"op": "raised", "args": a, "error": f"{type(ex).__name__}: {ex}"}


def record_trace(job):
    seed, nev = job
    rng = np.random.RandomState(seed)
    return {"seed": seed, "ev": [record_event(rng) for _ in range(nev)]}


def canary(traces):
    """copy of one recorded event with a single exponent moved by one grid step"""
    for t in traces:
        for e in t["ev"]:
            if e["op"] in ("zc", "root") and len(e["e"]) > 3 and e["e"][2] >= 0:
                bad = copy.deepcopy(e)
                bad["e"][2] = bad["e"][2] + 1
                return {"seed": -1, "ev": [bad]}
    return None


def validate(traces, defs, heavy_max):
    os.makedirs(tlc.WORK, exist_ok=True)
    fd, path = tempfile.mkstemp(prefix="c18-traces-", suffix=".json", dir=tlc.WORK)
    with os.fdopen(fd, "w") as f:
        json.dump([t["ev"] for t in traces], f)
    try:
        from . import c18
        d = dict(defs)
        d["HeavyMax"] = str(heavy_max)
        cfg = tlc.cfg_text(defs=d, init="TInit", next_="TNext", invariants=["Conforms"] + c18.INVARIANTS)
        r = tlc.run(TRACE_MODULE, cfg, defs=d, workers=2, env=dict(JVM_ENV, TRACE_FILE=path), continue_=True, heap="1500m")
    finally:
        os.unlink(path)
    bad = sorted({(int(a), int(b), c) for a, b, c in re.findall(r'mismatch = <<(\d+), (\d+), "([^"]*)">>', r.out)})
    first = {}
    for a, b, c in bad:
        first.setdefault(a, (a, b, c))
    if r.violated and r.violated != "Conforms":
        raise tlc.TlcError(f"Trace_ZadoffChu: invariant {r.violated} violated on a recorded call:\n{r.trace_text[:2000]}")
    return r, first


def describe(e):
    d = {k: v for k, v in e.items() if k not in ("e", "t", "src")}
    return json.dumps(d, sort_keys=True)


def run(ctx):
    from ..core import pool_map
    from . import c18
    th = ctx.tier == "thorough"
    ntr, nev = (300, 10) if th else (60, 8)
    jobs = [(ctx.seed * 100003 + 17 * i + 5, nev) for i in range(ntr)]
    traces = pool_map(record_trace, jobs, chunksize=max(1, ntr // 32))
    for t in traces:                       # calls that raised: verdicts, not part of what TLC validates
        for e in [e for e in t["ev"] if e["op"] == "raised"]:
            ctx.violation(f"recorded call {describe(e['args'])} raised {e['error']}", {"kind": "trace", "event": e["args"], "clause": "raised"})
        t["ev"] = [e for e in t["ev"] if e["op"] != "raised"]
    can = canary(traces)
    allt = traces + ([can] if can else [])
    _, defs = c18.model([], seed=ctx.seed)
    r, first = validate(allt, defs, 31 if th else 19)
    if can is None or len(allt) not in first:
        raise tlc.TlcError("Trace_ZadoffChu did not reject the canary trace: one logged exponent of one recorded call "
                           "moved by one grid step must be reported by TLC (binding not live)")
    ctx.notes["trace_negative_control"] = {"corrupted": "one exponent of one recorded calcBaseZC / RootSequence call + 1 grid step",
                                           "rejected_by_tlc": True, "clause": first[len(allt)][2]}
    first.pop(len(allt))
    r.violated = None
    ctx.account(r, TRACE_MODULE, f"{len(traces)} recorded traces")
    for i, t in enumerate(traces, 1):
        if i in first:
            _, b, clause = first[i]
            e = t["ev"][b - 1]
            what = f"recorded call {describe(e)} does not conform to ZadoffChu.tla: {clause} differs"
            case = {"kind": "trace", "event": e, "clause": clause}
            if clause == "Nzc" and e.get("nzc") == 1009 and e["size"] > 1012:
                ctx.finding("PrimeTableEndsAt1009", what, case)
            else:
                ctx.violation(what, case)
        else:
            ctx.trace_done()
            ctx.ok(n=len(t["ev"]))
    ctx.notes["traces_recorded"] = len(traces)
    ctx.notes["trace_events"] = sum(len(t["ev"]) for t in traces)


def replay(ctx, case):
    """re-execute one stored call on the current tree and validate the new observation with TLC"""
    from . import c18
    _, defs = c18.model([], seed=0)
    args = {k: v for k, v in case["event"].items() if k not in ("e", "t", "src", "nzc", "len", "norm2", "out")}
    try:
        case = dict(case, event=observe(args))
    except Exception as ex:
        ctx.violation(f"recorded call {describe(args)} raised {type(ex).__name__}: {ex}", case)
        return
    r, first = validate([{"seed": 0, "ev": [case["event"]]}], defs, 31)
    r.violated = None
    ctx.account(r, TRACE_MODULE, "replayed recorded call")
    if 1 in first:
        what = f"recorded call {describe(case['event'])} does not conform to ZadoffChu.tla: {first[1][2]} differs"
        e = case["event"]
        if first[1][2] == "Nzc" and e.get("nzc") == 1009 and e["size"] > 1012:
            ctx.finding("PrimeTableEndsAt1009", what, case)
        else:
            ctx.violation(what, case)
    else:
        ctx.ok()
