"""C18 - reference sequences are CAZAC; pilot based channel estimation is exact.

Stage M: TLC on spec/refsig/ZadoffChu.tla.  Intended instance (all Dev flags FALSE): every
invariant (PrimeIsLargest, ConstantAmplitude, ZeroAutocorrelation, FlatSpectrum, CyclicExtension,
RootIsExtendedZc, UeIsShiftedRoot, ShiftOrthogonality, LsExact, ScenarioOk, EstimateExact) holds
on every case of every family.  For every Dev flag TLC must FIND the violation.

Stage R: the machine is a star (Init -> one case); every case TLC explored is emitted with the
exact observable (phase exponents mod 2N, ramp exponents mod D, Gaussian-integer matrices, taps)
and executed on the real pyphysim API:
  prime  RootSequence(...).Nzc (and the table lookup helper) for every size 12, 24, 25..1200
  zc     calcBaseZC(N, u)                      == exp(-j pi e / N)
  ext    get_extended_ZF(root, size)           == root[i mod N]
  root   RootSequence(u, size).seq_array()     == exp(-j pi e / Nzc) at the probed / all positions
  ue     SrsUeSequence / DmrsUeSequence        == root * exp(+j 2 pi ramp / D) * cover / sqrt(norm2)
  shift  <seq_a, seq_b> = 0  iff  TLC's exact zero test in Z[zeta_D] says so
  ls     compute_ls_estimation(Y, S) == H  (2-d and both 3-d forms)
  est    (rel) CazacBased[WithOCC]ChannelEstimator: the noise-free observation is built here from
         first principles (DFT of every user's taps, comb, user sequences from the real classes); the
         estimate must equal the DFT of the impulse response TLC computed for the kept window.

Python converts exact values to floats, drives pyphysim and compares; it does not decide what
is expected."""
import os
from concurrent.futures import ThreadPoolExecutor

import numpy as np

from .. import tlc

MODULE = "refsig/ZadoffChu.tla"
JVM_ENV = {"JAVA_TOOL_OPTIONS": "-XX:ParallelGCThreads=1 -XX:CICompilerCount=2"}   # small runs: keep the JVM lean
DEVS = ["PrimeTableEndsAt1009", "ZeroPadExtension", "NSquaredPhase", "ShiftDenominator8",
        "TapWindowOffByOne", "LsGramNotConjugated",
        "NormalizeFlagSplit", "ExtraDimByIdentity",
        "UserCreationAliasesRoot", "WindowCachedOnEstimator", "ResultBufferReused",
        "CoverCodeIsCallersView", "EstimatorKeepsCallersArray"]                         # the last five: RefSession.tla
INVARIANTS = ["PrimeIsLargest", "ConstantAmplitude", "ZeroAutocorrelation", "FlatSpectrum", "LargeLengthLags", "CyclicExtension",
              "RootIsExtendedZc", "UeIsShiftedRoot", "ShiftOrthogonality", "LsExact", "LsScaleCovariant", "ScenarioOk",
              "EstimateExact", "EstimateHomogeneous", "FlagAgreement"]
ACTIONS = ["PrimeCase", "ZcCase", "ExtCase", "RootCase", "UeCase", "ShiftCase", "LsCase", "EstCase"]
TOL = 1e-9
TOL_REL = 1e-8
MAX_SIZE = 1200
ALL_SIZES = [12, 24] + list(range(25, MAX_SIZE + 1))


# ------------------------------------------------------------------------------ the model
def model(kinds, dev=(), seed=0, emit=True, **p):
    d = dict(Kinds=set(kinds), Dev={k: (k in dev) for k in DEVS}, Seed=int(seed) % 60000, MaxSize=MAX_SIZE,
             PrimeSizes=set(), ZcNs=set(), SpecMax=31, ExtNs=set(), RootSizes=set(), RootFull=set(), UeSizes=set(),
             ShiftLs=set(), ShiftDs={8, 12}, NLs=0, EstFams=set(), EstLs=set(), EstNrx=set(), EstVars=set())
    for k in p:
        if k not in d:
            raise KeyError(k)
    d.update(p)
    defs = {k: ("{}" if isinstance(v, (set, frozenset)) and not v else tlc.tla(v)) for k, v in d.items()}
    cfg = tlc.cfg_text(defs=defs, invariants=INVARIANTS, action_constraints=["Emit"] if emit else [])
    return cfg, defs


def chunks(xs, n):
    xs = list(xs)
    return [set(xs[i::n]) for i in range(n) if xs[i::n]]


def plan(tier, seed):
    """list of (label, kinds, params): each one TLC process (disjoint constant partitions; a process may
    carry several families - the machine is a star, so families do not interact)"""
    rng = np.random.RandomState(1000 + seed)
    thorough = tier == "thorough"
    fam = {}
    # prime selection: every size, always
    fam["prime"] = [dict(PrimeSizes=set(ALL_SIZES))]
    # CAZAC algebra: every root and lag of every listed odd length
    if thorough:
        zc = [{3, 5, 7, 9, 11, 13, 15, 17, 19, 21, 23}, {25, 27, 29}, {31, 33}, {35, 37, 39}, {41, 49}, {43, 45}, {47, 51}, {53, 55},
              {59, 57}, {61, 63}, {67}, {71}, {73}, {79}, {83}, {89}, {97}]
        fam["zc"] = [dict(ZcNs=ns, SpecMax=61) for ns in zc]
    else:
        fam["zc"] = [dict(ZcNs=ns, SpecMax=23) for ns in ({3, 5, 7, 9, 11, 13, 15, 17, 19, 21, 23, 25}, {27, 29, 31})]
    fam["ext"] = [dict(ExtNs={3, 5, 7, 11, 13, 17} if thorough else {3, 5, 7, 11, 13})]
    # RootSequence: probes at every size; complete sequences for a seeded subset, the sizes around the end
    # of the stored table and the largest sizes
    nfull = MAX_SIZE - 24 if thorough else 200
    full = set(int(x) for x in rng.choice(np.arange(25, MAX_SIZE + 1), nfull, replace=False))
    full |= {25, 26, 29, 30, 36, 48, 139, 150, 1008, 1009, 1010, 1012, 1013, 1014, 1019, 1193, 1199, 1200}
    fam["root"] = [dict(RootSizes=ch, RootFull=ch & full) for ch in chunks(range(25, MAX_SIZE + 1), 6 if thorough else 2)]
    ue_sizes = ([36, 48, 60, 72, 96, 120, 139, 144, 150, 192, 288, 300, 576, 600, 864, 1000, 1152, 1200] if thorough
                else [36, 48, 72, 139, 150, 300, 600, 1000])
    fam["ue"] = [dict(UeSizes=ch) for ch in chunks(ue_sizes, 4 if thorough else 2)]
    if thorough:
        ls = [12, 24] + list(range(25, 201)) + [int(x) for x in rng.choice(np.arange(201, 1201), 36, replace=False)]
    else:
        ls = [12, 24] + list(range(25, 73)) + [int(x) for x in rng.choice(np.arange(73, 1201), 10, replace=False)]
    fam["shift"] = [dict(ShiftLs=ch) for ch in chunks(ls, 6 if thorough else 2)]
    fam["ls"] = [dict(NLs=1500 if thorough else 200)]
    # lengths: multiples of the number of shifts (other users on other shifts) AND others (36, 60, 139, 150 for SRS; 32, 40,
    # 139 for DMRS: single user / same-shift cover-code user only)
    est_ls = ([12, 24, 32, 36, 40, 48, 60, 64, 72, 96, 120, 139, 144, 150, 192, 288, 300] if thorough
              else [12, 24, 32, 36, 40, 48, 60, 72, 96, 139, 150])
    nv = 16 if thorough else 6
    fam["est"] = [dict(EstFams={f}, EstLs=set(est_ls), EstNrx={1, 2, 3, 4}, EstVars=ch)
                  for f in ("srs", "dmrs", "occ") for ch in chunks(range(1, nv + 1), 4 if thorough else 1)]
    if thorough:
        # the largest allocations (50 and 100 resource blocks): boundary, dense and seeded variant, 1 and 4 antennas
        fam["est"] += [dict(EstFams={f}, EstLs={L}, EstNrx={1, 4}, EstVars={1, 2, 4}) for f in ("srs", "dmrs", "occ") for L in (576, 600, 1200)]
        return [(f"{k}/{i}", [k], p) for k, ps in fam.items() for i, p in enumerate(ps)]
    # quick: fewer JVMs (start-up and JIT dominate the cost of small runs)
    jobs = [("prime+ext+ls", ["prime", "ext", "ls"], {**fam["prime"][0], **fam["ext"][0], **fam["ls"][0]})]
    jobs += [(f"zc/{i}", ["zc"], p) for i, p in enumerate(fam["zc"])]
    jobs += [(f"root+ue/{i}", ["root", "ue"], {**p, **q}) for i, (p, q) in enumerate(zip(fam["root"], fam["ue"]))]
    jobs += [(f"shift/{i}", ["shift"], p) for i, p in enumerate(fam["shift"])]
    jobs += [(f"est/{i}", ["est"], p) for i, p in enumerate(fam["est"])]
    return jobs


# deviation flag -> (kinds, params, invariant TLC must report)
DEV_RUNS = {
    "PrimeTableEndsAt1009": (["prime"], dict(PrimeSizes=set(range(1000, 1030))), "PrimeIsLargest"),
    "ZeroPadExtension": (["ext"], dict(ExtNs={5}), {"ConstantAmplitude", "CyclicExtension"}),
    "NSquaredPhase": (["zc"], dict(ZcNs={5, 7}), "ZeroAutocorrelation"),
    "ShiftDenominator8": (["shift"], dict(ShiftLs={24}, ShiftDs={12}), "ShiftOrthogonality"),
    "TapWindowOffByOne": (["est"], dict(EstFams={"srs", "dmrs"}, EstLs={24, 48}, EstNrx={1, 2}, EstVars={1, 2}), "EstimateExact"),
    "NormalizeFlagSplit": (["est"], dict(EstFams={"srs", "dmrs", "occ"}, EstLs={24, 48}, EstNrx={1, 2}, EstVars={1, 2, 3, 4}), "FlagAgreement"),
    "ExtraDimByIdentity": (["est"], dict(EstFams={"occ"}, EstLs={24, 48}, EstNrx={1, 2, 3}, EstVars={1, 2, 3, 4}), "FlagAgreement"),
    "LsGramNotConjugated": (["ls"], dict(NLs=40), {"LsExact", "LsScaleCovariant"}),
}


def run_dev(dev, seed):
    kinds, params, want = DEV_RUNS[dev]
    cfg, defs = model(kinds, dev=[dev], seed=seed, emit=False, **params)
    r = tlc.run(MODULE, cfg, defs=defs, env=JVM_ENV, heap="1g")
    want = want if isinstance(want, set) else {want}
    if r.violated not in want:
        raise tlc.TlcError(f"deviation {dev} is not refuted by the invariants of ZadoffChu.tla "
                           f"(TLC reported {r.violated}, expected {sorted(want)})")
    return dev, r


# ----------------------------------------------------------------- exact values -> floats
def unit(e, n):
    """phase exponents e (mod 2n) -> exp(-j pi e / n); -1 is the reserved 'amplitude zero'"""
    e = np.asarray(e, dtype=float)
    return np.where(e < 0, 0.0, np.exp(-1j * np.pi * e / n))


def phase_tol(u, length, n):
    """float64 cannot hold the phase pi u k (k+1) / n of the last elements of a long sequence more
    accurately than |phase| * 2^-52 (up to 4.5e6 rad at size 1200): allow 8 ulp of the largest phase.
    One exponent step is pi / n >= 2.6e-3, five orders of magnitude above this allowance."""
    return max(TOL, 8 * 2.220446049250313e-16 * np.pi * u * length * (length + 1) / n)


def gmat(m):
    a = np.asarray(m, dtype=float)
    return a[..., 0] + 1j * a[..., 1]


def maxdiff(a, b):
    a = np.asarray(a)
    b = np.asarray(b)
    if a.shape != b.shape:
        return float("inf")
    return float(np.max(np.abs(a - b))) if a.size else 0.0


# ------------------------------------------------------------ call discipline (notes/CALL_DISCIPLINE.md)
class Discipline(Exception):
    """a public call broke a frame condition (ArgumentsUnchanged / result aliases an argument)"""


def call(fn, *args, **kw):
    """Every ndarray argument is handed over READ-ONLY, must be bit-identical afterwards, and the result must not
    share memory with it (a caller who keeps writing into his own buffers must not change a result)."""
    passed, saved = [], []
    for a in args:
        if isinstance(a, np.ndarray):
            b = a.copy(order="K")
            b.setflags(write=False)
            passed.append(b)
            saved.append(a.copy(order="K"))
        else:
            passed.append(a)
            saved.append(None)
    res = fn(*passed, **kw)
    name = getattr(fn, "__qualname__", getattr(fn, "__name__", str(fn)))
    for i, (b, a0) in enumerate(zip(passed, saved)):
        if a0 is None:
            continue
        if b.shape != a0.shape or not np.array_equal(b.view(np.uint8) if b.flags.c_contiguous else np.ascontiguousarray(b).view(np.uint8),
                                                       a0.view(np.uint8) if a0.flags.c_contiguous else np.ascontiguousarray(a0).view(np.uint8)):
            raise Discipline(f"{name} changed its argument {i} (ArgumentsUnchanged)")
        if isinstance(res, np.ndarray) and np.shares_memory(res, b):
            raise Discipline(f"the result of {name} shares memory with argument {i}")
    return res


def scale_of(pq):
    return float(pq[0]) / float(pq[1])


# ------------------------------------------------------------ one emitted case on the real code
def _rs():
    from pyphysim.reference_signals.root_sequence import RootSequence
    return RootSequence


def _nzc_mismatch(size, nzc):
    """base length chosen for `size` (root index 1 is valid for every length) against TLC's"""
    got = _rs()(root_index=1, size=size).Nzc
    if got == nzc:
        return None
    what = f"RootSequence(size={size}).Nzc = {got}, the largest prime <= size is {nzc}"
    return ("PrimeTableEndsAt1009" if got == 1009 and nzc > 1009 else "viol"), what


def do_prime(c):
    RootSequence = _rs()
    size, want = c["size"], c["nzc"]
    got = None
    if size > 24:
        got = RootSequence(root_index=1, size=size).Nzc          # public route
    f = getattr(RootSequence, "_get_largest_prime_lower_than_number", None)
    if f is not None:                                             # cross-check, skipped when absent
        g2 = f(size)
        if got is None:
            got = g2
        elif g2 != got:
            return "viol", f"size {size}: table helper gives {g2} but RootSequence.Nzc is {got}"
    if got is None:
        return "skip", ""
    if size <= 24:
        # one and two resource blocks: 36.211 stores 30 QPSK rows instead of a Zadoff-Chu sequence (outside the
        # model); all the estimators need of them: the requested length, unit modulus, phases odd multiples of pi/4
        for row in range(30):
            x = RootSequence(root_index=row, size=size).seq_array()
            if x.shape != (size,) or maxdiff(x ** 4, -np.ones(size)) > TOL:
                return "viol", f"RootSequence(root_index={row}, size={size}) is not a length-{size} QPSK row of unit modulus"
    if got == want:
        return "ok", ""
    what = f"RootSequence for size {size} uses Nzc={got}, the largest prime <= {size} is {want}"
    if got == 1009 and want > 1009:
        return "PrimeTableEndsAt1009", what
    return "viol", what


def do_zc(c):
    from pyphysim.reference_signals.zadoffchu import calcBaseZC
    got = calcBaseZC(c["n"], c["u"])
    for ty in (np.int64, np.int32, np.uint16):                     # integer-valued arguments of every integer type
        alt = calcBaseZC(ty(c["n"]), ty(c["u"]))
        if maxdiff(alt, got) > 0:
            return "viol", f"calcBaseZC({c['n']}, {c['u']}) depends on the integer type of its arguments ({ty.__name__})"
    d = maxdiff(got, unit(c["e"], c["n"]))
    return ("ok", "") if d <= phase_tol(c["u"], c["n"], c["n"]) else ("viol", f"calcBaseZC({c['n']}, {c['u']}) differs from exp(-j pi u n(n+1)/N) by {d:.3g}")


def do_ext(c):
    from pyphysim.reference_signals.zadoffchu import calcBaseZC, get_extended_ZF
    n, u, size = c["n"], c["u"], c["size"]
    want = unit(c["e"], n)
    # (a) the index map alone, fed with the exact base sequence; (b) the real chain
    got_a = call(get_extended_ZF, unit(c["e"][:n], n), size)
    got_b = call(get_extended_ZF, calcBaseZC(n, u), size)
    for tag, got in (("exact base", got_a), ("calcBaseZC", got_b)):
        d = maxdiff(got, want)
        if d > phase_tol(u, size, n):
            return "viol", f"get_extended_ZF(N={n}, size={size}) [{tag}] is not the cyclic repetition i -> i mod N (diff {d:.3g}, length {np.asarray(got).shape})"
    return "ok", ""


def do_root(c):
    RootSequence = _rs()
    size, u, nzc = c["size"], c["u"], c["nzc"]
    bad = _nzc_mismatch(size, nzc)
    if bad:
        return bad
    r = RootSequence(root_index=u, size=size)
    if r.size != size or r.seq_array().shape != (size,):
        return "viol", f"RootSequence(size={size}) has size {r.size}, array shape {r.seq_array().shape}"
    if r.index != u:
        return "viol", f"RootSequence.index = {r.index}, constructed with {u}"
    idx = np.asarray(c["idx"], dtype=int)
    d = maxdiff(r.seq_array()[idx], unit(c["e"], nzc))
    if d > phase_tol(u, size, nzc):
        return "viol", f"RootSequence(u={u}, size={size}) differs from the cyclically extended Zadoff-Chu sequence by {d:.3g}"
    req = set(c.get("req", ()))
    if req - {"ConstantAmplitude", "ZeroAutocorrelation", "FlatSpectrum"}:
        raise tlc.TlcError(f"root case requires laws the replay does not evaluate: {sorted(req)}")
    if req:
        # (rel) the CAZAC laws on the library's OWN base sequence of this length: RootSequence(u, Nzc=nzc) - the
        # documented form without `size` - must be the base part, have unit modulus, zero cyclic autocorrelation at
        # every non-zero lag and a flat spectrum.  delta = what float64 can hold of the largest phase.
        if nzc > 24:
            base = RootSequence(root_index=u, Nzc=nzc)
            x = np.asarray(base.seq_array())
            if base.size != nzc or base.Nzc != nzc or x.shape != (nzc,):
                return "viol", f"RootSequence(root_index={u}, Nzc={nzc}) has size {base.size}, Nzc {base.Nzc}, shape {x.shape}"
        else:       # a bare sequence of at most two resource blocks cannot be requested from the class (QPSK rows)
            from pyphysim.reference_signals.zadoffchu import calcBaseZC
            x = calcBaseZC(nzc, u)
        delta = phase_tol(u, nzc, nzc)
        if maxdiff(x, r.seq_array()[:nzc]) > 0:
            return "viol", f"RootSequence(u={u}, Nzc={nzc}) is not the base part of RootSequence(u={u}, size={size})"
        amp = float(np.max(np.abs(np.abs(x) - 1.0)))
        if amp > delta:
            return "viol", f"base sequence (u={u}, Nzc={nzc}): modulus deviates from 1 by {amp:.3g} (ConstantAmplitude)"
        P = np.abs(np.fft.fft(x)) ** 2
        flat = float(np.max(np.abs(P - nzc)))
        if flat > max(1e-6, 4 * nzc ** 1.5 * delta):
            return "viol", f"base sequence (u={u}, Nzc={nzc}): |DFT|^2 deviates from {nzc} by {flat:.3g} (FlatSpectrum)"
        R = np.fft.ifft(P)
        side = float(np.max(np.abs(R[1:])))
        if side > max(1e-9 * nzc, 4 * nzc * delta) or abs(R[0] - nzc) > max(1e-9 * nzc, 4 * nzc * delta):
            return "viol", (f"base sequence (u={u}, Nzc={nzc}): cyclic autocorrelation at a non-zero lag is {side:.3g}, "
                            f"peak {abs(R[0]):.6g} (ZeroAutocorrelation)")
        for lag in c["lags"]:            # the lags TLC decided on the exponents, directly (no FFT)
            v = abs(np.vdot(np.roll(x, -lag), x))
            if v > max(1e-9 * nzc, 4 * nzc * delta):
                return "viol", f"base sequence (u={u}, Nzc={nzc}): autocorrelation at lag {lag} is {v:.3g} (ZeroAutocorrelation)"
    return "ok", ""


FID_EXTRADIM = "ExtraDimensionFlagIdentity"


def flagval(v, form="bool"):
    """a boolean option in the form the specification chose: Python singleton, numpy bool, integer 0 / 1"""
    if form == "np":
        return np.bool_(bool(v))
    if form == "int":
        return int(bool(v))
    return bool(v)


def ue_seq(fam, root, ncs, cover, normalize, form="bool", cover_arr=None):
    """cover_arr: the caller's own cover-code buffer (kept by the caller, see RefSession OverwriteCover)"""
    from pyphysim.reference_signals.dmrs import DmrsUeSequence
    from pyphysim.reference_signals.srs import SrsUeSequence
    if fam == "srs":
        return SrsUeSequence(root, ncs, normalize=flagval(normalize, form))
    cc = cover_arr if cover_arr is not None else (np.array(cover) if cover else None)
    return DmrsUeSequence(root, ncs, cover_code=cc, normalize=flagval(normalize, form))


def amplitude_either(got, want_normalised, norm2, tol):
    """FlagAgreement leaves open what a non-singleton flag means for the sequence (normalised or not) as long as every
    place agrees: accept the specified array or the same array without the normalisation"""
    d = maxdiff(got, want_normalised)
    if d > tol and norm2 != 1:
        d = min(d, maxdiff(got, np.asarray(want_normalised) * np.sqrt(norm2)))
    return d


def do_ue(c):
    RootSequence = _rs()
    size, u, nzc = c["size"], c["u"], c["nzc"]
    bad = _nzc_mismatch(size, nzc)
    if bad:
        return bad
    root = RootSequence(root_index=u, size=size)
    form = c.get("flagform", "bool")
    seq = ue_seq(c["fam"], root, c["ncs"], c["cover"], c["normalize"], form)
    want = unit(c["e"], nzc) * np.exp(2j * np.pi * np.asarray(c["ramp"], dtype=float) / c["rden"])
    if c["cover"]:
        want = want[np.newaxis, :] * np.asarray(c["cover"], dtype=float)[:, np.newaxis]
    want = want / np.sqrt(c["norm2"])
    got = seq.seq_array()
    tol = phase_tol(u, size, nzc)
    d = maxdiff(got, want) if form == "bool" else amplitude_either(got, want, c["norm2"], tol)
    if d > tol:
        return "viol", (f"{c['fam']} user sequence (size {size}, u {u}, n_cs {c['ncs']}, cover {c['cover']}, normalize "
                        f"{c['normalize']} as {form}) differs from root * exp(j 2 pi n_cs k / {c['den']}) by {d:.3g}")
    if seq.size != size or bool(seq.normalized) != c["normalize"]:
        return "viol", f"{c['fam']} user sequence reports size {seq.size} / normalized {seq.normalized}"
    return "ok", ""


def do_shift(c):
    RootSequence = _rs()
    D, L, a, b = c["den"], c["size"], c["a"], c["b"]
    if L > 24:
        bad = _nzc_mismatch(L, c["nzc"])
        if bad:
            return bad
    root = RootSequence(root_index=c["u"], size=L)
    fam = "srs" if D == 8 else "dmrs"
    sa = ue_seq(fam, root, a, None, False).seq_array()
    sb = ue_seq(fam, root, b, None, False).seq_array()
    ip = abs(np.vdot(sb, sa))
    if c["zero"] and ip > 1e-9 * L:
        return "viol", f"{fam} shifts {a},{b} of length {L} must be orthogonal, |<a,b>| = {ip:.3g}"
    if not c["zero"] and ip < 0.2:
        return "viol", f"{fam} shifts {a},{b} of length {L} are not orthogonal by the shift law, got |<a,b>| = {ip:.3g}"
    return "ok", ""


def do_ls(c):
    from pyphysim.channel_estimation.estimators import compute_ls_estimation
    S, H, Y = gmat(c["s"]), gmat(c["h"]), gmat(c["y"])
    S2, H2, Y2 = gmat(c["s2"]), gmat(c["h2"]), gmat(c["y2"])
    S3, H3, Y3 = gmat(c["s3"]), gmat(c["h3"]), gmat(c["y3"])
    form = c["form"]
    fortran = c["id"] % 2 == 1                       # memory layout of the arguments must not matter
    lay = np.asfortranarray if fortran else np.ascontiguousarray
    real = all(not np.any(M.imag) for M in (S, S2, S3))
    # pilot dtypes: complex always; REAL pilots (+-1 / 0) also as float64 and as int64 arrays (same exact H expected)
    casts = [lambda M: M] + ([lambda M: np.ascontiguousarray(M.real), lambda M: np.rint(M.real).astype(np.int64)] if real else [])
    # scale covariance (LsScaleCovariant): pilots scaled by f, observation rebuilt from the scaled pilots,
    # the expected channel is the same exact H
    for ci, cast in enumerate(casts):
        for f in [1.0] + ([scale_of(q) for q in c["scales"]] if ci < 2 else [1000.0]):
            if f == 1.0:
                Sa, Sb, Sc, Ya, Yb, Yc = S, S2, S3, Y, Y2, Y3            # TLC's exact observation
            else:
                Sa, Sb, Sc = S * f, S2 * f, S3 * f
                Ya, Yb, Yc = H @ Sa, H2 @ Sb, H3 @ Sc
            if form == "2d":
                got, want = call(compute_ls_estimation, lay(Ya), lay(cast(Sa))), H
            elif form == "3d-shared":
                got, want = call(compute_ls_estimation, lay(np.stack([Ya, Yb, Yc])), lay(cast(Sa))), np.stack([H, H2, H3])
            else:
                got, want = (call(compute_ls_estimation, lay(np.stack([Ya, Yb, Yc])), lay(cast(np.stack([Sa, Sb, Sc])))),
                             np.stack([H, H2, H3]))
            d = maxdiff(got, want)
            if d > TOL * max(1.0, float(np.max(np.abs(want)))):
                return "viol", (f"compute_ls_estimation ({form}, pilots {S.shape} {np.asarray(cast(Sa)).dtype} scaled by {f:g}, "
                                f"{H.shape[0]} rx) misses the channel by {d:.3g} (scale covariance: H_hat(H cS, cS) = H)")
    return "ok", ""


def freq_response(taps, nrx, nsc):
    """H[a, k] = sum over taps v[a] exp(-j 2 pi k d / nsc)  (first principles)"""
    k = np.arange(nsc)
    H = np.zeros((nrx, nsc), dtype=complex)
    for d, v in taps:
        H += np.asarray(v, dtype=complex)[:, np.newaxis] * np.exp(-2j * np.pi * k * d / nsc)[np.newaxis, :]
    return H


def estimate(sc, est_taps, root, tgt=None, estimator=None, factor=1.0):
    """One estimate call for scenario `sc` (rel).  The noise-free observation is built from first principles
    (DFT of every user's taps, comb, sequences of real user objects made from the RootSequence object `root`);
    `tgt` / `estimator`: existing (shared) objects to use instead of fresh ones.
    Returns (estimate, DFT of the impulse response TLC computed, true frequency response of the target)."""
    from pyphysim.reference_signals.channel_estimation import (CazacBasedChannelEstimator,
                                                               CazacBasedWithOCCChannelEstimator)
    fam, L, nrx, mult, K = sc["fam"], sc["size"], sc["nrx"], sc["mult"], sc["keep"]
    nsc = mult * L
    sfam = "srs" if fam == "srs" else "dmrs"
    comb = np.arange(0, nsc, mult)

    def taps_of(user):
        return [(t["d"], [complex(x[0], x[1]) for x in t["v"]]) for t in user["taps"]]

    form = sc.get("flagform", "bool")
    if tgt is None:
        tgt = ue_seq(sfam, root, sc["ct"], sc["cover"], sc["normalize"], form)
    users = [(tgt, taps_of(sc))] + [(ue_seq(sfam, root, o["cs"], o["cover"], sc["normalize"], form), taps_of(o))
                                     for o in sc["others"]]
    occ = fam == "occ"
    Y = np.zeros((nrx, 2, L) if occ else (nrx, L), dtype=complex)
    for seq, taps in users:
        Hc = freq_response(taps, nrx, nsc)[:, comb]
        r = seq.seq_array()
        Y += Hc[:, np.newaxis, :] * r[np.newaxis, :, :] if occ else Hc * r[np.newaxis, :]
    if nrx == 1:
        Y = Y[0]
    Y = Y * factor                                   # EstimateHomogeneous: the estimate scales with the observation
    if occ:
        est = estimator if estimator is not None else CazacBasedWithOCCChannelEstimator(tgt)
        if sc["extradim"]:
            got = call(est.estimate_channel_freq_domain, Y, K, extra_dimension=flagval(True, form))
        else:
            flat = np.ascontiguousarray(Y.reshape(Y.shape[:-2] + (2 * L,)))
            got = call(est.estimate_channel_freq_domain, flat, K, extra_dimension=flagval(False, form))
    else:
        if estimator is not None:
            est = estimator
        else:
            ref = tgt.seq_array() if sc["asarray"] else tgt
            if mult == 2 and sc["var"] % 2 == 0:
                est = CazacBasedChannelEstimator(ref)                      # the documented default (comb pattern)
            else:
                est = CazacBasedChannelEstimator(ref, size_multiplier=mult)
        got = call(est.estimate_channel_freq_domain, Y, K)
    # expected: DFT of the impulse response TLC computed for the kept window (= the target's taps)
    want = np.zeros((nrx, nsc), dtype=complex)
    k = np.arange(nsc)
    for a in range(nrx):
        for p, v in est_taps[a]:
            want[a] += complex(v[0], v[1]) * np.exp(-2j * np.pi * k * p / nsc)
    truth = freq_response(taps_of(sc), nrx, nsc)
    if nrx == 1:
        want, truth = want[0], truth[0]
    return got, want * factor, truth * factor


def extradim_signature(sc):
    """finding ExtraDimensionFlagIdentity: a cover-code estimate of a FLATTENED observation with extra_dimension given as a falsy
    value that is not the singleton False (np.False_, 0)"""
    return sc["fam"] == "occ" and not sc["extradim"] and sc.get("flagform", "bool") != "bool"


def do_est(c):
    sc = c["sc"]
    root = _rs()(root_index=sc["u"], size=sc["size"])
    verdict = FID_EXTRADIM if extradim_signature(sc) else "viol"
    desc = (f"{sc['fam']} estimator (size {sc['size']}, comb x{sc['mult']}, {sc['nrx']} rx, keep {sc['keep']}, shift {sc['ct']}, "
            f"{len(sc['others'])} other users, normalize {sc['normalize']}, extra_dimension {sc['extradim']}, flags as {sc.get('flagform', 'bool')}")
    for f in [1.0] + [scale_of(q) for q in c["scales"]]:
        try:
            got, want, truth = estimate(sc, c["est"], root, factor=f)
        except Exception as ex:
            return verdict, f"{desc}) raised {type(ex).__name__}: {ex}"
        scale = f * max(1.0, float(np.max(np.abs(truth))) / f)
        d = max(maxdiff(got, want), maxdiff(got, truth))
        if d > TOL_REL * scale:
            return verdict, (f"{desc}, observation scaled by {f:g}) misses the frequency response by {d:.3g} (relative {d / scale:.3g})")
    return "ok", ""


DO = {"prime": do_prime, "zc": do_zc, "ext": do_ext, "root": do_root, "ue": do_ue, "shift": do_shift,
      "ls": do_ls, "est": do_est}


def execute(c):
    try:
        return DO[c["kind"]](c)
    except Exception as ex:  # the property promises a value, not an exception
        return "viol", f"{c['kind']} case raised {type(ex).__name__}: {ex}"


def case_key(c):
    k = c["kind"]
    if k == "prime":
        return ("prime", c["size"])
    if k in ("zc",):
        return (k, c["n"], c["u"])
    if k == "ext":
        return (k, c["n"], c["u"], c["size"])
    if k == "root":
        return (k, c["size"], c["u"], len(c["idx"]))
    if k == "ue":
        return (k, c["fam"], c["size"], c["ncs"], tuple(c["cover"]), c["normalize"])
    if k == "shift":
        return (k, c["den"], c["size"], c["a"], c["b"])
    if k == "ls":
        return (k, c["id"], c["form"])
    sc = c["sc"]
    return (k, sc["fam"], sc["size"], sc["nrx"], sc["var"])


def brief(c):
    """a short description for the evidence samples"""
    c = dict(c)
    for f in ("e", "ramp", "idx"):
        if f in c and len(c[f]) > 16:
            c[f] = c[f][:16] + ["..."]
    return c


# ------------------------------------------------------------------------------- the check
def run(ctx):
    ctx.rule = ("TLC enumerates every case of each family of ZadoffChu.tla (star machine) and checks the laws of C18 "
                "on exact phase exponents / Gaussian integers; every emitted case is executed on the real API; "
                "distinct = distinct (family, arguments) cases executed")
    ctx.assumptions += [
        "a unit-modulus element is compared through exp(-j pi e / N) of its TLC-emitted exponent, tolerance 1e-9",
        "CAZAC estimators (rel): the observation is built numerically from TLC-emitted Gaussian-integer taps "
        "(DFT from first principles, comb, real user sequences); tolerance 1e-8; the kept window is taps 0..num_taps_to_keep "
        "as the code implements it",
        "sizes 12 and 24 use the stored QPSK tables of 36.211: they are exercised by the estimator scenarios (constant "
        "amplitude is all the estimators need) but their phases are not part of the Zadoff-Chu model",
        "least squares: Gaussian-integer pilots with entries in {-1,0,1}+j{-1,0,1}, at most 3 transmit antennas, "
        "full row rank required by the specification (singular draws are not cases)",
    ]
    jobs = plan(ctx.tier, ctx.seed)

    def tlc_job(job):
        label, kinds, params = job
        cfg, defs = model(kinds, seed=ctx.seed, **params)
        return tlc.run(MODULE, cfg, defs=defs, coverage=True, env=JVM_ENV, heap="1500m")

    # concurrent TLC processes: VERIF_PROCS when set (shared machine), else one per core up to 16
    nthreads = int(os.environ.get("VERIF_PROCS", "0") or 0) or min(16, os.cpu_count() or 4)
    from . import c18_session
    sess = c18_session.plan(ctx.tier, ctx.seed)

    def sess_job(row):
        cfg, defs = c18_session.sess_model(row[1], row[2], row[3], row[4], row[5], seed=ctx.seed)
        return tlc.run(c18_session.MODULE, cfg, defs=defs, coverage=True, env=JVM_ENV, heap="1500m")

    import time as _t
    t0 = _t.time()
    with ThreadPoolExecutor(nthreads) as ex:
        dev_f = [ex.submit(run_dev, d, ctx.seed) for d in DEV_RUNS]
        dev_f += [ex.submit(c18_session.run_dev, d, ctx.seed) for d in c18_session.DEV_RUNS]
        sess_f = [ex.submit(sess_job, row) for row in sess]
        runs = list(ex.map(tlc_job, jobs))
        devs = [f.result() for f in dev_f]
        sess_runs = [f.result() for f in sess_f]
    for d, r in devs:
        ctx.notes.setdefault("deviations_refuted_by_model", {})[d] = r.violated
    cases = []
    for job, r in zip(jobs, runs):
        ctx.account(r, MODULE, job[0])
        cases += r.emitted
    ctx.require_actions(ACTIONS)
    t1 = _t.time()
    seen = set()
    uniq = []
    for c in cases:
        k = case_key(c)
        if k not in seen:
            seen.add(k)
            uniq.append(c)
    # cheap cases in-process, the rest over the pool
    from ..core import pool_map
    res = pool_map(execute, uniq, chunksize=max(1, len(uniq) // 128))
    t2 = _t.time()
    per_kind = {}
    sampled = set()
    for c, (verdict, what) in zip(uniq, res):
        kind = c["kind"]
        per_kind.setdefault(kind, [0, 0])
        per_kind[kind][0] += 1
        if kind not in sampled and verdict == "ok":
            sampled.add(kind)
            ctx.sample(brief(c), limit=8)
        if verdict == "ok":
            ctx.ok(case_key(c))
        elif verdict == "skip":
            continue
        elif verdict == "viol":
            per_kind[kind][1] += 1
            ctx.violation(what, c)
        else:
            per_kind[kind][1] += 1
            ctx.finding(verdict, what, c)
    ctx.trace_done(len(uniq))          # behaviours of the star machine replayed (stage R)
    ctx.notes["cases_per_family"] = {k: v[0] for k, v in per_kind.items()}
    ctx.notes["mismatches_per_family"] = {k: v[1] for k, v in per_kind.items() if v[1]}
    # the prime-selection and (N <= bound, all roots, all lags) families are complete enumerations;
    # sequences at large sizes, least squares and the estimator scenarios are seeded samples
    ctx.exhaustive = False
    # histories on shared objects (RefSession.tla)
    npaths = sum(c18_session.explore(ctx, row, r) for row, r in zip(sess, sess_runs))
    ctx.require_actions(["CreateUser", "CreateEst", "Estimate", "CatUe", "CatEst", "OverwriteCover", "OverwriteRef"])
    ctx.notes["session_paths_replayed"] = npaths
    t3 = _t.time()
    from . import c18_trace
    c18_trace.run(ctx)
    ctx.notes["phase_wall_s"] = {"tlc": round(t1 - t0, 1), "replay": round(t2 - t1, 1), "session": round(t3 - t2, 1),
                                 "trace": round(_t.time() - t3, 1)}
    ctx.notes["exhaustive_parts"] = ["prime selection for every size 12, 24, 25..1200",
                                     "Zadoff-Chu algebra: every root and lag for every odd N in the configured set",
                                     "cyclic shifts: every pair (a, b) for every configured length"]


def replay(ctx, data):
    c = data["case"]
    if c.get("kind") == "trace":
        from . import c18_trace
        return c18_trace.replay(ctx, c)
    if c.get("kind") == "session":
        from . import c18_session
        return c18_session.replay(ctx, c)
    verdict, what = execute(c)
    if verdict == "ok":
        ctx.ok(case_key(c))
    elif verdict == "viol":
        ctx.violation(what, c)
    elif verdict != "skip":
        ctx.finding(verdict, what, c)
