"""X01 (beyond the listed properties) - progress reporting: spec/sim/Progress.tla.

Stage M: TLC on the single bar, on the server with thread steps atomic between sleeps, and on the server with
statement-level interleaving (Fine = TRUE, TLC only); every deviation flag must be refuted; the race
`LateRegisterFreezesBar` (a registration between bar.progress(count) and the loop test) is demonstrated by TLC as an
expected violation of JoinedFull in Fine mode.
Stage R: the emitted state graphs are replayed on the real classes.  The harness owns the module's clock and
`time.sleep` (the updater thread parks in it and is released by the Wake / WakeDelay actions of the path), so the
thread schedule of every replayed behaviour is exactly the one TLC chose.  After every step: the text written since
the previous step, n / finalcount / is_running / num_clients / start count / shared list / client counts, the thread's
liveness and the duration it asked to sleep are compared with the post-state."""
import io
import os
import random
import threading
import time as real_time

from .. import tlc, graph
from ..core import pool_map, ROOT

MODULE = "sim/Progress.tla"
DEVS = ["NoClamp", "ProgressAfterStop", "NoForcedFinalFrame", "NoFillOnStop", "StopNotRefCounted"]
TICK = 0.25
INVS = ["TypeOK", "Bounded", "FullIsFinal", "RunningHasThread", "SleepHasReason"]
PROPS = ["SilentWhenFinal", "FramesShowCount", "FinalFrameWritten", "RefCounted", "JoinedClosed"]


def model(mode, fine=False, dev=(), emit=False, final=3, totals=(1, 2), maxclients=2, maxnow=3, sleept=1, delays=(0, 1),
          props=None, maxstarts=2):
    d = {k: (k in dev) for k in DEVS}
    defs = {"Dev": tlc.tla(d)}
    props = props if props is not None else PROPS + ([] if fine else ["JoinedFull"])
    cfg = tlc.cfg_text(constants={"Mode": '"%s"' % mode, "Final": str(final), "Totals": tlc.tla(set(totals)), "MaxClients": str(maxclients),
                                  "MaxNow": str(maxnow), "SleepT": str(sleept), "Delays": tlc.tla(set(delays)), "Intervals": "{0,10,50}",
                                  "Fine": "TRUE" if fine else "FALSE", "MaxStarts": str(maxstarts)},
                       defs=defs, invariants=INVS, properties=props, constraints=["Bound"],
                       action_constraints=["Emit"] if emit else [], view="View")
    return cfg, defs


# ------------------------------------------------------------------------------- rendering oracle
def center(msg, length=50, fill=' ', left='', right=''):
    fs = length - (len(msg) + 2) - len(left) - len(right)
    return f"{left}{fill * (fs // 2 + fs % 2)} {msg} {fill * (fs // 2)}{right}"


def _floor_candidates(num, den):
    """floor(num/den); the implementation computes it in floating point, which may land one below at exact
    integer quotients (0.58 * 50 = 28.999999999999996)."""
    q = num // den
    return [q, q - 1] if (num % den == 0 and q > 0) else [q]


def pct_bars(n, final, width, char, central, left, right):
    res = []
    for pd in _floor_candidates(100 * n, final):
        af = width - len(left) - len(right)
        for nh in _floor_candidates(pd * af, 100):
            bar = left + char * nh + ' ' * (af - nh) + right
            cm = central.format(percent=pd)
            pp = len(bar) // 2 - len(cm) // 2
            res.append(bar[:pp] + cm + bar[pp + len(cm):])
    return res


def frames_of(style, n, final, msg, char='*', width=50):
    if style == "text1":
        return pct_bars(n, final, width, char, '', '', '')
    if style == "text2":
        tail = f"{n} of {final} complete" if msg is None else msg
        return [b + "  " + tail for b in pct_bars(n, final, width, char, '{percent}%', '[', ']')]
    full = f"{n}/{final}"
    return [center(full if msg is None else f"{msg} {full}", length=width, fill=char)]


def header_of(style, msg, width=50):
    if style != "text1":
        return ""
    title = center('% Progress' if msg is None else msg, width + 1, '-', '', '1\n')
    steps = width // 10
    v1 = ['1', '2', '3', '4', '5', '6', '7', '8', '9', '0']
    l1 = "{0}{1}\n".format(' ' * (steps - 1), (' ' * (steps - 1)).join(v1))
    l2 = "{0}{1}\n".format('-' * (steps - 1), ('-' * (steps - 1)).join(['0'] * 10))
    return title + l1 + l2


def expected_texts(style, out, msg):
    """all acceptable texts for one step's output record"""
    alts = [header_of(style, msg) if out["init"] else ""]
    for n, final in out["frames"]:
        alts = [a + "\r" + f for a in alts for f in frames_of(style, n, final, msg)]
    nl = "\n" * out["nl"] if style != "text3" else ""
    return [a + nl for a in alts]


# ------------------------------------------------------------------------------- the owned clock
class FakeTime:
    """stands in for the `time` module inside pyphysim.progressbar.progressbar"""

    def __init__(self):
        self.now = 0
        self.parked = threading.Event()
        self.release = None
        self.asked = None

    def time(self):
        return 1000.0 + TICK * self.now

    def sleep(self, s):
        ev = threading.Event()
        self.asked = s
        self.release = ev
        self.parked.set()
        if not ev.wait(30):
            raise RuntimeError("harness never released the sleeper")

    def wake(self):
        ev = self.release
        self.parked.clear()
        self.release = None
        ev.set()


class FakeWarnings:
    def __init__(self):
        self.msgs = []

    def warn(self, m, *a, **k):
        self.msgs.append(str(m))


class FakeFile:
    """what the updater thread gets from open(filename, 'w'): records writes, flushes and close"""

    def __init__(self, name):
        self.name = name
        self.data = []
        self.flushed = 0
        self.closed = False

    def write(self, s):
        if self.closed:
            raise ValueError("I/O operation on closed file")
        self.data.append(s)

    def flush(self):
        self.flushed = len(self.text())

    def close(self):
        self.closed = True

    def text(self):
        return "".join(self.data)


class Patched:
    def __init__(self):
        from pyphysim.progressbar import progressbar as pb
        self.pb = pb
        self.ft = FakeTime()
        self.fw = FakeWarnings()
        self.files = []

    def fake_open(self, name, mode="r", *a, **k):
        f = FakeFile(name)
        self.files.append(f)
        return f

    def __enter__(self):
        self.old = (self.pb.time, self.pb.warnings)
        self.pb.time = self.ft
        self.pb.warnings = self.fw
        self.pb.open = self.fake_open              # module globals shadow the builtin
        return self

    def __exit__(self, *a):
        self.pb.time, self.pb.warnings = self.old
        del self.pb.open


STYLES = {"text1": "ProgressbarText", "text2": "ProgressbarText2", "text3": "ProgressbarText3"}


# ------------------------------------------------------------------------------- single bar
def run_bar_path(job):
    style, msg, final, edges, use_call = job
    viol, okc = [], 0
    with Patched() as P:
        buf = io.StringIO()
        obj = getattr(P.pb, STYLES[style])(final, '*', msg, output=buf)
        seen = 0
        fin_at = None
        steps = [{"ret": {"op": "New", "a": final, "b": 0}, "post": edges[0]["pre"] if edges else None,
                  "out": {"frames": [], "nl": 0, "init": True, "warn": False}}] + edges
        for i, e in enumerate(steps):
            op, a = e["ret"]["op"], e["ret"]["a"]
            try:
                if op == "Progress":
                    if use_call and i % 2:
                        obj(a)
                    else:
                        obj.progress(a)
                elif op == "Stop":
                    obj.stop()
                elif op == "SetInterval":
                    obj.display_interval = a / 100.0
                elif op == "Tick":
                    P.ft.now += 1
            except Exception as ex:                                  # noqa
                viol.append({"step": i, "op": e["ret"], "what": f"raised {type(ex).__name__}: {ex}"})
                break
            text = buf.getvalue()
            new, seen = text[seen:], len(text)
            exp = expected_texts(style, e["out"], msg)
            post = e["post"]
            if new not in exp:
                viol.append({"step": i, "op": e["ret"], "what": f"wrote {new!r}, the specification allows {exp[:2]!r}"})
                break
            if post is None:
                okc += 1
                continue
            b = post["bar"]
            if b["fin"] and fin_at is None:
                fin_at = P.ft.now
            checks = [("n", obj.n, b["n"]), ("finalcount", obj.finalcount, b["final"]),
                      ("display_interval", round(obj.display_interval * 100), b["iv"]),
                      ("elapsed_time_in_seconds", obj.elapsed_time_in_seconds, TICK * (fin_at if b["fin"] else P.ft.now))]
            if style != "text1" or True:
                s1, s2 = str(obj), str(obj)
                if s1 != s2 or s1 not in frames_of(style, b["n"], b["final"], msg):
                    viol.append({"step": i, "op": e["ret"], "what": f"str(bar) is {s1!r}, expected {frames_of(style, b['n'], b['final'], msg)[:1]!r}"})
                    break
                if buf.getvalue() != text:
                    viol.append({"step": i, "op": e["ret"], "what": "str(bar) wrote to the output"})
                    break
            bad = [f"{k} is {got!r}, the specification says {want!r}" for k, got, want in checks if got != want]
            if bad:
                viol.append({"step": i, "op": e["ret"], "what": "; ".join(bad)})
                break
            okc += 1
    return okc, viol


# ------------------------------------------------------------------------------- server
def make_server(P, kind, style, msg, sleep_time, filename):
    pb = P.pb
    if kind == "manager":
        return pb.ProgressbarMultiProcessServer('*', msg if msg is not None else '', sleep_time, filename, style)

    class LocalServer(pb.ProgressbarDistributedServerBase):
        """the multi-process server without the manager process: the shared list is a plain list"""

        def register_client_and_get_proxy_progressbar(self, total_count):
            cid = self._register_client(total_count)
            return pb.ProgressbarMultiProcessClient(cid, self._client_data_list, total_count)

    return LocalServer('*', msg, sleep_time, filename, style)


def settle(P, thread, helper=None, limit=10.0):
    """wait until the updater thread is parked in sleep or gone (and, when given, the helper returned or is joining)"""
    t0 = real_time.time()
    while real_time.time() - t0 < limit:
        th_ok = thread is None or not thread.is_alive() or P.ft.parked.is_set()
        if th_ok and (thread is None or not thread.is_alive() or P.ft.parked.is_set()):
            # the thread may have been between `parked.clear()` and its next park: look twice
            real_time.sleep(0.0005)
            if thread is None or not thread.is_alive() or P.ft.parked.is_set():
                return True
        real_time.sleep(0.0005)
    return False


SLOW = 8.0            # seconds of real time after which a blocked call / a thread that does not park is a verdict
_ABORT = [False]      # per worker process: after one such verdict the remaining paths are not run (each would wait again)


def run_server_path(job):
    kind, style, msg, sleept, edges = job
    viol, okc = [], 0
    if _ABORT[0]:
        return 0, []
    fn = "x01-progress.txt"            # never created: the module's open() is the harness's
    with Patched() as P:
        srv = make_server(P, kind, style, msg if kind != "manager" else (msg or ''), sleept * TICK, fn)
        emsg = msg if kind != "manager" else (msg or '')
        proxies, helper, prev, nfiles = [], None, "", 0
        try:
            for i, e in enumerate(edges):
                op, a, b = e["ret"]["op"], e["ret"]["a"], e["ret"]["b"]
                pre, post, out = e["pre"], e["post"], e["out"]
                nwarn = len(P.fw.msgs)
                try:
                    if op == "Register":
                        proxies.append(srv.register_client_and_get_proxy_progressbar(a))
                    elif op == "ClientProgress":
                        proxies[a - 1].progress(b)
                    elif op == "StartUpdater":
                        srv.start_updater(start_delay=a * TICK)
                    elif op == "StopBegin":
                        helper = threading.Thread(target=srv.stop_updater, daemon=True)
                        helper.start()
                        if post["blk"]:
                            t0 = real_time.time()
                            while helper.is_alive() and real_time.time() - t0 < SLOW and not (srv.is_running is False
                                                                                              and srv._start_updater_count == post["sc"]):
                                real_time.sleep(0.0005)
                        else:
                            helper.join(SLOW)
                            if helper.is_alive():
                                _ABORT[0] = True
                                viol.append({"step": i, "op": e["ret"], "what": "stop_updater blocks although it does not balance the last start_updater"})
                                break
                            helper = None
                    elif op == "StopJoin":
                        helper.join(SLOW)
                        if helper.is_alive():
                            _ABORT[0] = True
                            viol.append({"step": i, "op": e["ret"], "what": "stop_updater did not return after the updater thread left"})
                            break
                        helper = None
                    elif op in ("Wake", "WakeDelay"):
                        if not P.ft.parked.is_set():
                            viol.append({"step": i, "op": e["ret"], "what": "the updater thread is not sleeping where the specification has it asleep"})
                            break
                        P.ft.wake()
                    elif op == "Tick":
                        P.ft.now += 1
                except Exception as ex:                              # noqa
                    viol.append({"step": i, "op": e["ret"], "what": f"raised {type(ex).__name__}: {ex}"})
                    break
                th = srv._update_process
                if not settle(P, th, limit=SLOW):
                    _ABORT[0] = True
                    viol.append({"step": i, "op": e["ret"], "what": "the updater thread neither sleeps nor ends"})
                    break
                # ---- compare with the post-state
                alive = th is not None and th.is_alive()
                want_alive = post["pc"] in ("delay", "sleep")
                bad = []
                if alive != want_alive:
                    bad.append(f"updater thread alive={alive}, the specification has pc={post['pc']}")
                if want_alive and P.ft.asked is not None:
                    want = post["dly"] * TICK if post["pc"] == "delay" else sleept * TICK
                    if abs(P.ft.asked - want) > 1e-12:
                        bad.append(f"thread sleeps {P.ft.asked}s, the specification says {want}s")
                if post["pc"] == "none" and th is not None:
                    bad.append("a thread exists before any start_updater")
                lst = list(srv._client_data_list)
                checks = [("is_running", srv.is_running, post["run"]), ("finalcount", srv.finalcount, post["total"]),
                          ("num_clients", srv.num_clients, len(post["cl"])), ("start count", srv._start_updater_count, post["sc"]),
                          ("shared list", lst, [c["posted"] for c in post["cl"]]), ("client counts", [p.n for p in proxies], [c["n"] for c in post["cl"]]),
                          ("warnings", len(P.fw.msgs) - nwarn, 1 if out["warn"] else 0)]
                bad += [f"{k} is {got!r}, the specification says {want!r}" for k, got, want in checks if got != want]
                nfiles_want = nfiles + (1 if out["init"] else 0)
                if len(P.files) != nfiles_want:
                    bad.append(f"{len(P.files)} output files opened so far, the specification says {nfiles_want}")
                nfiles = len(P.files)
                f = P.files[-1] if P.files else None
                text = f.text() if f else ""
                new = text if out["init"] else text[len(prev):]
                if not out["init"] and not text.startswith(prev):
                    bad.append("the output was rewritten")
                prev = text
                if f is not None and (out["frames"] or out["nl"]) and f.flushed != len(text):
                    bad.append("frames were written but not flushed")
                if f is not None and f.closed != (post["pc"] in ("done", "delay")):    # in "delay" the last file is the previous thread's
                    bad.append(f"output file closed={f.closed} with the thread at pc={post['pc']}")
                exp = expected_texts(style, out, emsg)
                if new not in exp:
                    bad.append(f"wrote {new!r}, the specification allows {exp[:2]!r}")
                if bad:
                    viol.append({"step": i, "op": e["ret"], "what": "; ".join(bad)})
                    break
                okc += 1
        finally:
            # let a parked thread leave
            try:
                srv._is_running = False
                for _ in range(4):
                    if P.ft.parked.is_set():
                        P.ft.wake()
                        settle(P, srv._update_process, limit=2.0)
                if kind == "manager":
                    srv._manager.shutdown()
            except Exception:                                        # noqa
                pass
    return okc, viol


# ------------------------------------------------------------------------------- the check
def strip(e):
    return {"pre": e["pre"], "post": e["post"], "ret": e["ret"], "out": e["out"]}


def paths_of(ctx, r, name, max_len, walks, walk_len):
    ctx.account(r, MODULE, name)
    g = graph.Graph([strip(e) for e in r.emitted], label=lambda e: graph.key(e["ret"]) + graph.key(e["out"]))
    root = g.roots()[0]
    rng = random.Random(ctx.seed)
    paths = g.transition_cover(root, max_len=max_len, rng=rng)
    paths += g.random_walks(root, walks, walk_len, rng)
    for _, _, e in g.edges:
        ctx.distinct.add(name + graph.key(e["pre"]) + graph.key(e["ret"]))
        ctx.notes.setdefault("ops_replayed", set()).add(e["ret"]["op"])
    return g, [g.path_edges(p) for p in paths]


def report(ctx, name, jobs, res, mk):
    for job, (okc, viol) in zip(jobs, res):
        ctx.ok(n=okc)
        ctx.trace_done()
        for v in viol[:1]:
            ctx.violation(f"{name}: {v['what']} (step {v['step']} op {v['op']})", mk(job, v))


def model_devs(ctx):
    exp = {"NoClamp": dict(mode="bar"), "ProgressAfterStop": dict(mode="bar"), "NoForcedFinalFrame": dict(mode="bar"),
           "NoFillOnStop": dict(mode="server", totals=(2,), maxclients=1, maxnow=2),
           "StopNotRefCounted": dict(mode="server", totals=(2,), maxclients=1, maxnow=2)}
    for dev, kw in exp.items():
        cfg, defs = model(dev=[dev], **kw)
        r = tlc.run(MODULE, cfg, defs=defs)
        if not r.violated:
            raise tlc.TlcError(f"deviation {dev} is not detected by the properties of Progress.tla")
        ctx.notes.setdefault("deviations_refuted_by_model", {})[dev] = r.violated
    # the statement-level race: must be found with JoinedFull, absent without it
    cfg, defs = model(mode="server", fine=True, totals=(2,), maxclients=2, maxnow=2, delays=(0,), maxstarts=1, props=["JoinedFull"])
    r = tlc.run(MODULE, cfg, defs=defs, workers=4)
    if not r.violated:
        raise tlc.TlcError("LateRegisterFreezesBar is expected to violate JoinedFull under statement-level interleaving")
    ctx.notes["expected_race"] = {"LateRegisterFreezesBar": r.violated}


def run(ctx):
    ctx.rule = ("TLC enumerates the state graph of the bar / server machines (Progress.tla); replayed paths cover every "
                "transition; distinct = (abstract state, operation) pairs executed on the real classes under the owned clock")
    ctx.assumptions += ["the harness owns time.time / time.sleep of the progressbar module: one updater step = code between two sleeps",
                        "percentages are floor(100 n / final); at exact integer quotients the floating-point value one below is accepted"]
    thorough = ctx.tier == "thorough"
    from concurrent.futures import ThreadPoolExecutor
    server_cfgs = [("server/A", dict(totals=(2,), maxclients=1, maxnow=2), 1), ("server/B", dict(totals=(1,), maxclients=2, maxnow=1, sleept=0), 0)]
    if thorough:
        server_cfgs += [("server/A3", dict(totals=(1, 3), maxclients=1, maxnow=2), 1),
                        ("server/C", dict(totals=(2,), maxclients=2, maxnow=2, delays=(0,), maxstarts=1), 1)]
    with ThreadPoolExecutor(4) as ex:
        fbar = ex.submit(lambda: tlc.run(MODULE, *model("bar", emit=True)[:1], defs=model("bar", emit=True)[1]))
        fsrv = [ex.submit(lambda kw=kw: tlc.run(MODULE, *model("server", emit=True, **kw)[:1], defs=model("server", emit=True, **kw)[1]))
                for _, kw, _ in server_cfgs]
        ffine = ex.submit(lambda: tlc.run(MODULE, *model("server", fine=True, totals=(2,), maxnow=2)[:1],
                                          defs=model("server", fine=True, totals=(2,), maxnow=2)[1], workers=4))
        fdev = ex.submit(model_devs, ctx)
        rbar = fbar.result()
        rsrv = [f.result() for f in fsrv]
        rfine = ffine.result()
        fdev.result()
    ctx.account(rfine, MODULE, "server/fine (TLC only)")
    # ---- single bar
    g, paths = paths_of(ctx, rbar, "bar", 14, 600 if thorough else 100, 14)
    jobs = []
    for k, pth in enumerate(paths):
        for style in STYLES:
            jobs.append((style, None if k % 3 else "job", 3, pth, bool(k % 2)))
    res = pool_map(run_bar_path, jobs, chunksize=max(1, len(jobs) // 64))
    report(ctx, "bar", jobs, res, lambda job, v: {"kind": "bar", "style": job[0], "msg": job[1], "final": job[2], "path": job[3], "call": job[4], "failing": v})
    ctx.sample({"config": "bar", "path": [e["ret"] for e in paths[len(paths) // 2]]})
    # ---- server
    n = len(paths)
    for (name, kw, sleept), r in zip(server_cfgs, rsrv):
        g, paths = paths_of(ctx, r, name, 16, 1500 if thorough else 150, 18)
        n += len(paths)
        styles = list(STYLES)
        jobs = [("local", styles[k % 3], None if k % 2 else "job", sleept, pth) for k, pth in enumerate(paths)]
        res = pool_map(run_server_path, jobs, chunksize=max(1, len(jobs) // 64))
        report(ctx, name, jobs, res, lambda job, v: {"kind": "server", "server": job[0], "style": job[1], "msg": job[2], "sleept": job[3], "path": job[4], "failing": v})
        ctx.sample({"config": name, "path": [e["ret"] for e in paths[len(paths) // 2]]})
        # the real multi-process server (manager process) on a few of the longest paths, in this process
        longest = sorted(paths, key=len)[-(12 if thorough else 4):]
        mjobs = [("manager", "text2", None, sleept, pth) for pth in longest]
        mres = [run_server_path(j) for j in mjobs]
        report(ctx, name + "/manager", mjobs, mres, lambda job, v: {"kind": "server", "server": job[0], "style": job[1], "msg": job[2], "sleept": job[3], "path": job[4], "failing": v})
    missing = {"Progress", "Stop", "SetInterval", "Tick", "Register", "ClientProgress", "StartUpdater", "StopBegin", "StopJoin",
               "WakeDelay", "Wake"} - ctx.notes.get("ops_replayed", set())
    if missing:
        raise tlc.TlcError(f"operations never replayed (vacuous check): {sorted(missing)}")
    ctx.notes["ops_replayed"] = sorted(ctx.notes["ops_replayed"])
    ctx.exhaustive = True
    ctx.notes["paths_replayed"] = n


def replay(ctx, data):
    c = data["case"]
    if c["kind"] == "bar":
        okc, viol = run_bar_path((c["style"], c["msg"], c["final"], c["path"], c["call"]))
    else:
        okc, viol = run_server_path((c["server"], c["style"], c["msg"], c["sleept"], c["path"]))
    ctx.ok(n=okc)
    for v in viol[:1]:
        ctx.violation(f"{c['kind']}: {v['what']} (step {v['step']})", c)
