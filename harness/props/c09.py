"""C09 - block diagonalization nulls inter-user interference within the power budget.

What TLC decides and what it does not.  spec/comm/BlockDiag.tla is the CONFIGURATION / CALL-HISTORY machine of
pyphysim.comm.blockdiagonalization (BlockDiagonalizer, WhiteningBD, EnhancedBD with its stream-reduction metric
and the extra arguments each metric stores, the module-level functions) together with, for every state, the set
`Required` of predicates of the property that must hold for what was last computed.  TLC

  M  proves the machine's own laws (stored metric arguments are exactly the needed ones, rejected calls change
     nothing, only an accepted set_ext_int_handling_metric changes the metric, a solve uses the CURRENT metric and
     channel, a predicate set is required after every solve) and refutes every deviation flag;
  R  enumerates every configuration (sweep instance: classes x K x antennas x power x noise x ext-int rank/power x
     metric and its arguments) and every call history (history instance) and emits every transition.

The block-diagonalization NUMERICS have no exact values (null spaces, SVD, water-filled singular values): the replay
drives the real classes along the emitted transitions on seeded generic complex channels and evaluates each
predicate named in the emitted `req` numerically from first principles, on the PUBLIC return values only - these
sub-claims are "(rel)", tolerance 1e-7 relative.  The water-filling allocation itself is decided under C12.

Ill-conditioned draws are excluded by a guard computed from the seeded channel alone (cond(H) <= 1e3, external
channel of every user cond <= 1e2 and smallest singular value >= 0.1), re-drawn deterministically from the same
stream.  A stream whose power is positive but below 1e-8 of the user power is neither "powered" nor "unpowered":
it is left out of the receive-filter predicate (counted)."""
import copy
import random
import signal
import time
from concurrent.futures import ThreadPoolExecutor

import numpy as np

from .. import tlc, graph
from ..core import pool_map

MODULE = "comm/BlockDiag.tla"
DEVS = ["RejectedMetricCommitted", "NaiveKeepsCallerDict", "ReturnedNsAliasesChannel", "ArgsNotResetOnMetricChange",
        "StaleStreamCounts", "SolveStoresDecision", "PowerCachedAtConstruction", "AbsoluteRankTolerance", "MetricArgsSharedByClass"]
ALL_ACTS = {"Construct", "Bystander", "CalcFilterUserK", "SetAttr", "SetMetric", "EditDict", "NewChannel", "SolveBD", "SolveExt", "CalcWhitening", "CalcReceiveFilter", "Scribble"}
INVS = ["TypeOK", "MetricArgsConsistent", "ChannelIntact", "NoSharedDict", "RequiredAfterSolve", "ResultObeysCurrentAttributes", "RankIsScaleFree"]
PROPS = ["RejectedLeavesUnchanged", "OnlySetMetricChangesMetric", "SolveUsesCurrentMetric", "SolveLeavesConfig", "OnlySettersChangeObject",
         "SetAttrChangesOnlyThat"]
TOL = 1e-7          # (rel) nulling / power
TOL_ID = 1e-6       # (rel) identity of receive filter x effective channel
POWERED = 1e-8      # a stream is "powered" above this fraction of the user power, "unpowered" at exactly zero
JVM_ENV = {"JAVA_TOOL_OPTIONS": "-XX:CICompilerCount=2"}


def model(classes, ks, ants, ranks, pl, nvl, pel, sns, mods, plens, extras=False, sweep=False, dev=(), emit=True, acts=ALL_ACTS, scales=(0,)):
    d = {k: (k in dev) for k in DEVS}
    defs = {"Classes": tlc.tla(set(classes)), "Ks": tlc.tla(set(ks)), "Ants": tlc.tla(set(ants)), "Ranks": tlc.tla(set(ranks)), "Scales": "{" + ", ".join(str(int(x)) for x in sorted(set(scales))) + "}",
            "PLabels": tlc.tla(set(pl)), "NvLabels": tlc.tla(set(nvl)), "PeLabels": tlc.tla(set(pel)),
            "StreamNs": tlc.tla(set(sns)), "Mods": tlc.tla(set(mods)), "PLens": tlc.tla(set(plens)),
            "Acts": tlc.tla(set(acts)), "Dev": tlc.tla(d)}
    cfg = tlc.cfg_text(constants={"Extras": tlc.tla(bool(extras)), "Sweep": tlc.tla(bool(sweep))}, defs=defs, invariants=INVS,
                       properties=PROPS, action_constraints=["Emit"] if emit else [], view="view")
    return cfg, defs


def tlc_cached(cfg, defs, timeout):
    """TLC's output depends on the specification and the configuration only, never on the tree under test: with
    VERIF_TLC_CACHE=<dir> (mutation campaigns) a run is stored under the hash of (module text, cfg, defs)"""
    import hashlib
    import os
    import pickle
    d = os.environ.get("VERIF_TLC_CACHE")
    if not d:
        return tlc.run(MODULE, cfg, defs=defs, env=JVM_ENV, timeout=timeout)
    os.makedirs(d, exist_ok=True)
    text = open(os.path.join(tlc.SPEC, MODULE)).read()
    f = os.path.join(d, hashlib.md5((text + cfg + repr(sorted(defs.items()))).encode()).hexdigest() + ".pkl")
    if os.path.exists(f):
        return pickle.load(open(f, "rb"))
    r = tlc.run(MODULE, cfg, defs=defs, env=JVM_ENV, timeout=timeout)
    r.out = ""
    with open(f + ".tmp", "wb") as fh:
        pickle.dump(r, fh)
    os.replace(f + ".tmp", f)
    return r


# ------------------------------------------------------------------------------ channels
def frac(v):
    return v[0] / v[1]


def draw_channel(rs, K, N, rE):
    """seeded generic complex channel [H | He] with the conditioning guard; returns (matrix, number of re-draws)"""
    KN = K * N
    for redraw in range(200):
        M = (rs.randn(KN, KN + rE) + 1j * rs.randn(KN, KN + rE)) / np.sqrt(2.0)
        if np.linalg.cond(M[:, :KN]) > 1e3:
            continue
        ok = True
        for k in range(K if rE else 0):
            sv = np.linalg.svd(M[k * N:(k + 1) * N, KN:], compute_uv=False)
            if sv[-1] < 0.1 or sv[0] / sv[-1] > 1e2:
                ok = False
                break
        if ok:
            return M, redraw
    raise RuntimeError("no well-conditioned channel in 200 draws")


def make_mu_channel(M, K, N, rE, nv, variant=0, nte=None):
    """nte: antennas of the external interference SOURCES (several sources; their ranks add up to rE)"""
    from pyphysim.channels import multiuser
    ch = multiuser.MultiUserChannelMatrixExtInt()
    ants = np.ones(K, dtype=int) * N
    if nte is not None and len(nte) > 1:
        NtE = list(nte) if variant % 2 == 0 else np.array(nte)
    else:
        NtE = rE if variant % 2 == 0 else [rE]
    ch.init_from_channel_matrix(np.array(M), ants.copy(), ants.copy(), K, NtE)
    ch.noise_var = nv
    return ch


def modulator(name):
    from pyphysim.modulators import fundamental
    return {"PSK4": lambda: fundamental.PSK(4), "QAM16": lambda: fundamental.QAM(16), "BPSK": lambda: fundamental.BPSK(),
            "PSK8": lambda: fundamental.PSK(8)}[name]()


def metric_call_args(name, a, variant=0):
    """the arguments of set_ext_int_handling_metric for the emitted (name, supplied keys)"""
    d = {}
    if a["ns"] > 0:
        d["num_streams"] = a["ns"]
    if a["mod"] != "none":
        d["modulator"] = modulator(a["mod"])
    if a["plen"] > 0:
        d["packet_length"] = a["plen"]
    m = name
    if name == "None" and variant % 2 == 1:
        m = None
    return m, d


def make_object(cfgrec):
    from pyphysim.comm import blockdiagonalization as bdm
    K, p, nv, pe = cfgrec["K"], cfgrec["p"], cfgrec["nv"], cfgrec["pe"]
    if cfgrec["cls"] == "BD":
        return bdm.BlockDiagonalizer(K, p, nv)
    if cfgrec["cls"] == "WBD":
        return bdm.WhiteningBD(K, p, nv, pe)
    return bdm.EnhancedBD(K, p, nv, pe)


# ------------------------------------------------------------------------------ predicates (rel)
def fro(x):
    return float(np.linalg.norm(x))


def eval_bd(req, H, K, N, p, newH, Ms, W=None, stats=None, nv=None):
    """(newH, Ms) of the plain block diagonalization [+ W = calc_receive_filter(newH)]"""
    bad = []
    KN = K * N
    newH, Ms = np.asarray(newH), np.asarray(Ms)
    if Ms.shape != (KN, KN) or newH.shape != (KN, KN):
        return [f"Malformed: shapes of (newH, Ms) are {newH.shape}, {Ms.shape}, expected {(KN, KN)}"]
    if not (np.all(np.isfinite(Ms)) and np.all(np.isfinite(newH))):
        return ["Malformed: non-finite values in (newH, Ms)"]
    E = H.dot(Ms)
    if "ReturnedChannelIsChannelTimesPrecoder" in req and fro(newH - E) > 1e-9 * max(1e-300, fro(H) * fro(Ms)):
        bad.append("ReturnedChannelIsChannelTimesPrecoder: returned newH is not H * Ms")
    if "EffectiveChannelBlockDiagonal" in req:
        mask = np.kron(np.eye(K), np.ones((N, N)))
        off = fro(E * (1 - mask))
        if off > TOL * fro(H) * max(fro(Ms), 1e-300):
            bad.append(f"EffectiveChannelBlockDiagonal: off-diagonal blocks of H*Ms have norm {off:.3e}")
    pw = np.array([fro(Ms[:, k * N:(k + 1) * N]) ** 2 for k in range(K)])
    if "PowerLePerUser" in req and np.any(pw > p * (1 + TOL)):
        bad.append(f"PowerLePerUser: precoder block powers {pw} exceed {p}")
    if "PowerReachedByOne" in req and pw.max() < p * (1 - TOL):
        bad.append(f"PowerReachedByOne: largest precoder block power {pw.max()} < {p}")
    if "PowerEqPerUser" in req and np.any(np.abs(pw - p) > TOL * p):
        bad.append(f"PowerEqPerUser: precoder block powers {pw} != {p}")
    cp = np.sum(np.abs(Ms) ** 2, axis=0)
    ce = np.sum(np.abs(E) ** 2, axis=0)
    if "EffectiveStreamsOrthogonal" in req:
        for k in range(K):
            B = E[k * N:(k + 1) * N, k * N:(k + 1) * N]
            Gm = B.conj().T.dot(B)
            offd = fro(Gm - np.diag(np.diag(Gm)))
            if offd > TOL * max(fro(Gm), 1e-300):
                bad.append(f"EffectiveStreamsOrthogonal: the streams of user {k} are not orthogonal at the receiver (Gram off-diagonal "
                           f"{offd:.3e} of {fro(Gm):.3e})")
                break
    if "WaterLevelCommonOnPoweredStreams" in req and nv is not None:
        pwd = cp > POWERED * p
        if pwd.sum() >= 1 and cp.sum() > 0:
            q = cp[pwd] * (K * p) / cp.sum()            # allocation before the normalisation (total power K * p)
            gains = ce[pwd] / cp[pwd]                   # channel power gain of each powered stream
            level = q + nv / gains
            if stats is not None and pwd.sum() >= 2:
                stats["water_levels_compared"] = stats.get("water_levels_compared", 0) + 1
            if level.max() - level.min() > 1e-6 * level.max():
                bad.append(f"WaterLevelCommonOnPoweredStreams: power + noise/gain of the powered streams spreads from {level.min():.6g} "
                           f"to {level.max():.6g} for total power {K * p}")
    if "ReceiveFilterInvertsOnPoweredStreams" in req and W is not None:
        W = np.asarray(W)
        if W.shape != (KN, KN):
            bad.append(f"ReceiveFilterInvertsOnPoweredStreams: receive filter shape {W.shape}")
        else:
            powered = cp > POWERED * p
            zero = cp == 0
            sel = powered | zero
            G = W.dot(E)
            T = np.diag(powered.astype(float))
            if stats is not None:
                stats["zero_streams"] = stats.get("zero_streams", 0) + int(zero.sum())
                stats["ambiguous_streams"] = stats.get("ambiguous_streams", 0) + int((~sel).sum())
            if not np.allclose(G[np.ix_(sel, sel)], T[np.ix_(sel, sel)], atol=TOL_ID, rtol=0):
                bad.append("ReceiveFilterInvertsOnPoweredStreams: W * (H*Ms) is not the identity on the powered streams "
                           f"(powered {powered.astype(int).tolist()}, max deviation {np.abs(G - T)[np.ix_(sel, sel)].max():.3e})")
    return bad


def eval_ext(req, M, K, N, rE, p, lastrec, Ms, Wk, Ns, stats=None, pe=None, chnv=None):
    """(Ms_all, Wk_all, Ns_all) of WhiteningBD / EnhancedBD.block_diagonalize_no_waterfilling"""
    bad = []
    KN = K * N
    H, He = M[:, :KN], M[:, KN:]
    try:
        if len(Ms) != K or len(Wk) != K or len(Ns) != K:
            return [f"Malformed: lengths of the returned arrays {len(Ms)}, {len(Wk)}, {len(Ns)} != K = {K}"]
        ns = [int(x) for x in Ns]
        Ms = [np.asarray(x) for x in Ms]
        Wk = [np.asarray(x) for x in Wk]
    except Exception as ex:
        return [f"Malformed: return value: {type(ex).__name__}: {ex}"]
    for k in range(K):
        if Ms[k].ndim != 2 or Ms[k].shape[0] != KN or not np.all(np.isfinite(Ms[k])) or not np.all(np.isfinite(Wk[k])):
            return [f"Malformed: precoder of user {k} has shape {Ms[k].shape} / non-finite entries"]
    if "StreamCountsMatchPrecoders" in req:
        for k in range(K):
            if Ms[k].shape[1] != ns[k] or Wk[k].shape != (ns[k], N):
                bad.append(f"StreamCountsMatchPrecoders: user {k} reports {ns[k]} streams, precoder {Ms[k].shape}, filter {Wk[k].shape}")
    if "AllStreamsKept" in req and ns != [N] * K:
        bad.append(f"AllStreamsKept: stream counts {ns}, expected {N} each")
    if "StreamCountIsNumStreams" in req and ns != [lastrec["n"]] * K:
        bad.append(f"StreamCountIsNumStreams: stream counts {ns}, expected num_streams = {lastrec['n']} each")
    if "StreamCountInRange" in req and not all(1 <= x <= N for x in ns):
        bad.append(f"StreamCountInRange: stream counts {ns} outside 1..{N}")
    if bad:
        return bad
    for k in range(K):
        Hk = H[k * N:(k + 1) * N]
        if "InterUserNullWithExtInt" in req:
            for j in range(K):
                if j != k:
                    leak = fro(H[j * N:(j + 1) * N].dot(Ms[k]))
                    if leak > TOL * fro(H[j * N:(j + 1) * N]) * max(fro(Ms[k]), 1e-300):
                        bad.append(f"InterUserNullWithExtInt: precoder of user {k} leaks {leak:.3e} into user {j}")
        if "PowerEqPerUser" in req:
            pw = fro(Ms[k]) ** 2
            if abs(pw - p) > TOL * p:
                bad.append(f"PowerEqPerUser: precoder of user {k} has power {pw}, expected {p}")
        if "ReceiveFilterInvertsOnPoweredStreams" in req and Wk[k].shape == (ns[k], N):
            G = Wk[k].dot(Hk).dot(Ms[k])
            if not np.allclose(G, np.eye(ns[k]), atol=TOL_ID, rtol=0):
                bad.append(f"ReceiveFilterInvertsOnPoweredStreams: W_k H_k Ms_k of user {k} deviates {np.abs(G - np.eye(ns[k])).max():.3e} from I")
        if "ExtIntRemovedWhenEnoughStreamsSacrificed" in req and ns[k] <= N - rE and Wk[k].shape == (ns[k], N):
            Hek = He[k * N:(k + 1) * N]
            res = fro(Wk[k].dot(Hek))
            if stats is not None:
                stats["extint_users_checked"] = stats.get("extint_users_checked", 0) + 1
                key = "extint_users_checked:" + str(lastrec.get("mname", "?"))
                stats[key] = stats.get(key, 0) + 1
            # judged relative to the interferer's own strength; the directions free of interference are only determined to
            # eps * |R| / gap (gap = pe * smallest non-zero singular value^2 of He_k over the noise level): conditioning-aware
            # tolerance computed from the channel and the emitted pe / noise alone
            tol = TOL
            if pe and chnv is not None:
                sv = np.linalg.svd(Hek, compute_uv=False)
                sv = sv[sv > 1e-12 * sv[0]]
                tol = max(TOL, 50 * np.finfo(float).eps * (pe * sv[0] ** 2 + chnv) / (pe * sv[-1] ** 2))
            if res > tol * fro(Wk[k]) * fro(Hek):
                bad.append(f"ExtIntRemovedWhenEnoughStreamsSacrificed: user {k} keeps {ns[k]} of {N} streams (ext. int. rank {rE}) "
                           f"but |W_k He_k| = {res:.3e}")
    return bad


def eval_whitening(req, M, K, N, rE, pe, nv, Wall):
    """calc_whitening_matrices: filters (conjugate transpose already applied) with W_k R_k W_k^H = I for the covariance
    R_k = pe He_k He_k^H + nv I of external interference plus noise, built here from the channel"""
    bad = []
    KN = K * N
    if "WhiteningFiltersWhitenExtIntPlusNoise" not in req:
        return bad
    if len(Wall) != K:
        return [f"WhiteningFiltersWhitenExtIntPlusNoise: {len(Wall)} whitening filters for {K} users"]
    for k in range(K):
        Hek = M[k * N:(k + 1) * N, KN:]
        R = pe * Hek.dot(Hek.conj().T) + nv * np.eye(N)
        W = np.asarray(Wall[k])
        if W.shape != (N, N) or not np.all(np.isfinite(W)):
            bad.append(f"WhiteningFiltersWhitenExtIntPlusNoise: whitening filter of user {k} has shape {W.shape} / non-finite entries")
            continue
        C = W.dot(R).dot(W.conj().T)
        # the small eigenvalues of an ill-conditioned covariance (dominant interference over weak noise) are only determined to
        # eps * cond(R) by any eigen-solver: conditioning-aware tolerance, computed from the channel alone
        tol = max(TOL_ID, 50 * np.finfo(float).eps * np.linalg.cond(R))
        if not np.allclose(C, np.eye(N), atol=tol, rtol=0):
            bad.append(f"WhiteningFiltersWhitenExtIntPlusNoise: W_k R_k W_k^H of user {k} deviates {np.abs(C - np.eye(N)).max():.3e} from I")
    return bad


def failed_predicates(msgs):
    """every discrepancy text starts with the name of the predicate it refutes (or 'Malformed')"""
    return {m.split(":", 1)[0] for m in msgs}


def same_result(a, b):
    """two results of the same call on equal inputs (tuples of matrices / arrays of matrices)"""
    if len(a) != len(b):
        return False
    for x, y in zip(a, b):
        xs = list(x) if (isinstance(x, np.ndarray) and x.dtype == object) else [x]
        ys = list(y) if (isinstance(y, np.ndarray) and y.dtype == object) else [y]
        if len(xs) != len(ys):
            return False
        for u, v in zip(xs, ys):
            u, v = np.asarray(u), np.asarray(v)
            if u.shape != v.shape or not np.allclose(u, v, rtol=1e-9, atol=1e-12 * max(1e-300, float(np.abs(v).max()) if v.size else 0.0)):
                return False
    return True


# ------------------------------------------------------------------------------ driving the real classes
class Hang(Exception):
    pass


def _alarm(signum, frame):
    raise Hang()


def value_form(x, variant):
    """the same number as a Python float, a numpy scalar or (when integer valued) an int"""
    if variant % 3 == 1:
        return np.float64(x)
    if variant % 3 == 2 and float(x).is_integer():
        return int(x)
    return float(x)


def argument_form(H, variant):
    """the same matrix as a C-contiguous, Fortran-ordered, strided (view into a larger buffer) or read-only array"""
    v = variant % 4
    if v == 1:
        return np.asfortranarray(H)
    if v == 2:
        big = np.zeros((2 * H.shape[0], 2 * H.shape[1]), dtype=complex)
        big[::2, ::2] = H
        return big[::2, ::2]
    A = np.array(H)
    if v == 3:
        A.setflags(write=False)
    return A


def flat_arrays(res):
    """all ndarrays inside a returned tuple (arrays of per-user matrices are unpacked)"""
    out = []
    for x in res:
        if isinstance(x, np.ndarray) and x.dtype == object:
            out += [np.asarray(y) for y in x]
        elif isinstance(x, (list, tuple)):
            out += [np.asarray(y) for y in x]
        else:
            out.append(np.asarray(x))
    return out


ATTR = {"iPu": "p", "noise_var": "nv", "pe": "pe"}


class Driver:
    def __init__(self, seed):
        self.rs = np.random.RandomState(seed % (2 ** 31))
        self.seed = seed
        self.o = None
        self.cfg = None          # class, K and the CURRENT values of iPu / noise_var / pe (as emitted by TLC)
        self.M = None            # harness copy of [H | He]
        self.ch = None           # the MultiUserChannelMatrixExtInt handed to the library (ext classes)
        self.ch_nv = None        # the noise variance given to that channel object
        self.nte = None          # antennas of its external interference sources
        self.dims = None
        self.res = None          # what the last solve returned
        self.res_M = None        # ... the channel it was computed for
        self.res_cfg = None      # ... and the attribute values TLC emitted for that call
        self.dict = None         # the dictionary handed to the last accepted set_ext_int_handling_metric
        self.held = []           # earlier results: (description, arrays as returned, copies taken at return)
        self.redraws = 0
        self.stats = {}

    # -- helpers
    def fresh(self, metric, cfg=None):
        """a new object with the current attribute values and the metric of the given abstract state"""
        o = make_object(cfg or self.cfg)
        if self.cfg["cls"] == "EBD" and metric["name"] != "None":
            m, d = metric_call_args(metric["name"], metric)
            o.set_ext_int_handling_metric(m, d)
        return o

    def public_state(self, o):
        st = [o.num_users, float(o.iPu), float(o.noise_var)]
        if self.cfg["cls"] != "BD":
            st.append(float(o.pe))
        if self.cfg["cls"] == "EBD":
            st.append(o.metric_name)
        return st

    def use_cfg(self, vals):
        """the attribute values TLC emitted with the call (they are the harness' notion of 'current')"""
        c = dict(self.cfg, p=frac(vals["p"]), nv=frac(vals["nv"]), pe=frac(vals["pe"]))
        if (c["p"], c["nv"]) != (self.cfg["p"], self.cfg["nv"]) or (c["cls"] != "BD" and c["pe"] != self.cfg["pe"]):
            raise RuntimeError(f"emitted attribute values {vals} differ from the values assigned so far {self.cfg}")
        return c

    def channel_untouched(self):
        bad = []
        K, N, rE = self.dims
        if self.ch is not None:
            ch = self.ch
            if list(ch.Nr) != [N] * K or list(ch.Nt) != [N] * K or ch.K != K:
                bad.append(f"InputsUntouched: the channel object now reports Nr={list(ch.Nr)} Nt={list(ch.Nt)} K={ch.K} (was {N} per user, K={K})")
            elif ch.noise_var != self.ch_nv:
                bad.append("InputsUntouched: the noise variance of the channel object changed")
            elif np.asarray(ch.big_H).shape != self.M.shape or not np.array_equal(ch.big_H, self.M):
                bad.append("InputsUntouched: the channel matrix of the channel object changed")
        return bad

    def hold(self, what, res):
        arrs = flat_arrays(res)
        self.held = self.held[-1:] + [(what, arrs, [np.array(x) for x in arrs])]

    def earlier_results_unchanged(self):
        for what, arrs, copies in self.held:
            for x, y in zip(arrs, copies):
                if x.shape != y.shape or not np.array_equal(x, y, equal_nan=True):
                    return [f"EarlierResultsUnchanged: an array returned earlier by {what} changed during a later call"]
        return []

    def solve_ext(self, o, ch):
        with np.errstate(all="ignore"):
            return o.block_diagonalize_no_waterfilling(ch)

    def solve_bd(self, o, op, H, c=None):
        from pyphysim.comm import blockdiagonalization as bdm
        c = c or self.cfg
        if op == "bd_wf":
            return o.block_diagonalize(H)
        if op == "bd_nowf":
            return o.block_diagonalize_no_waterfilling(H)
        return bdm.block_diagonalize(H, c["K"], c["p"], c["nv"])

    def bystander(self, op):
        """another object of the same class with other attribute values works on the same channel first: nothing of it
        may show in the object under test (class- / module-level state)"""
        c = dict(self.cfg, p=self.cfg["p"] * 3.0 + 0.25, nv=self.cfg["nv"] * 0.5 + 0.01, pe=self.cfg["pe"] + 1.0)
        K, N, rE = self.dims
        b = self.fresh({"name": "None"}, c)
        try:
            if op == "ext":
                self.solve_ext(b, make_mu_channel(self.M, K, N, rE, self.ch_nv, nte=self.nte))
            else:
                self.solve_bd(b, op, np.array(self.M[:, :K * N]), c)
        except Exception:
            pass

    def probe(self, pr):
        """a solve on a COPY of the object for the current channel must follow the post-state's rule and power"""
        if not pr.get("ok") or self.ch is None:
            return []
        K, N, rE = self.dims
        o = copy.deepcopy(self.o)
        ch = make_mu_channel(self.M, K, N, rE, self.ch_nv, nte=self.nte)
        try:
            Ms, Wk, Ns = self.solve_ext(o, ch)
        except Exception as ex:
            return [f"a solve in this state raised {type(ex).__name__}: {ex}"]
        req = set(pr["req"]) & {"StreamCountsMatchPrecoders", "AllStreamsKept", "StreamCountIsNumStreams", "StreamCountInRange", "PowerEqPerUser"}
        return [f"probe solve: {b}" for b in eval_ext(req, self.M, K, N, rE, frac(pr["cfg"]["p"]), pr["last"], Ms, Wk, Ns)]

    def filter_user_k(self, ns, req):
        """EnhancedBD.calc_receive_filter_user_k(Heq P, P) as a public static method: generic Heq, generic non-orthonormal P"""
        K, N, rE = self.dims
        sc = float(np.abs(self.M).max())
        for _ in range(50):
            Heq = (self.rs.randn(N, N) + 1j * self.rs.randn(N, N)) / np.sqrt(2.0)
            P = (self.rs.randn(N, max(ns, 1)) + 1j * self.rs.randn(N, max(ns, 1))) / np.sqrt(2.0)
            if np.linalg.cond(Heq) <= 1e2 and np.linalg.cond(P) <= 1e2 and np.linalg.cond(Heq.dot(P)) <= 1e3:
                break
        Heq = Heq * sc
        if ns == 0:
            args = (argument_form(Heq, self.rs.randint(0, 4)),) if self.rs.randint(0, 2) else (argument_form(Heq, self.rs.randint(0, 4)), None)
            A, Pm = Heq, None
        else:
            A, Pm = Heq.dot(P), P
            args = (argument_form(A, self.rs.randint(0, 4)), argument_form(P, self.rs.randint(0, 4)))
        keep = [None if x is None else np.array(x) for x in args]
        try:
            W = type(self.o).calc_receive_filter_user_k(*args) if self.rs.randint(0, 2) else self.o.calc_receive_filter_user_k(*args)
        except Exception as ex:
            return [f"calc_receive_filter_user_k raised {type(ex).__name__}: {ex}"]
        bad = []
        W = np.asarray(W)
        for x, y in zip(args, keep):
            if x is not None and (not np.array_equal(x, y) or np.shares_memory(W, x)):
                bad.append("InputsUntouched: calc_receive_filter_user_k modified an argument / returned a view of it")
        n = A.shape[1]
        if W.shape != (n, N) or not np.all(np.isfinite(W)):
            return bad + [f"FilterInvertsInsideSpanOfP: filter of shape {W.shape}, expected {(n, N)}"]
        if "FilterInvertsInsideSpanOfP" in req and not np.allclose(W.dot(A), np.eye(n), atol=TOL_ID, rtol=0):
            bad.append(f"FilterInvertsInsideSpanOfP: W (Heq P) deviates {np.abs(W.dot(A) - np.eye(n)).max():.3e} from I")
        if "FilterIgnoresOutsideSpanOfP" in req and Pm is not None:
            proj = Pm.dot(np.linalg.pinv(Pm))
            out = fro(W.dot(np.eye(N) - proj))
            if out > TOL * fro(W):
                bad.append(f"FilterIgnoresOutsideSpanOfP: |W (I - P P^+)| = {out:.3e} of |W| = {fro(W):.3e}")
        self.stats["filter_user_k_calls"] = self.stats.get("filter_user_k_calls", 0) + 1
        return bad

    def probe_plain(self):
        """block_diagonalize_no_waterfilling / block_diagonalize on a COPY of a plain object must obey the current power"""
        if self.M is None:
            return []
        K, N, rE = self.dims
        H = self.M[:, :K * N]
        o = copy.deepcopy(self.o)
        bad = []
        for op, req in (("bd_nowf", {"PowerEqPerUser", "EffectiveChannelBlockDiagonal"}), ("bd_wf", {"PowerLePerUser", "PowerReachedByOne"})):
            if op == "bd_nowf" and self.cfg["cls"] != "BD":
                continue          # (the ext-int classes override it: probed by probe())
            try:
                newH, Ms = self.solve_bd(o, op, np.array(H))
            except Exception as ex:
                return [f"{op} in this state raised {type(ex).__name__}: {ex}"]
            bad += [f"probe {op}: {b}" for b in eval_bd(req, H, K, N, self.cfg["p"], newH, Ms)]
        return bad

    # -- one emitted transition; returns list of (finding id | None, text)
    def step(self, e, do_probe):
        bad = self._step(e, do_probe)
        if self.o is not None and e["ret"]["op"] != "Scribble":
            bad += [(None, b) for b in self.earlier_results_unchanged()]
        return bad

    def _step(self, e, do_probe):
        from pyphysim.comm import blockdiagonalization as bdm
        op, a, out = e["ret"]["op"], e["ret"]["a"], e["ret"]["out"]
        post, req = e["post"], set(e["req"])
        bad = []
        if op == "Construct":
            self.cfg = {"cls": a["cls"], "K": a["K"], "p": frac(a["p"]), "nv": frac(a["nv"]), "pe": frac(a["pe"])}
            v = self.rs.randint(0, 3)
            self.o = make_object(dict(self.cfg, p=value_form(self.cfg["p"], v), nv=value_form(self.cfg["nv"], v + 1), pe=value_form(self.cfg["pe"], v + 2)))
            return bad
        o, c = self.o, self.cfg
        K = c["K"]
        before = self.public_state(o)
        if op == "SetAttr":
            val = frac(a["value"])
            setattr(o, a["attr"], value_form(val, self.rs.randint(0, 3)))
            c[ATTR[a["attr"]]] = val
            want = list(before)
            want[{"iPu": 1, "noise_var": 2, "pe": 3}[a["attr"]]] = val
            after = self.public_state(o)
            if after != want:
                bad.append((None, f"InputsUntouched: after {a['attr']} = {val} the object reports {after}, expected {want}"))
            # every solve path must obey the CURRENT values
            bad += [(None, f"after {a['attr']} = {val} on the live object: {b}") for b in self.probe(e["probe"])]
            bad += [(None, f"after {a['attr']} = {val} on the live object: {b}") for b in self.probe_plain()]
            return bad
        if op == "SetMetric":
            m, d = metric_call_args(a["name"], a["args"], variant=self.rs.randint(0, 2))
            d0 = dict(d)
            try:
                if not d and self.rs.randint(0, 2):
                    o.set_ext_int_handling_metric(m)
                else:
                    o.set_ext_int_handling_metric(m, d)
                raised = None
            except AttributeError as ex:
                raised = ex
            if d != d0:
                bad.append((None, "InputsUntouched: set_ext_int_handling_metric modified the dictionary it was given"))
            if out == "ok":
                if raised is not None:
                    return [(None, f"set_ext_int_handling_metric({a['name']}, {sorted(d)}) was rejected: {raised}")]
                self.dict = d
            else:
                if raised is None:
                    bad.append((None, f"set_ext_int_handling_metric({a['name']}, {sorted(d)}) was accepted (no AttributeError)"))
                if o.metric_name != before[-1]:
                    bad.append(("RejectedMetricCommitted", f"rejected set_ext_int_handling_metric({a['name']}, {sorted(d)}) changed the "
                                f"metric from {before[-1]} to {o.metric_name}"))
                    return bad
            if o.metric_name != post["metric"]["name"]:
                bad.append((None, f"metric_name is {o.metric_name}, expected {post['metric']['name']}"))
            if self.public_state(o)[:-1] != before[:-1]:
                bad.append((None, f"InputsUntouched: set_ext_int_handling_metric changed the attributes from {before} to {self.public_state(o)}"))
            if do_probe and not bad:
                bad += [(None, f"after {out} set_ext_int_handling_metric({a['name']}, {sorted(d)}): {b}") for b in self.probe(e["probe"])]
            return bad
        if op == "Bystander":
            # another live EnhancedBD object (kept alive) with other attribute values is configured with the emitted metric
            cb = dict(c, p=c["p"] * 2.0 + 0.5, nv=c["nv"] + 0.5, pe=c["pe"] + 2.0)
            b = make_object(cb)
            m, d = metric_call_args(a["name"], a["args"], variant=self.rs.randint(0, 2))
            b.set_ext_int_handling_metric(m, d)
            self.bys = getattr(self, "bys", [])[-3:] + [b]
            if self.public_state(o) != before:
                bad.append((None, f"OtherObjectsDoNotMatter: configuring another EnhancedBD object changed this one from {before} to {self.public_state(o)}"))
            bad += [(None, f"OtherObjectsDoNotMatter: after another live EnhancedBD object was configured with {a['name']} {sorted(d)}: {b_}")
                    for b_ in self.probe(e["probe"])]
            return bad
        if op == "EditDict":
            n_other = post["metric"]["ns"] % 2 + 1
            self.dict["num_streams"] = n_other
            self.dict["modulator"] = "scribble"
            bad += [("NaiveKeepsCallerDict", f"after the caller changed the dictionary it had passed: {b}") for b in self.probe(e["probe"])]
            return bad
        if op == "NewChannel":
            N, rE = a["N"], a["rE"]
            unit, rd = draw_channel(self.rs, K, N, rE)           # guard on the unit-scale draw, then the scale regime
            self.M = unit * 10.0 ** a.get("sc", 0)
            self.redraws += rd
            self.dims = (K, N, rE)
            # the channel object's noise scales with the channel; it stays positive when the object's noise_var is 0
            self.ch_nv = (c["nv"] if c["nv"] > 0 else 1e-4) * 10.0 ** (2 * a.get("sc", 0))
            self.nte = a.get("nte", [rE])
            self.ch = make_mu_channel(self.M, K, N, rE, self.ch_nv, variant=self.rs.randint(0, 2), nte=self.nte) if rE else None
            return bad
        K, N, rE = self.dims
        KN = K * N
        H = self.M[:, :KN]
        if op == "SolveBD":
            cc = self.use_cfg(a["cfg"])
            if self.rs.randint(0, 3) == 0:
                self.bystander(a["op"])
            Harg = argument_form(H, self.rs.randint(0, 4)) if self.ch is None or self.rs.randint(0, 2) else self.ch.big_H_no_ext_int
            try:
                newH, Ms = self.solve_bd(o, a["op"], Harg)
            except Exception as ex:
                return [(None, f"{a['op']} raised {type(ex).__name__}: {ex}")]
            self.res, self.res_M, self.res_cfg = (a["op"], newH, Ms), self.M, cc
            bad += [(None, b) for b in eval_bd(req, H, K, N, cc["p"], newH, Ms, stats=self.stats, nv=cc["nv"])]
            if "InputsUntouched" in req:
                if not np.array_equal(Harg, H):
                    bad.append((None, "InputsUntouched: the channel matrix handed to the solve was modified"))
                if np.shares_memory(np.asarray(Ms), Harg) or np.shares_memory(np.asarray(newH), Harg):
                    bad.append((None, "InputsUntouched: a returned array shares memory with the channel matrix argument"))
                bad += [(None, b) for b in self.channel_untouched()]
            bad += [(None, b) for b in self.earlier_results_unchanged()]
            self.hold(a["op"], (newH, Ms))
            if "SameAsFreshObject" in req and not bad:
                ref = self.solve_bd(self.fresh(post["metric"]), a["op"], np.array(H))
                if not same_result((newH, Ms), ref):
                    bad.append((None, f"SameAsFreshObject: {a['op']} on this object differs from the same call on a fresh object with the "
                                "current attribute values (history leaked)"))
        elif op == "SolveExt":
            cc = self.use_cfg(a["cfg"])
            if self.rs.randint(0, 3) == 0:
                self.bystander("ext")
            try:
                Ms, Wk, Ns = self.solve_ext(o, self.ch)
            except Exception as ex:
                return [(None, f"block_diagonalize_no_waterfilling(mu_channel) raised {type(ex).__name__}: {ex}")]
            self.res, self.res_M, self.res_cfg = ("ext", Ms, Wk, Ns), self.M, cc
            bad += [(None, b) for b in eval_ext(req, self.M, K, N, rE, cc["p"], post["last"], Ms, Wk, Ns, stats=self.stats, pe=cc["pe"], chnv=self.ch_nv)]
            if "InputsUntouched" in req:
                bad += [(None, b) for b in self.channel_untouched()]
            bad += [(None, b) for b in self.earlier_results_unchanged()]
            try:
                self.hold("block_diagonalize_no_waterfilling(mu_channel)", (Ms, Wk, Ns))
            except Exception:
                pass
            if "SameAsFreshObject" in req and not bad:
                ref = self.solve_ext(self.fresh(post["metric"]), make_mu_channel(self.M, K, N, rE, self.ch_nv, nte=self.nte))
                if not same_result((Ms, Wk, np.asarray(Ns, dtype=float)), (ref[0], ref[1], np.asarray(ref[2], dtype=float))):
                    bad.append((None, "SameAsFreshObject: the solve on this object differs from the same solve on a fresh object with the "
                                "current attribute values and metric (history leaked)"))
        elif op == "CalcWhitening":
            cc = self.use_cfg(a["cfg"])
            try:
                Wall = o.calc_whitening_matrices(self.ch)
            except Exception as ex:
                return [(None, f"calc_whitening_matrices raised {type(ex).__name__}: {ex}")]
            bad += [(None, b) for b in eval_whitening(req, self.M, K, N, rE, cc["pe"], self.ch_nv, Wall)]
            bad += [(None, b) for b in self.channel_untouched()]
            if do_probe and not bad:       # QueryIsPure
                bad += [(None, f"after calc_whitening_matrices: {b}") for b in self.probe(e["probe"])]
        elif op == "CalcFilterUserK":
            bad += [(None, b) for b in self.filter_user_k(a["ns"], req)]
            if do_probe and not bad:       # QueryIsPure
                bad += [(None, f"after calc_receive_filter_user_k: {b}") for b in self.probe(e["probe"])]
        elif op == "CalcReceiveFilter":
            _, newH, Ms = self.res
            Kr = K
            Nr_ = np.asarray(Ms).shape[0] // Kr
            Hres = self.res_M[:, :Kr * Nr_]
            arg = argument_form(np.asarray(newH), self.rs.randint(0, 4))
            try:
                W = bdm.calc_receive_filter(arg) if a["how"] == "module" else (o.calc_receive_filter(arg) if self.rs.randint(0, 2)
                                                                                 else type(o).calc_receive_filter(arg))
            except Exception as ex:
                return [(None, f"calc_receive_filter raised {type(ex).__name__}: {ex}")]
            if not np.array_equal(arg, newH) or np.shares_memory(np.asarray(W), arg):
                bad.append((None, "InputsUntouched: calc_receive_filter modified its argument / returned a view of it"))
            bad += [(None, b) for b in eval_bd(req, Hres, Kr, Nr_, self.res_cfg["p"], newH, Ms, W=W, stats=self.stats, nv=self.res_cfg["nv"])]
        elif op == "Scribble":
            _, Ms, Wk, Ns = self.res
            self.held = [h for h in self.held if not h[0].startswith("block_diagonalize_no_waterfilling(mu")]
            try:
                Ns[...] = 0
                for k in range(len(Ms)):
                    Ms[k][...] = np.nan
                    Wk[k][...] = np.nan
            except ValueError:
                pass          # read-only results cannot be scribbled on: nothing to check
            bad += [("ReturnedNsAliasesChannel", f"after the caller overwrote the returned arrays: {b}") for b in self.channel_untouched()]
            if not bad:
                bad += [(None, f"after the caller overwrote the returned arrays: {b}") for b in self.probe(e["probe"])]
        else:
            raise ValueError(op)
        after = self.public_state(o)
        if after != before:
            bad.append((None, f"InputsUntouched: {op} changed the configuration of the object from {before} to {after}"))
        return bad


def run_path(job):
    edges, seed, probes = job
    from ..core import preload
    preload()                       # imports are not part of the calls under test (see core.preload)
    drv = Driver(seed)
    okc = 0
    # (processor time of this worker, not wall-clock time: a busy machine must not look like a call that does not return)
    signal.signal(signal.SIGPROF, _alarm)
    for i, e in enumerate(edges):
        signal.setitimer(signal.ITIMER_PROF, 120)
        try:
            bad = drv.step(e, probes is None or probes[i])
        except Hang:
            bad = [(None, f"{e['ret']['op']} did not return within 120 s of processor time")]
        except Exception as ex:
            bad = [(None, f"{e['ret']['op']} {e['ret']['a']}: harness could not execute the step: {type(ex).__name__}: {ex}")]
        finally:
            signal.setitimer(signal.ITIMER_PROF, 0)
        if bad:
            return okc, {"step": i, "op": e["ret"], "what": "; ".join(b for _, b in bad[:3]), "fid": bad[0][0]}, drv.stats, drv.redraws
        okc += 1
    return okc, None, drv.stats, drv.redraws


# ------------------------------------------------------------------------------ stages
def explore(ctx, label, r, mode, seed_base):
    ctx.account(r, MODULE, label)
    edges = [{k: e[k] for k in ("pre", "post", "ret", "req", "probe")} for e in r.emitted]
    for e in edges:
        ctx.actions[e["ret"]["op"]] = ctx.actions.get(e["ret"]["op"], 0) + 1
        if e["ret"]["op"] == "SetMetric" and e["ret"]["out"] == "rejected":
            ctx.actions["SetMetricRejected"] = ctx.actions.get("SetMetricRejected", 0) + 1
    g = graph.Graph(edges, label=lambda e: graph.key(e["ret"]))
    root = g.roots()[0]
    rng = random.Random(seed_base)
    paths = g.transition_cover(root, max_len=mode.get("max_len", 12), rng=rng) if mode.get("cover", True) else []
    if mode.get("walks"):
        paths += g.random_walks(root, mode["walks"], mode.get("walk_len", 12), rng)
    # the probe solve after a set_ext_int_handling_metric depends on (metric before, call, channel) only: probe each once
    # per path set in the cover (walks: always)
    seen = set()
    jobs = []
    for i, p in enumerate(paths):
        es = g.path_edges(p)
        pr = []
        for e in es:
            if e["ret"]["op"] != "SetMetric" or mode.get("probe_all"):
                pr.append(True)
                continue
            k = graph.key([e["pre"]["metric"], e["pre"]["alias"], e["ret"], e["pre"]["chan"]["N"], e["pre"]["chan"]["rE"]])
            pr.append(k not in seen)
            seen.add(k)
        jobs.append((es, seed_base * 7919 + i, pr))
    res = pool_map(run_path, jobs, chunksize=max(1, len(jobs) // 48))
    stats = {}
    for job, (okc, v, st, rd) in zip(jobs, res):
        ctx.ok(n=okc)
        ctx.trace_done()
        for k, n in st.items():
            stats[k] = stats.get(k, 0) + n
        stats["redraws"] = stats.get("redraws", 0) + rd
        if v:
            case = {"kind": "path", "path": job[0], "seed": job[1], "failing": v}
            what = f"{label}: {v['what']} (step {v['step']} {v['op']['op']} {v['op']['a']})"
            if v["fid"]:
                ctx.finding(v["fid"], what, case)
            else:
                ctx.violation(what, case)
    for _, _, e in g.edges:
        ctx.distinct.add(label.split(":")[0] + graph.key(e["pre"]) + graph.key(e["ret"]))
    if paths:
        ctx.sample({"instance": label, "path": [e["ret"] for e in g.path_edges(paths[len(paths) // 2])]})
    st = ctx.notes.setdefault("numerics", {})
    for k, n in stats.items():
        st[k] = st.get(k, 0) + n
    return len(edges)


def model_dev(dev):
    """one deviation flag TRUE: TLC must find a violated law"""
    cfg, defs = model(["EBD"], [2], [2], [1], ["lo", "hi"], ["lo"], ["hi"], [1, 2], ["PSK4"], [120], emit=False, dev=[dev], scales=[-7, 0])
    r = tlc_cached(cfg, defs, 900)
    if not r.violated:
        raise tlc.TlcError(f"deviation {dev} is not detected by the laws of BlockDiag.tla")
    return r.violated


def instances(tier):
    """(label, model arguments, replay mode)"""
    thorough = tier == "thorough"
    sweep_kw = dict(sweep=True, scales=[-7, 0, 7])
    pel = ["zero", "micro", "tiny", "lo", "hi", "huge"] if thorough else ["zero", "micro", "huge"]
    sns = [1, 2, 3] if thorough else [1, 2]
    mods = ["PSK4", "QAM16"] if thorough else ["PSK4"]
    plab = ["lo", "hi", "mid"] if thorough else ["lo", "hi"]
    res = []
    # configuration sweep: every class x K x antennas x rank x scale x power x noise x ext-int power x metric (one TLC run;
    # BlockDiagonalizer objects have pe = "na", so the three classes do not multiply)
    res.append(("sweep", (["BD", "WBD", "EBD"], [2, 3, 4] if thorough else [2, 3], [1, 2, 3, 4] if thorough else [1, 2, 3], [1, 2, 3] if thorough else [1, 2], plab, ["lo", "hi"], pel, sns, mods, [120]), sweep_kw, {"max_len": 8}))
    # call histories
    if thorough:
        res.append(("history:BD", (["BD"], [3], [1, 2, 3], [1], ["lo", "hi", "mid"], ["lo", "hi", "zero"], ["zero"], [1], ["PSK4"], [120]), {"scales": [-7, 0, 7]}, {"walks": 300, "walk_len": 12}))
        res.append(("history:WBD", (["WBD"], [2], [1, 2, 3], [1, 2], ["lo", "hi"], ["lo", "zero"], ["zero", "hi"], [1], ["PSK4"], [120]), {"scales": [7]}, {"walks": 300, "walk_len": 12}))
        res.append(("history:EBD:attrs", (["EBD"], [3], [2, 3], [1], ["lo", "hi"], ["lo", "zero"], ["zero", "hi"], [1, 2], ["PSK4"], [120]), {"scales": [-7], "acts": ALL_ACTS - {"CalcFilterUserK", "Bystander"}},
                    {"walks": 800, "walk_len": 14, "max_len": 14}))
        res.append(("history:EBD:K2", (["EBD"], [2], [2, 3], [1, 2], ["hi"], ["lo"], ["micro"], [1, 2, 3], ["PSK4", "QAM16"], [120]),
                    {"extras": True, "scales": [7], "acts": ALL_ACTS - {"CalcFilterUserK"}}, {"walks": 1500, "walk_len": 14, "max_len": 14}))
        res.append(("history:EBD:K3", (["EBD"], [3], [1, 2], [1, 2], ["lo"], ["hi"], ["tiny"], [1, 2], ["PSK4"], [60, 120]),
                    {"extras": True, "scales": [-7]}, {"walks": 1500, "walk_len": 14, "max_len": 14}))
        res.append(("history:EBD:K3b", (["EBD"], [3], [2, 3], [1, 2], ["mid"], ["mid"], ["huge"], [1, 2, 3], ["QAM16"], [120]),
                    {"acts": ALL_ACTS - {"CalcFilterUserK"}}, {"walks": 1500, "walk_len": 14, "max_len": 14}))
        res.append(("history:EBD:K4pe0", (["EBD"], [4], [2, 3], [1], ["mid"], ["mid"], ["zero"], [1, 2], ["PSK4"], [120]),
                    {"scales": [7]}, {"walks": 800, "walk_len": 14, "max_len": 14}))
    else:
        res.append(("history:BD", (["BD"], [4], [2, 3], [1], ["lo", "hi"], ["hi", "zero"], ["zero"], [1], ["PSK4"], [120]), {"scales": [-7, 0, 7]}, {"walks": 20, "walk_len": 10}))
        res.append(("history:WBD", (["WBD"], [2], [2, 3], [1], ["lo", "hi"], ["lo", "zero"], ["hi"], [1], ["PSK4"], [120]), {"scales": [0, 7]}, {"walks": 20, "walk_len": 10}))
        res.append(("history:EBD:attrs", (["EBD"], [2], [2], [1], ["lo", "hi"], ["lo"], ["zero", "hi"], [1], ["PSK4"], [120]),
                    {"scales": [-7], "acts": ALL_ACTS - {"EditDict", "Scribble", "CalcReceiveFilter", "CalcFilterUserK", "Bystander"}},
                    {"walks": 40, "walk_len": 12, "max_len": 12}))
        res.append(("history:EBD:K2", (["EBD"], [2], [2, 3], [1], ["hi"], ["zero"], ["huge"], [1, 2], ["PSK4"], [120]), {"extras": True, "acts": ALL_ACTS - {"CalcFilterUserK"}},
                    {"walks": 60, "walk_len": 12, "max_len": 12}))
    return res


def run(ctx):
    ctx.rule = ("TLC enumerates every configuration (sweep instances) and the complete call-history graph (history instances) of "
                "BlockDiag.tla; replayed paths cover every emitted transition on the real classes over seeded generic complex "
                "channels; distinct = (abstract state, call) pairs executed")
    ctx.assumptions += [
        "the block-diagonalization numerics (block-diagonal effective channel, per-user power, receive-filter identity, inter-user "
        "nulling, external-interference removal) are (rel): evaluated numerically from first principles on the public return values, "
        "tolerance 1e-7 relative (1e-6 for the receive-filter identity); TLC decides the configuration/history machine and which "
        "predicates are required in which state",
        "channels are generic: seeded complex Gaussian, equal antennas per user and total tx = total rx (the domain of the property); "
        "draws with cond(H) > 1e3 or an external channel of a user with cond > 1e2 / smallest singular value < 0.1 are re-drawn "
        "deterministically from the same stream (guard computed from the channel alone)",
        "a stream with power in (0, 1e-8 * user power] is left out of the receive-filter predicate (counted as ambiguous_streams)",
        "the water-filling allocation itself is decided under C12; the noise variance of the channel object is set to the object's",
        "num_streams <= antennas per user (larger values are outside the quantifier)"]
    insts = instances(ctx.tier)

    def tlc_run(inst):
        label, args, kw, mode = inst
        cfg, defs = model(*args, **kw)
        return tlc_cached(cfg, defs, 1800)

    with ThreadPoolExecutor(3) as ex:
        devf = [ex.submit(model_dev, d) for d in DEVS]
        futs = [ex.submit(tlc_run, inst) for inst in insts]
        runs = [f.result() for f in futs]
        ctx.notes["deviations_refuted_by_model"] = {d: f.result() for d, f in zip(DEVS, devf)}
    nedges = {}
    for n, (inst, r) in enumerate(zip(insts, runs)):
        t0 = time.time()
        nedges[inst[0]] = explore(ctx, inst[0], r, inst[3], ctx.seed * 131 + n)
        ctx.notes.setdefault("replay_wall_s", {})[inst[0]] = round(time.time() - t0, 1)
    ctx.notes["edges_per_instance"] = nedges
    ctx.require_actions(["Construct", "Bystander", "SetAttr", "SetMetric", "SetMetricRejected", "EditDict", "NewChannel", "SolveBD", "SolveExt",
                         "CalcWhitening", "CalcReceiveFilter", "CalcFilterUserK", "Scribble"])
    num = ctx.notes.get("numerics", {})
    if not ctx.violations and not ctx.known_hits:
        # non-vacuity of the conditional numerics
        if num.get("zero_streams", 0) == 0:
            raise tlc.TlcError("no water-filled solve produced a stream without power: the zero-power clause was not exercised")
        for mname in ("fixed", "capacity", "effective_throughput"):
            if num.get("extint_users_checked:" + mname, 0) == 0:
                raise tlc.TlcError(f"the external-interference removal predicate was never evaluated for the {mname} metric (vacuous clause)")
        if num.get("filter_user_k_calls", 0) == 0:
            raise tlc.TlcError("calc_receive_filter_user_k was never exercised")
    if num.get("ambiguous_streams", 0):
        raise tlc.TlcError(f"{num['ambiguous_streams']} stream(s) with power in (0, 1e-8 p] were left out of the receive-filter predicate: "
                           "the clause 'every stream that was given power' lost cases (re-run with another VERIF_SEED and report)")
    ctx.exhaustive = True
    # stage T: recorded random configurations / call sequences validated by TLC (Trace_BlockDiag.tla)
    from . import c09_trace
    c09_trace.run(ctx)
    # only the first few violations are written out as replay files: put one of every kind first
    seen, first, rest = set(), [], []
    for v in ctx.violations:
        sig = (v["case"].get("kind"), v["what"].split("]")[0] if v["what"].startswith("[") else v["what"].split(":")[1].strip()[:30] if ":" in v["what"] else "")
        (rest if sig in seen else first).append(v)
        seen.add(sig)
    ctx.violations[:] = first + rest


def replay(ctx, data):
    c = data["case"]
    if c.get("kind") == "trace":
        from . import c09_trace
        return c09_trace.replay(ctx, c)
    ctx.ok()
    okc, v, st, rd = run_path((c["path"], c["seed"], None))
    if v:
        if v["fid"]:
            ctx.finding(v["fid"], v["what"], c)
        else:
            ctx.violation(v["what"], c)
