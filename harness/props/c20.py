"""C20 - subspace and linear-algebra kernels satisfy their defining identities.

Stage M: TLC on spec/linalg/Subspace.tla.  Every family of cases (constant Kind) is explored with
all Dev flags FALSE and the laws of the property as invariants (a violation is a machinery
failure); for each named deviation TLC must FIND the violation with the flag TRUE.
Stage R: every case TLC emitted (inputs + exact expected observables computed in Gaussian-integer
/ rational arithmetic) is executed on the real pyphysim functions and compared; the "(rel)"
families (gmd, whiten, eigrel) are sequenced by TLC and their required relation is evaluated
numerically from first principles.
Python never computes an expected value: it converts emitted exact values to floats, calls
pyphysim and compares."""
import os
from concurrent.futures import ThreadPoolExecutor

import numpy as np

from .. import tlc
from ..core import pool_map

MODULE = "linalg/Subspace.tla"
DEVS = ["LrsvWideMatrixIndex", "PcmWideMatrixShape", "WhitenEigNotOrthogonal", "SmwZeroSkipShiftsIndex", "ProjLazyOQFromCallerArray", "ConvNarrowIntHalfPrecision"]
TOL = 1e-9
HIST_MAX = 3         # = HistMax of the specification
RTOL = 1e-8          # (rel) sub-claims through SVD / eig

INVS = {
    "proj": ["ProjHermitian", "ProjIdempotent", "ProjFixesA", "ProjComplementary", "ReflectTwice", "ProjRank", "ProjSplits", "ProjScaleLaw", "ProjBasisLaw"],
    "projhist": ["ProjObjectCoherent", "ProjHistInputs"],
    "chord": ["ChordFormsAgree", "ChordSymmetric", "ChordZeroOnEqual", "ChordBasisInvariant", "ChordUnitaryInvariant", "ChordHouseholderIsUnitary", "ChordAngles", "ChordBasisFormLaw", "ChordMixedSymmetric", "ChordRange"],
    "chordx": ["ChordXFormsAgree", "ChordXSymmetric", "ChordXBasisInvariant", "ChordXUnitaryInvariant", "ChordXBasisFormLaw", "ChordXMixedSymmetric", "ChordXRange"],
    "smw": ["SmwIsInverse", "SmwScaleLaw"],
    "conv": ["ConvInverse", "ConvOffset", "ConvFullPrecision"],
    "ebn0": ["EbLaw", "ConvFullPrecision"],
    "eig": ["EigSpectrum", "EigSelectors", "EigProjectorIsProjection", "EigScaleLaw"],
    "svd": ["SvdSpectrum", "SvdSelectors", "SelectorsTotal", "SvdScaleLaw"],
    "gmd": ["GmdFullRank"],
    "whiten": ["WhitenInputIsHPD", "Whitens"],
    "eigrel": ["EigRelInput"],
}
INVS["projx"] = INVS["proj"]
INVS["projq"] = INVS["proj"]
ACTION_OF = {"proj": "Proj", "projx": "Proj", "projq": "Proj", "chord": "Chord", "chordx": "ChordX", "conv": "Conv", "ebn0": "Eb", "eig": "Eig", "svd": "Svd",
             "gmd": "Gmd", "whiten": "Whiten", "eigrel": "EigRel"}
ACTIONS = ["Proj", "ProjHistPick", "ProjHistStep", "Chord", "ChordX", "SmwPick", "SmwStep", "Conv", "Eb", "Eig", "Svd", "Gmd", "Whiten", "EigRel"]

SQ = lambda *ns: [[n, n] for n in ns]
# <<rows, n1, n2>> for the mixed-dimension chordal family; (dA dB)^2 (n1 + n2) stays below 2^31 for these
MIXED = [[2, 1, 2], [2, 2, 1], [3, 1, 2], [3, 2, 1], [3, 1, 3], [3, 3, 1], [3, 2, 3], [3, 3, 2], [4, 1, 2], [4, 2, 1],
         [4, 1, 3], [4, 3, 1], [5, 1, 2], [5, 2, 1], [5, 1, 3], [5, 3, 1], [4, 2, 2], [3, 1, 1]]
ALL_SHAPES_5 = [[r, c] for r in range(1, 6) for c in range(1, 6)]
ALL_SHAPES_8 = [[r, c] for r in range(1, 9) for c in range(1, 9)]


def plan(tier):
    """(label, kind, shapes, alpha, n_ids, ids_per_tlc_run).  Bounds on shapes/alphabets keep every
    intermediate of the exact arithmetic inside 32 bits (see notes/C20.md)."""
    if tier == "quick":
        return [
            ("projx 2x1 (all)", "projx", [[2, 1]], 1, 81, 81),
            ("projx 3x1 (all)", "projx", [[3, 1]], 1, 729, 729),
            ("projq 5..8 rows (exact, orthogonal-column construction)", "projq", [[5, 2], [6, 3], [7, 4], [8, 3], [8, 7], [5, 4], [6, 1], [7, 2]], 1, 80, 80),
            ("projhist (object histories)", "projhist", [[2, 1], [3, 1], [3, 2], [4, 2]], 2, 12, 12),
            ("proj 3x2/4x2/2x2 a=2", "proj", [[3, 2], [4, 2], [2, 2], [4, 1]], 2, 320, 320),
            ("proj 4x3/5x2/3x3 a=1", "proj", [[4, 3], [5, 2], [3, 3], [5, 1]], 1, 200, 200),
            ("chord", "chord", [[2, 1], [3, 1], [3, 2], [4, 1], [4, 2]], 1, 400, 400),
            ("chordx (unequal dims)", "chordx", MIXED, 1, 360, 360),
            ("smw 2,3 a=2", "smw", SQ(2, 3), 2, 200, 200),
            ("smw 1,4 a=1", "smw", SQ(1, 4), 1, 60, 60),
            ("conv", "conv", [[1, 1]], 15, 279, 279),
            ("ebn0", "ebn0", [[1, 1]], 15, 310, 310),
            ("eig N<=4 a=2", "eig", SQ(2, 3, 4), 2, 240, 240),
            ("eig N<=8 a=1", "eig", SQ(3, 5, 6, 7, 8), 1, 200, 200),
            ("svd <=4 a=2", "svd", [[r, c] for r in range(1, 5) for c in range(1, 5)], 2, 400, 400),
            ("svd <=8 a=1", "svd", [[2, 5], [5, 2], [3, 6], [6, 3], [5, 5], [4, 7], [7, 4], [8, 6], [2, 8], [8, 8]], 1, 200, 200),
            ("gmd", "gmd", SQ(1, 2, 3, 4, 5, 6, 8) + [[4, 3], [3, 4], [6, 3], [2, 5], [8, 5], [5, 8]], 2, 260, 260),
            ("whiten", "whiten", SQ(1, 2, 3, 4, 6, 8) + [[5, 3], [1, 3], [2, 4], [2, 6], [3, 8], [1, 2]], 2, 240, 240),
            ("eigrel", "eigrel", SQ(2, 3, 4, 5, 6, 7, 8) + [[9, 6], [5, 3]], 2, 180, 180),
        ]
    return [
        ("projx 2x1 (all)", "projx", [[2, 1]], 1, 81, 81),
        ("projx 3x1 (all)", "projx", [[3, 1]], 1, 729, 729),
        ("projq 5..8 rows (exact, orthogonal-column construction)", "projq", [[N, n] for N in range(5, 9) for n in range(1, N)], 1, 2200, 550),
        ("projhist (object histories)", "projhist", [[2, 1], [3, 1], [3, 2], [4, 2], [4, 1], [2, 2]], 2, 120, 30),
        ("projx 2x2 (all)", "projx", [[2, 2]], 1, 6561, 1100),
        ("projx 4x1 (all)", "projx", [[4, 1]], 1, 6561, 1100),
        ("proj a=2", "proj", [[3, 2], [4, 2], [2, 2], [4, 1], [3, 1], [2, 1]], 2, 12000, 1000),
        ("proj a=1", "proj", [[4, 3], [5, 2], [3, 3], [5, 1], [6, 2], [6, 1], [4, 4]], 1, 7000, 1000),
        ("chord", "chord", [[2, 1], [3, 1], [3, 2], [4, 1], [4, 2], [2, 2]], 1, 15000, 1000),
        ("chordx (unequal dims)", "chordx", MIXED, 1, 9000, 1000),
        ("smw 2,3 a=2", "smw", SQ(2, 3), 2, 8000, 1000),
        ("smw 1,4 a=1", "smw", SQ(1, 4), 1, 2000, 500),
        ("conv", "conv", [[1, 1]], 30, 549, 549),
        ("ebn0", "ebn0", [[1, 1]], 30, 610, 610),
        ("eig N<=4 a=2", "eig", SQ(2, 3, 4), 2, 7500, 750),
        ("eig N<=8 a=1", "eig", SQ(2, 3, 4, 5, 6, 7, 8), 1, 7000, 700),
        ("svd <=4 a=2", "svd", [[r, c] for r in range(1, 5) for c in range(1, 5)], 2, 12000, 1000),
        ("svd <=8 a=1", "svd", ALL_SHAPES_8, 1, 9600, 640),
        ("gmd", "gmd", ALL_SHAPES_8, 2, 8000, 800),
        ("whiten", "whiten", ALL_SHAPES_8, 2, 8000, 800),
        ("eigrel", "eigrel", [[r, c] for r in range(1, 10) for c in range(1, 9) if r >= c], 2, 6000, 750),
    ]


def model(kind, shapes, alpha, lo, hi, seed, dev=(), emit=True):
    d = {k: (k in dev) for k in DEVS}
    defs = {"Shapes": tlc.tla(shapes), "Dev": tlc.tla(d)}
    cfg = tlc.cfg_text(constants={"Kind": tlc.tla(kind), "Seed": str(seed), "Lo": str(lo), "Hi": str(hi), "Alpha": str(alpha)},
                       defs=defs, invariants=INVS[kind], action_constraints=["Emit"] if emit else [])
    return cfg, defs


# ------------------------------------------------------------------ exact values -> floats
def g2c(x):
    return complex(x[0], x[1]) / x[2]


def mat(m, den=1):
    a = np.array([[g2c(x) for x in row] for row in m], dtype=complex)
    return a / den if den != 1 else a


def is_real(m):
    return all(x[1] == 0 for row in m for x in row)


def rat(q):
    return q[0] / q[1]


def close(a, b, tol=TOL):
    """|x - x^| <= tol * max(1, |x^|), element-wise; b is the expected value"""
    a = np.asarray(a)
    b = np.asarray(b)
    if a.shape != b.shape:
        return False
    if a.size == 0:
        return True
    return bool(np.all(np.abs(a - b) <= tol * np.maximum(1.0, np.abs(b))))


def relclose(a, b, tol=TOL):
    """|x - x^| <= tol |x^| (for linear-scale powers spanning many decades)"""
    return abs(a - b) <= tol * abs(b)


def scale_of(c):
    """the magnitude regime of the case: the inputs are multiplied by k = 10^sc (ScalePower of the specification says
    which, and by which power of k every observable then changes; observables are divided by it before comparing)"""
    return 10.0 ** c.get("sc", 0)


def variants(m, k=1.0):
    """the dtypes an input matrix is offered in: complex always; float and int when it is real.  The complex / float
    variants carry the magnitude k; the integer variant stays at magnitude 1 (k may be fractional)"""
    a = mat(m)
    out = [("complex", a * k)]
    if is_real(m):
        out.append(("float", a.real.astype(float) * k))
        out.append(("int", np.rint(a.real).astype(np.int64)))
    return out


def basis_forms(c, key, A, mag):
    """the forms in which a basis is offered besides the matrix as built (field `forms` of the case, see `BasisForms` in
    the specification): columns rescaled individually (exact, emitted), unit-norm columns (NOT orthogonal), an
    orthonormal basis.  All of them span the subspace of A, so every expected value stays the one emitted for A."""
    out = []
    forms = set(c.get("forms", []))
    if "colscaled" in forms:
        out.append(("columns rescaled individually", mat(c[key + "D"]) * mag))
    if "unitnorm" in forms:
        out.append(("unit-norm columns", A / np.linalg.norm(A, axis=0)))
    if "orthonormal" in forms:
        out.append(("orthonormal basis", np.linalg.qr(A)[0]))
    return out


class Out:
    """collects the result of one case: number of comparisons, mismatches (what, finding-id|None)"""

    def __init__(self):
        self.n = 0
        self.bad = []

    def check(self, cond, what, fid=None):
        self.n += 1
        if not cond:
            self.bad.append((what, fid))
        return cond


def _call(o, what, f, *a, fid=None, exc=()):
    """call f; an exception is a mismatch (attributed to finding fid when its type is in exc)"""
    snap = [x.copy() if isinstance(x, np.ndarray) else None for x in a]
    try:
        r = f(*a)
    except Exception as ex:  # noqa
        o.check(False, f"{what} raised {type(ex).__name__}: {ex}", fid if isinstance(ex, exc) else None)
        return False, None
    # call discipline: ndarray arguments are inputs only (bit-identical after the call)
    for x, k in zip(a, snap):
        if k is not None and not (x.shape == k.shape and x.dtype == k.dtype and np.array_equal(x, k, equal_nan=True)):
            o.check(False, f"{what} modified one of its array arguments (ArgumentsUnchanged)")
    return True, r


# ------------------------------------------------------------------ the families
def ev_proj(c, o):
    from pyphysim.subspace.projections import Projection, calcProjectionMatrix, calcOrthogonalProjectionMatrix
    den = c["den"]
    P, oP = mat(c["num"], den), mat(c["onum"], den)
    PM, oPM, RM = mat(c["PM"], den), mat(c["oPM"], den), mat(c["RM"], den)
    M = mat(c["M"])
    k = scale_of(c)
    if c.get("AI"):
        # a nearly dependent basis (cond ~ 1e4) of the SAME subspace: inv(A^H A) loses cond^2 eps ~ 1e-7
        AI = mat(c["AI"]) * k
        ok, Q = _call(o, "calcProjectionMatrix(nearly dependent basis)", calcProjectionMatrix, AI)
        if ok:
            o.check(close(Q, P, 1e-5), f"[k=1e{c['sc']}] calcProjectionMatrix of a nearly dependent basis of span(A) != P (tolerance 1e-5)")
        ok, pr = _call(o, "Projection(nearly dependent basis)", Projection, AI)
        if ok:
            o.check(close(pr.project(M), PM, 1e-5) and close(pr.oProject(M), oPM, 1e-5) and close(pr.reflect(M), RM, 1e-5),
                    f"[k=1e{c['sc']}] project / oProject / reflect with a nearly dependent basis of span(A) (tolerance 1e-5)")
    for form, F in basis_forms(c, "A", mat(c["A"]) * k, k):
        t = f"[basis of span(A) with {form}] "
        ok, Q = _call(o, t + "calcProjectionMatrix", calcProjectionMatrix, F)
        if ok:
            o.check(close(Q, P), t + "calcProjectionMatrix differs from the projector onto span(A) (the result must depend on the subspace only)")
        ok, pr = _call(o, t + "Projection", Projection, F)
        if ok:
            o.check(close(pr.project(M), PM) and close(pr.oProject(M), oPM) and close(pr.reflect(M), RM),
                    t + "project / oProject / reflect differ from those of span(A)")
    for dt, A in variants(c["A"], k):
        ka = 1.0 if dt == "int" else k
        t = f"[{dt}, k=1e{c['sc'] if dt != 'int' else 0}] "
        if dt != "int":
            # mixed real / complex operands: a REAL float matrix and a complex multiple of M through the same projector
            ok, prm = _call(o, t + "Projection(A)", Projection, A)
            if ok:
                Mr = mat(c["Mr"]).real.copy()
                o.check(close(prm.project(Mr), mat(c["PMr"], den)) and close(prm.oProject(Mr), Mr - mat(c["PMr"], den))
                        and close(prm.reflect(Mr), Mr - 2 * mat(c["PMr"], den)), t + "project / oProject / reflect of a REAL float matrix (mixed operands)")
                z = 1 + 2j
                o.check(close(prm.project(M * z), PM * z) and close(prm.reflect(M * z), RM * z), t + "project / reflect of a complex multiple of M (linearity, mixed operands)")
        ok, Q = _call(o, t + "calcProjectionMatrix", calcProjectionMatrix, A)
        if ok:
            o.check(close(Q, P), t + "calcProjectionMatrix(A) != A (A^H A)^-1 A^H")
        ok, Q = _call(o, t + "calcOrthogonalProjectionMatrix", calcOrthogonalProjectionMatrix, A)
        if ok:
            o.check(close(Q, oP), t + "calcOrthogonalProjectionMatrix(A) != I - P")
        ok, pr = _call(o, t + "Projection(A)", Projection, A)
        if not ok:
            continue
        o.check(close(pr.Q, P) and close(pr.oQ, oP), t + "Projection.Q / oQ differ from P / I - P")
        o.check(close(pr.project(M), PM), t + "project(M) != P M")
        o.check(close(pr.oProject(M), oPM), t + "oProject(M) != (I - P) M")
        o.check(close(pr.reflect(M), RM), t + "reflect(M) != (I - 2P) M")
        v = M[:, -1]
        o.check(close(pr.project(v), PM[:, -1]) and close(pr.oProject(v), oPM[:, -1]) and close(pr.reflect(v), RM[:, -1]),
                t + "project / oProject / reflect of a 1-D vector differ from the matrix column result")
        # the laws of the property evaluated on the real object (the expected values are the inputs)
        o.check(close(pr.reflect(pr.reflect(M)), M), t + "reflect(reflect(M)) != M")
        o.check(close(pr.project(A) / ka, mat(c["A"])), t + "project(A) != A")
        o.check(close(pr.oProject(A) / ka, np.zeros(A.shape)), t + "oProject(A) != 0")
        o.check(close(pr.project(pr.project(M)), PM), t + "project is not idempotent")
        o.check(close(pr.project(M) + pr.oProject(M), M), t + "project(M) + oProject(M) != M")
        o.check(close(pr.Q, pr.Q.conj().T), t + "projection matrix is not Hermitian")


def ev_projhist(c, o):
    """one history of calls on ONE Projection object; the caller may overwrite its array in place in between.
    Every returned value must be the one of the basis as it was at construction (emitted exactly by TLC)."""
    from pyphysim.subspace.projections import Projection
    den, m = c["den"], len(c["A1"])
    exp = {"project": mat(c["PM"], den), "oProject": mat(c["oPM"], den), "reflect": mat(c["RM"], den), "oQ": mat(c["onum"], den)}
    P1 = mat(c["num"], den)
    M = mat(c["M"])
    k = scale_of(c)
    for dt, A1 in variants(c["A1"], k)[:2]:
        A = A1.copy()                                   # the caller's array
        A2 = (mat(c["A2"]).real.copy() if dt == "float" else mat(c["A2"])) * k
        current = A.copy()
        ok, pr = _call(o, f"[{dt}] Projection(A)", Projection, A)
        if not ok:
            continue
        hist = "construct"
        earlier = []                                    # (what, returned object, copy of it at return time)
        for op in c["hist"]:
            hist += " -> " + op
            if op == "mutate":
                A[...] = A2
                current = A.copy()
                continue
            try:
                got = pr.oQ if op == "oQ" else getattr(pr, op)(M)
            except Exception as ex:  # noqa
                o.check(False, f"[{dt}] {hist}: raised {type(ex).__name__}: {ex}")
                break
            o.check(close(got, exp[op]), f"[{dt}] {hist}: {op} does not return the value of the basis given at construction "
                                         "(the object depends on the caller's array after the constructor returned)")
            earlier.append((hist, got, np.array(got, copy=True)))
        o.check(close(pr.Q, P1) and close(np.asarray(pr.Q) + np.asarray(pr.oQ), np.eye(m)),
                f"[{dt}] {hist}: Q and oQ of the object are not complementary projectors of the constructed basis")
        o.check(np.array_equal(A, current), f"[{dt}] {hist}: the object wrote into the caller's array")
        for h, got, cp in earlier:                      # results stay results
            o.check(np.array_equal(np.asarray(got), cp), f"[{dt}] {h}: an earlier result was changed by a later call")


def ev_chord(c, o):
    from pyphysim.subspace import metrics as mt
    d2 = rat(c["d2"])
    fs = [("calc_chordal_distance", mt.calc_chordal_distance), ("calc_chordal_distance_2", mt.calc_chordal_distance_2),
          ("calc_chordal_distance_from_principal_angles",
           lambda X, Y: mt.calc_chordal_distance_from_principal_angles(mt.calc_principal_angles(X, Y)))]
    real = is_real(c["A"]) and is_real(c["B"]) and is_real(c["T"])
    k = scale_of(c)
    A, AT, UA, HA = (mat(c[x]) * k for x in ("A", "AT", "UA", "HA"))        # first operand at magnitude k,
    B, UB, HB = (mat(c[x]) / k for x in ("B", "UB", "HB"))                  # second operand at 1 / k
    sets = [("complex", A, B, AT)]
    if real:
        sets.append(("float", A.real.copy(), B.real.copy(), AT.real.copy()))
    for name, f in fs:
        for dt, a, b, at in sets:
            for what, x, y, exp in (("d(A,B)", a, b, d2), ("d(B,A) (symmetry)", b, a, d2), ("d(A,AT) (equal subspaces)", a, at, 0.0),
                                    ("d(AT,B) (change of basis)", at, b, d2)):
                ok, d = _call(o, f"{name} {what}", f, x, y)
                if ok:
                    d = float(np.real(d))
                    o.check(d >= 0 and close(d * d, exp), f"[{dt}, k=1e{c['sc']}] {name}: {what}^2 = {d * d!r}, expected {exp!r}")
            # "vanish exactly for equal subspaces": the identical array, a copy, another basis - judged at the level the
            # routine can reach (sqrt(eps) for the arccos of the angle routine, rounding level for the projector routines)
            zt = 1e-7 if "angles" in name else 1e-11
            for what, x, y in (("d(A,A) (the same array)", a, a), ("d(A,A.copy())", a, a.copy()), ("d(A,AT)", a, at)):
                ok, d = _call(o, f"{name} {what}", f, x, y)
                if ok:
                    o.check(0 <= float(np.real(d)) <= zt, f"[{dt}, k=1e{c['sc']}] {name}: {what} = {float(np.real(d))!r}, must vanish (<= {zt})")
        # structured bases: every form of A against every form of B; a form of A against another basis of span(A)
        fa = [("as built", A)] + basis_forms(c, "A", A, k)
        fb = [("as built", B)] + basis_forms(c, "B", B, 1.0 / k)
        for i, (na, xa) in enumerate(fa):
            for j, (nb, xb) in enumerate(fb):
                if i == 0 and j == 0:
                    continue
                ok, d = _call(o, f"{name} d(A [{na}], B [{nb}])", f, xa, xb)
                if ok:
                    d = float(np.real(d))
                    o.check(d >= 0 and close(d * d, d2), f"{name}: d(A [{na}], B [{nb}])^2 = {d * d!r}, expected {d2!r} "
                                                         "(the distance must depend on the two subspaces only)")
            if i > 0:
                for what, y in (("A T", AT), ("A", A)):
                    ok, d = _call(o, f"{name} d(A [{na}], {what})", f, xa, y)
                    if ok:
                        o.check(0 <= float(np.real(d)) <= (1e-7 if "angles" in name else 1e-11),
                                f"{name}: d(A [{na}], {what}) = {float(np.real(d))!r} for two bases of the same subspace, must vanish")
        if c.get("Ar"):
            # mixed operands: a REAL float array against a complex one, both argument orders
            Ar = mat(c["Ar"]).real.copy() * k
            for what, x, y, e in (("d(Re A [float array], B [complex])", Ar, B, rat(c["d2rc"][0])), ("d(B [complex], Re A [float array])", B, Ar, rat(c["d2rc"][1])),
                                  ("d(Re A [float], Re A [complex dtype])", Ar, Ar.astype(complex), 0.0), ("d(Re A [complex dtype], Re A [float])", Ar.astype(complex), Ar, 0.0)):
                ok, d = _call(o, f"{name} {what}", f, x, y)
                if ok:
                    d = float(np.real(d))
                    o.check(d >= 0 and close(d * d, e), f"{name}: {what}^2 = {d * d!r}, expected {e!r} (mixed real / complex operands)")
        if c.get("AI"):
            # nearly dependent basis of span(A) (cond ~ 1e4): same subspace, same distance; the routine through
            # inv(A^H A) is allowed cond^2 eps, the QR based ones cond eps
            ok, d = _call(o, f"{name} d(AI,B)", f, mat(c["AI"]) * k, B)
            if ok:
                d = float(np.real(d))
                o.check(d >= 0 and close(d * d, d2, 1e-5 if name.endswith("_2") else 1e-8),
                        f"[k=1e{c['sc']}] {name}: d(nearly dependent basis of span(A), B)^2 = {d * d!r}, expected {d2!r}")
        for what, x, y in (("d(UA,UB) (common signed-permutation unitary)", UA, UB), ("d(HA,HB) (common Householder rotation)", HA, HB)):
            ok, d = _call(o, f"{name} {what}", f, x, y)
            if ok:
                d = float(np.real(d))
                o.check(d >= 0 and close(d * d, d2), f"{name}: {what}^2 = {d * d!r}, expected {d2!r}")
    # the principal angles themselves: n angles in [0, pi/2], ascending, with the exact sum and product of cos^2
    n = c["n"]
    extra = [(f"A [{na}], B [{nb}]", xa, xb, None) for (na, xa), (nb, xb) in zip(basis_forms(c, "A", A, k), reversed(basis_forms(c, "B", B, 1.0 / k)))]
    if c.get("Ar"):
        for x, y in ((mat(c["Ar"]).real.copy() * k, B), (B, mat(c["Ar"]).real.copy() * k)):
            ok, ang = _call(o, "calc_principal_angles (mixed real / complex)", mt.calc_principal_angles, x, y)
            if ok:
                o.check(close(float(np.sum(np.sin(np.asarray(ang, dtype=float)) ** 2)), rat(c["d2rc"][0])),
                        "calc_principal_angles(real, complex): sum sin^2 != d^2 of the two subspaces")
    for dt, a, b, at in sets + extra:
        ok, ang = _call(o, "calc_principal_angles", mt.calc_principal_angles, a, b)
        if ok:
            ang = np.asarray(ang, dtype=float)
            good = ang.shape == (n,) and bool(np.all(ang >= 0)) and bool(np.all(ang <= np.pi / 2 + 1e-7)) and bool(np.all(np.diff(ang) >= -1e-7))
            if o.check(good, f"[{dt}] calc_principal_angles: not {n} ascending angles in [0, pi/2]: {ang.tolist()}"):
                c2 = np.cos(ang) ** 2
                o.check(close(float(np.sum(c2)), rat(c["cos2sum"])) and close(float(np.prod(c2)), rat(c["cos2prod"])),
                        f"[{dt}] calc_principal_angles: sum / product of cos^2 = {float(np.sum(c2))!r}, {float(np.prod(c2))!r}, "
                        f"expected {rat(c['cos2sum'])!r}, {rat(c['cos2prod'])!r}")


def ev_chordx(c, o):
    """subspaces of different dimension: the two projector-based routines are defined (the principal-angle routine
    yields min(n1, n2) angles whose cos^2 sum to tr(P_A P_B), but no distance)"""
    from pyphysim.subspace import metrics as mt
    d2 = rat(c["d2"])
    k = scale_of(c)
    A, AT, UA, HA = (mat(c[x]) * k for x in ("A", "AT", "UA", "HA"))
    B, BT, UB, HB = (mat(c[x]) / k for x in ("B", "BT", "UB", "HB"))
    real = all(is_real(c[x]) for x in ("A", "B", "AT", "BT"))
    sets = [("complex", A, B, AT, BT)]
    if real:
        sets.append(("float", A.real.copy(), B.real.copy(), AT.real.copy(), BT.real.copy()))
    dims = f"{c['rows']}x{c['n1']} vs {c['rows']}x{c['n2']}"
    for name, f in (("calc_chordal_distance", mt.calc_chordal_distance), ("calc_chordal_distance_2", mt.calc_chordal_distance_2)):
        for dt, a, b, at, bt in sets:
            for what, x, y in (("d(A,B)", a, b), ("d(B,A) (symmetry)", b, a), ("d(AT,B) (change of basis)", at, b),
                               ("d(A,BT) (change of basis)", a, bt), ("d(BT,AT)", bt, at)):
                ok, d = _call(o, f"{name} {what} {dims}", f, x, y)
                if ok:
                    d = float(np.real(d))
                    o.check(d >= 0 and close(d * d, d2), f"[{dt}] {name} {dims}: {what}^2 = {d * d!r}, expected {d2!r}")
        if c.get("Ar"):
            Ar = mat(c["Ar"]).real.copy() * k
            for what, x, y, e in (("d(Re A [float array], B [complex])", Ar, B, rat(c["d2rc"][0])), ("d(B [complex], Re A [float array])", B, Ar, rat(c["d2rc"][1]))):
                ok, d = _call(o, f"{name} {what} {dims}", f, x, y)
                if ok:
                    d = float(np.real(d))
                    o.check(d >= 0 and close(d * d, e), f"{name} {dims}: {what}^2 = {d * d!r}, expected {e!r} (mixed real / complex operands)")
        fa = [("as built", A)] + basis_forms(c, "A", A, k)
        fb = [("as built", B)] + basis_forms(c, "B", B, 1.0 / k)
        for i, (na, xa) in enumerate(fa):
            for j, (nb, xb) in enumerate(fb):
                if i == 0 and j == 0:
                    continue
                for what, x, y in ((f"d(A [{na}], B [{nb}])", xa, xb), (f"d(B [{nb}], A [{na}])", xb, xa)):
                    ok, d = _call(o, f"{name} {what} {dims}", f, x, y)
                    if ok:
                        d = float(np.real(d))
                        o.check(d >= 0 and close(d * d, d2), f"{name} {dims}: {what}^2 = {d * d!r}, expected {d2!r} (subspaces only)")
        for what, x, y in (("d(UA,UB) (common signed-permutation unitary)", UA, UB), ("d(HB,HA) (common Householder rotation)", HB, HA)):
            ok, d = _call(o, f"{name} {what} {dims}", f, x, y)
            if ok:
                d = float(np.real(d))
                o.check(d >= 0 and close(d * d, d2), f"{name} {dims}: {what}^2 = {d * d!r}, expected {d2!r}")
    k = min(c["n1"], c["n2"])
    for x, y in ((A, B), (B, A)):
        ok, ang = _call(o, f"calc_principal_angles {dims}", mt.calc_principal_angles, x, y)
        if ok:
            ang = np.asarray(ang, dtype=float)
            good = ang.shape == (k,) and bool(np.all(ang >= 0)) and bool(np.all(ang <= np.pi / 2 + 1e-7)) and bool(np.all(np.diff(ang) >= -1e-7))
            if o.check(good, f"calc_principal_angles {dims}: not {k} ascending angles in [0, pi/2]: {ang.tolist()}"):
                o.check(close(float(np.sum(np.cos(ang) ** 2)), rat(c["cos2sum"])),
                        f"calc_principal_angles {dims}: sum cos^2 = {float(np.sum(np.cos(ang) ** 2))!r}, expected tr(P_A P_B) = {rat(c['cos2sum'])!r}")


def ev_smw(c, o):
    from pyphysim.util.misc import update_inv_sum_diag
    exp = mat(c["expInv"])
    k = scale_of(c)                  # inv(A) / k with the diagonal k d gives inv(A + D) / k
    dg = np.array([g2c(x) for x in c["diagk"]], dtype=complex)
    shown = [complex(x) if x.imag else x.real for x in dg]
    vs = [("complex", mat(c["inv0"]) / k), ("complex/F-order", np.asfortranarray(mat(c["inv0"]) / k))]
    if is_real(c["inv0"]):
        vs.append(("float", mat(c["inv0"]).real.copy() / k))
    # the diagonal (Gaussian integers, zeros in any position): complex, and float / integer array when it is real
    ds = [("complex", dg * k)]
    if not np.any(dg.imag):
        ds += [("float", dg.real.copy() * k)] + ([("int", np.rint(dg.real).astype(np.int64))] if c.get("sc", 0) == 0 else [])
    for dd, diag in ds:
        for dt, inv0 in vs:
            if dd == "complex" and dt == "float":
                continue                                  # a real-typed inverse with a complex-typed diagonal is not offered (see notes)
            keep = inv0.copy()
            ok, got = _call(o, "update_inv_sum_diag", update_inv_sum_diag, inv0, diag)
            if ok:
                o.check(close(np.asarray(got) * k, exp), f"[{dt}, diagonal {dd}, k=1e{c.get('sc', 0)}] update_inv_sum_diag(inv(A), {shown}) != inv(A + D)")
                o.check(np.array_equal(keep, inv0), f"[{dt}] update_inv_sum_diag modified its input")


def lin(m, e):
    return float(m) * 10.0 ** e


def ev_conv(c, o):
    from pyphysim.util import conversion as cv
    k, m, y = c["k"], c["m"], float(c["y"])
    o.check(relclose(cv.dB2Linear(10.0 * k), lin(1, c["linOfdB"])), f"dB2Linear({10 * k}) != 1e{c['linOfdB']}")
    o.check(relclose(cv.dB2Linear(10 * k), lin(1, c["linOfdB"])), f"dB2Linear(int {10 * k}) != 1e{c['linOfdB']}")
    o.check(close(cv.linear2dB(lin(1, k)), c["dB"]), f"linear2dB(1e{k}) != {c['dB']}")
    o.check(relclose(cv.dBm2Linear(10.0 * k), lin(1, c["linOfdBm"])), f"dBm2Linear({10 * k}) != 1e{c['linOfdBm']}")
    o.check(close(cv.linear2dBm(lin(1, k)), c["dBm"]), f"linear2dBm(1e{k}) != {c['dBm']}")
    x = lin(m, k)
    o.check(relclose(cv.dB2Linear(cv.linear2dB(x)), x), f"dB2Linear(linear2dB({m}e{k})) != {m}e{k}")
    o.check(relclose(cv.dBm2Linear(cv.linear2dBm(x)), x), f"dBm2Linear(linear2dBm({m}e{k})) != {m}e{k}")
    o.check(close(cv.linear2dB(cv.dB2Linear(y)), y), f"linear2dB(dB2Linear({y})) != {y}")
    o.check(close(cv.linear2dBm(cv.dBm2Linear(y)), y), f"linear2dBm(dBm2Linear({y})) != {y}")
    o.check(close(cv.linear2dBm(x) - cv.linear2dB(x), c["dBm"] - c["dB"]), f"linear2dBm - linear2dB != 30 at {m}e{k}")
    o.check(relclose(cv.dB2Linear(y) / cv.dBm2Linear(y), lin(1, c["linOfdB"] - c["linOfdBm"])), f"dB2Linear / dBm2Linear != 1000 at {y}")
    # argument types: integer arrays, float32 arrays (single precision tolerance), numpy scalars
    ia = np.array([10 * k, int(y)], dtype=np.int64)
    o.check(relclose(cv.dB2Linear(ia)[0], lin(1, c["linOfdB"])) and relclose(cv.dBm2Linear(ia)[0], lin(1, c["linOfdBm"]))
            and close(cv.linear2dB(cv.dB2Linear(ia)), ia.astype(float)), "integer ARRAY arguments: dB2Linear / dBm2Linear / round trip")
    fa = np.array([10.0 * k, y], dtype=np.float32)
    o.check(relclose(float(cv.dB2Linear(fa)[0]), lin(1, c["linOfdB"]), 1e-4) and close(np.asarray(cv.linear2dB(cv.dB2Linear(fa)), dtype=float), fa.astype(float), 1e-4),
            "float32 ARRAY arguments: dB2Linear / round trip (tolerance 1e-4)")
    o.check(relclose(cv.dB2Linear(np.int64(10 * k)), lin(1, c["linOfdB"])) and close(cv.linear2dB(np.float64(lin(1, k))), c["dB"]), "numpy scalar arguments")
    # an integer-valued linear argument in the integer type the case names: same value as for the Python int
    ty = int if c["atype"] == "int" else getattr(np, c["atype"])
    fid = "ConvNarrowIntHalfPrecision" if c["atype"] in ("int16", "uint8", "int8", "uint16") else None
    ref = cv.linear2dB(float(m))
    o.check(close(float(cv.linear2dB(ty(m))), ref) and relclose(float(cv.dB2Linear(cv.linear2dB(ty(m)))), float(m))
            and close(float(cv.linear2dBm(ty(m))), ref + 30), f"linear2dB / linear2dBm({c['atype']}({m})) differ from the value for the same number as float", fid)
    if ty is not int:
        av = np.array([m, 1, 10], dtype=ty)
        o.check(close(np.asarray(cv.linear2dB(av), dtype=float), np.array([ref, 0.0, 10.0])),
                f"linear2dB({c['atype']} array [{m}, 1, 10]) differs from the double precision values", fid)
    for dtp in (np.float64, np.float32):
        lv = np.array([x, lin(1, k), 3.0], dtype=dtp)
        dv = np.array([y, 10.0 * k, -3.0], dtype=dtp)
        for name, f, a in (("linear2dB", cv.linear2dB, lv), ("linear2dBm", cv.linear2dBm, lv), ("dB2Linear", cv.dB2Linear, dv), ("dBm2Linear", cv.dBm2Linear, dv)):
            conv_frame(o, f"{name}[{np.dtype(dtp).name}]", f, a.copy())
    lv = np.array([x, lin(1, k)])
    keep = lv.copy()
    o.check(bool(np.all(np.abs(cv.dBm2Linear(cv.linear2dBm(lv)) - keep) <= 1e-9 * np.abs(keep))) and np.array_equal(lv, keep),
            "dBm2Linear(linear2dBm(p)) != p for a float array p (or p was changed)")
    # array arguments
    arr = np.array([10.0 * k, y])
    got = cv.dBm2Linear(arr)
    o.check(relclose(got[0], lin(1, c["linOfdBm"])) and close(cv.linear2dBm(got), arr), "array arguments: dBm2Linear / linear2dBm")


def conv_frame(o, name, f, arr, *rest):
    """frame laws of a conversion called with a float ARRAY (field `frame` of the case): the array is bit-identical
    afterwards, and a second call with the same array returns the same values"""
    keep = arr.copy()
    try:
        r1 = np.array(f(arr, *rest), dtype=float, copy=True)
        mid = arr.copy()
        r2 = np.array(f(arr, *rest), dtype=float, copy=True)
    except Exception as ex:  # noqa
        o.check(False, f"{name}(float array) raised {type(ex).__name__}: {ex}")
        return
    o.check(np.array_equal(keep, mid) and np.array_equal(keep, arr), f"{name} modified its float array argument (ArgumentsUnchanged)")
    o.check(r1.shape == r2.shape and np.array_equal(r1, r2), f"{name}: a second call with the same array returned other values (SecondCallSameResult)")
    o.check(not np.shares_memory(np.asarray(f(arr, *rest)), arr), f"{name}: the result shares memory with the argument")


def ev_ebn0(c, o):
    from pyphysim.util import conversion as cv
    k, b, y = c["k"], c["b"], float(c["y"])
    e0 = float(c["ebn0dB"])
    snr = cv.EbN0_dB_to_SNR_dB(e0, b)
    ty = int if c["atype"] == "int" else getattr(np, c["atype"])
    fid = "ConvNarrowIntHalfPrecision" if c["atype"] in ("int16", "uint8", "int8", "uint16") else None
    o.check(close(float(cv.EbN0_dB_to_SNR_dB(e0, ty(b))), snr) and close(float(cv.SNR_dB_to_EbN0_dB(snr, ty(b))), e0),
            f"bits_per_symb given as {c['atype']}({b}): result differs from the one for the Python int", fid)
    o.check(relclose(cv.dB2Linear(snr), lin(c["snrLin"]["m"], c["snrLin"]["e"])), f"SNR(linear) != {b} * Eb/N0(linear) at {e0} dB")
    o.check(close(cv.SNR_dB_to_EbN0_dB(snr, b), e0), f"SNR_dB_to_EbN0_dB(EbN0_dB_to_SNR_dB({e0}, {b})) != {e0}")
    o.check(close(cv.EbN0_dB_to_SNR_dB(cv.SNR_dB_to_EbN0_dB(y, b), b), y), f"EbN0_dB_to_SNR_dB(SNR_dB_to_EbN0_dB({y}, {b})) != {y}")
    o.check(close(cv.SNR_dB_to_EbN0_dB(cv.EbN0_dB_to_SNR_dB(y, b), b), y), f"SNR_dB_to_EbN0_dB(EbN0_dB_to_SNR_dB({y}, {b})) != {y}")
    if c["snrdB"]:
        o.check(close(snr, c["snrdB"][0]), f"EbN0_dB_to_SNR_dB({e0}, {b}) != {c['snrdB'][0]}")
        o.check(close(cv.SNR_dB_to_EbN0_dB(float(c["snrdB"][0]), b), e0), f"SNR_dB_to_EbN0_dB({c['snrdB'][0]}, {b}) != {e0}")
    arr = np.array([e0, y])
    o.check(close(cv.SNR_dB_to_EbN0_dB(cv.EbN0_dB_to_SNR_dB(arr, b), b), arr), "array arguments: Eb/N0 <-> SNR round trip")
    for dtp in (np.float64, np.float32):
        conv_frame(o, f"SNR_dB_to_EbN0_dB[{np.dtype(dtp).name}]", cv.SNR_dB_to_EbN0_dB, arr.astype(dtp), b)
        conv_frame(o, f"EbN0_dB_to_SNR_dB[{np.dtype(dtp).name}]", cv.EbN0_dB_to_SNR_dB, arr.astype(dtp), b)


def projector(V):
    """orthogonal projector onto the column space of V (first principles, not pyphysim)"""
    if V.shape[1] == 0:
        return np.zeros((V.shape[0], V.shape[0]), dtype=complex)
    return V @ np.linalg.solve(V.conj().T @ V, V.conj().T)


def ev_eig(c, o):
    from pyphysim.util.misc import peig, leig
    n, den = c["n"], c["den"]
    N = len(c["H"])
    k = scale_of(c)
    for dt, H in variants(c["H"], k):
        kh = 1.0 if dt == "int" else k
        for name, f, D_exp, lo, hi in (("peig", peig, c["peigD"], c["domLoNum"], c["domHiNum"]),
                                       ("leig", leig, c["leigD"], c["lstLoNum"], c["lstHiNum"])):
            t = f"[{dt}, k=1e{c['sc'] if dt != 'int' else 0}{', repeated eigenvalues' if c['ties'] else ''}] {name}(H, {n})"
            ok, r = _call(o, t, f, H, n)
            if not ok:
                continue
            V, D = r
            if not o.check(np.shape(V) == (N, n) and np.shape(D) == (n,), t + f": shapes {np.shape(V)}, {np.shape(D)}"):
                continue
            V = np.asarray(V, dtype=complex)
            o.check(close(np.asarray(D, dtype=complex) / kh, np.array(D_exp, dtype=complex)),
                    t + f": eigenvalues / k = {np.round(np.real(D) / kh, 6).tolist()} expected {D_exp} (order matters)")
            # lo <= span(V) <= hi (equal unless the cut falls inside a group of equal eigenvalues)
            Lo, Hi = mat(lo, den), mat(hi, den)
            o.check(close(Hi @ V, V, 1e-8), t + ": a returned column lies outside the eigenspaces it may come from")
            o.check(close(V @ (V.conj().T @ Lo), Lo, 1e-8), t + ": the returned columns miss an eigenvector they must contain")
            o.check(close(V.conj().T @ V, np.eye(n), 1e-8), t + ": the returned columns are not orthonormal")
            sc = float(np.max(np.abs(H)))
            o.check(bool(np.all(np.abs(H @ V - V * np.asarray(D)) <= 1e-8 * sc)), t + ": H V != V diag(D)")
        for name, f in (("peig", peig), ("leig", leig)):
            try:
                f(H, c["tooMany"])
                o.check(False, f"[{dt}] {name}(H, {c['tooMany']}) did not raise ValueError")
            except ValueError:
                o.check(True, "")
            except Exception as ex:  # noqa
                o.check(False, f"[{dt}] {name}(H, {c['tooMany']}) raised {type(ex).__name__} instead of ValueError")


def ev_svd(c, o):
    from pyphysim.util.misc import least_right_singular_vectors, get_principal_component_matrix
    n, k, den, nc = c["n"], c["k"], c["den"], c["cols"]
    ks = scale_of(c)
    if c["intdtype"]:
        dt, A, ks = "int", np.rint(mat(c["A"]).real).astype(np.int64), 1.0
    elif is_real(c["A"]):
        dt, A = "float", mat(c["A"]).real.copy() * ks
    else:
        dt, A = "complex", mat(c["A"]) * ks
    lo, hi = mat(c["loNum"], den), mat(c["hiNum"], den)
    tag = f"[{dt}, k=1e{c['sc'] if dt != 'int' else 0}{', repeated singular values' if c['ties'] else ''}]"
    t = f"{tag} least_right_singular_vectors(A {c['rows']}x{nc}, {n})"
    fid = "LrsvWideMatrixIndex" if c["lrsvRaisesAsWas"] else None
    ok, r = _call(o, t, least_right_singular_vectors, A, n, fid=fid, exc=(IndexError,))
    if ok:
        V0, V1, S = (np.asarray(x) for x in r)
        if o.check(V0.shape == (nc, n) and V1.shape == (nc, nc - n), t + f": shapes {V0.shape}, {V1.shape}"):
            W = np.hstack([V0, V1]).astype(complex)
            o.check(close(W.conj().T @ W, np.eye(nc), 1e-8), t + ": [V0 V1] is not unitary")
            P0 = V0 @ V0.conj().T
            o.check(close(hi @ V0, V0, 1e-8), t + ": V0 is not inside the span of the least singular vectors")
            o.check(close(P0 @ lo, lo, 1e-8), t + ": V0 misses a least singular vector it must contain")
            # S is aligned with the columns of V1 (docstring): ascending, one value per column
            exp = np.array(c["remS"], dtype=float)
            if o.check(S.shape == exp.shape, t + f": S has {S.shape} entries, V1 has {nc - n} columns", fid):
                sc = max(1.0, float(np.max(np.abs(exp))) if exp.size else 1.0)
                o.check(bool(np.all(np.abs(S / ks - exp) <= 1e-8 * sc)), t + f": S / k = {np.round(S / ks, 6).tolist()} expected {exp.tolist()}")
                o.check(bool(np.all(np.abs(np.linalg.norm(mat(c["A"]) @ V1, axis=0) - exp) <= 1e-8 * sc)),
                        t + ": |A v| of the columns of V1 are not the expected singular values")
    t = f"{tag} get_principal_component_matrix(A {c['rows']}x{nc}, {k})"
    fid = "PcmWideMatrixShape" if c["pcmRaisesAsWas"] else None
    ok, out = _call(o, t, get_principal_component_matrix, A, k, fid=fid, exc=(ValueError,))
    if ok:
        exp = mat(c["pcm"])
        sc = max(1.0, float(np.max(np.abs(mat(c["A"])))))
        good = np.shape(out) == exp.shape and bool(np.all(np.abs(np.asarray(out) / ks - exp) <= 1e-8 * sc))
        o.check(good, t + ": differs from the first k columns of the best rank-k approximation",
                "PcmIntDtypeTruncates" if dt == "int" else None)


def ev_gmd(c, o):
    from pyphysim.util.misc import gmd
    p = c["p"]
    k = scale_of(c)                  # gmd(k A): Q, P unchanged, R -> k R; the default tol = 0 must not cut anything
    for dt, A in variants(c["A"], k)[:2]:
        U, S, Vh = np.linalg.svd(A)
        U2, S2, Vh2 = U.copy(), S.copy(), Vh.copy()
        t = f"[{dt}, k=1e{c.get('sc', 0)}] gmd of {A.shape[0]}x{A.shape[1]}"
        ok, r = _call(o, t, gmd, U, S, Vh)
        if not ok:
            continue
        Q, R, P = r
        o.check(np.array_equal(U, U2) and np.array_equal(S, S2) and np.array_equal(Vh, Vh2), t + ": inputs modified (InputsUntouched)")
        A, S, R = A / k, S / k, np.asarray(R) / k        # back to magnitude 1 (the law: R is homogeneous of degree 1)
        sc = max(1.0, float(np.max(np.abs(A))))
        if not o.check(Q.shape == (A.shape[0],) * 2 and P.shape == (A.shape[1],) * 2 and R.shape == A.shape, t + ": shapes"):
            continue
        o.check(bool(np.all(np.abs(Q @ R @ P.conj().T - A) <= RTOL * sc)), t + ": Q R P^H != A (Reconstructs)")
        o.check(close(Q.conj().T @ Q, np.eye(Q.shape[0]), RTOL), t + ": Q not unitary (UnitaryQ)")
        o.check(close(P.conj().T @ P, np.eye(P.shape[0]), RTOL), t + ": P not unitary (UnitaryP)")
        o.check(bool(np.all(np.abs(np.tril(R, -1)) <= RTOL * sc)), t + ": R not upper triangular (UpperTriangularR)")
        gm = float(np.exp(np.mean(np.log(S[:p]))))
        d = np.diag(R)[:p]
        if c["sv"]:   # singular values known exactly (with repetitions)
            gx = float(np.exp(np.mean(np.log(np.array(c["sv"], dtype=float)))))
            o.check(bool(np.all(np.abs(d - gx) <= RTOL * max(1.0, gx))), t + f": diagonal of R != geometric mean {gx!r} of the exact singular values {c['sv']}")
        o.check(bool(np.all(np.abs(d - gm) <= RTOL * max(1.0, gm))), t + ": diagonal of R is not the geometric mean of the singular values")
        if c["gm2p"]:
            o.check(bool(np.all(np.abs(np.abs(d) ** (2 * p) - c["gm2p"][0]) <= 1e-7 * c["gm2p"][0])),
                    t + f": diag(R)^(2p) != det(A^H A) = {c['gm2p'][0]} (ConstantDiagonalGeoMean, exact)")


def ev_whiten(c, o):
    from pyphysim.util.misc import calc_whitening_matrix
    n = c["n"]
    fid = "WhitenEigNotOrthogonal" if c["degenerate"] else None
    k = scale_of(c)                  # W(k C) = W(C) / sqrt(k)
    for dt, C in variants(c["C"], k)[:2]:
        t = f"[{dt}, k=1e{c.get('sc', 0)}] calc_whitening_matrix (C = A^H A + I, A {c['rowsA']}x{n})"
        ok, W = _call(o, t, calc_whitening_matrix, C)
        if not ok:
            continue
        W, C = np.asarray(W) * np.sqrt(k), C / k
        o.check(np.shape(W) == (n, n) and close(W.conj().T @ C @ W, np.eye(n), RTOL), t + ": W^H C W != I", fid)
        if c["detC"] and np.shape(W) == (n, n):
            o.check(abs(abs(np.linalg.det(W)) ** 2 * c["detC"][0] - 1) <= 1e-7, t + ": |det W|^2 det C != 1", fid)


def ev_eigrel(c, o):
    from pyphysim.util.misc import peig, leig
    n, N = c["n"], len(c["H"])
    k = scale_of(c)
    for dt, H0 in variants(c["H"], k)[:2]:
        H = H0 / k
        ev = np.linalg.eigvalsh(H)  # ascending, first principles
        sc = max(1.0, float(np.max(np.abs(H))))
        for name, f, ref in (("peig", peig, ev[::-1]), ("leig", leig, ev)):
            for nn in sorted({n, N}):
                t = f"[{dt}, k=1e{c.get('sc', 0)}] {name}(H {N}x{N}, {nn})"
                ok, r = _call(o, t, f, H0, nn)
                if not ok:
                    continue
                V, D = r
                D = np.asarray(D) / k
                o.check(close(np.conj(np.asarray(V)).T @ V, np.eye(nn), RTOL), t + ": the returned columns are not orthonormal")
                if not o.check(np.shape(V) == (N, nn) and np.shape(D) == (nn,), t + ": shapes"):
                    continue
                o.check(bool(np.all(np.abs(H @ V - V * D) <= RTOL * sc)), t + ": H V != V diag(D) (EigenEquation)")
                o.check(bool(np.all(np.abs(D - ref[:nn]) <= RTOL * sc)), t + ": eigenvalues are not the extreme ones in order")
                o.check(close(np.linalg.norm(V, axis=0), np.ones(nn), RTOL), t + ": columns are not unit vectors (UnitColumns)")
                if nn == N:
                    o.check(abs(np.sum(D) - c["tr"]) <= RTOL * max(1.0, c["tr"]), t + f": sum of eigenvalues != tr(H) = {c['tr']} (exact)")


EVAL = {"proj": ev_proj, "projhist": ev_projhist, "chord": ev_chord, "chordx": ev_chordx, "smw": ev_smw, "conv": ev_conv, "ebn0": ev_ebn0, "eig": ev_eig, "svd": ev_svd,
        "gmd": ev_gmd, "whiten": ev_whiten, "eigrel": ev_eigrel}


def eval_case(c):
    """-> (comparisons made, [(what, finding-id|None)])"""
    o = Out()
    try:
        with np.errstate(all="ignore"):
            EVAL[c["kind"]](c, o)
    except Exception as ex:  # a harness problem must not look like a pass
        import traceback
        # comparisons are total: whatever the code under test returned made the comparison itself fail - a verdict
        o.bad.append((f"comparing the returned values raised {type(ex).__name__}: {ex} {traceback.format_exc()[-300:]}", None))
    return o.n, o.bad


def case_key(c):
    k = c["kind"]
    k = c.get("family", k)
    if c["kind"] == "smw":
        return (k, c["id"], c["k"], len(c["A"]))
    if c["kind"] == "projhist":
        return (k, c["id"], "/".join(c["hist"]))
    shape = ""
    for f in ("A", "H", "C"):
        if f in c:
            shape = f"{len(c[f])}x{len(c[f][0])}"
            break
    return (k, c["id"], shape)


def brief(c):
    """a case without the bulky derived fields (for evidence samples)"""
    keep = ("kind", "id", "A", "B", "H", "C", "n", "n1", "n2", "k", "m", "b", "den", "d2", "peigD", "remS", "dd", "diagk", "dB", "dBm", "gm2p", "detC")
    return {k: c[k] for k in keep if k in c}


# ------------------------------------------------------------------ the check
def threads():
    return max(1, min(8, int(os.environ.get("VERIF_PROCS", "0") or 0) or 8))


def model_devs(ctx):
    """each named deviation must be FOUND by TLC (non-vacuity of SelectorsTotal / Whitens)"""
    jobs = [("LrsvWideMatrixIndex", "svd", [[2, 4], [3, 3], [1, 3]], "SelectorsTotal"),
            ("PcmWideMatrixShape", "svd", [[3, 2], [2, 3]], "SelectorsTotal"),
            ("WhitenEigNotOrthogonal", "whiten", [[2, 2], [1, 3]], "Whitens"),
            ("SmwZeroSkipShiftsIndex", "smw", [[3, 3], [2, 2]], "SmwIsInverse"),
            ("ProjLazyOQFromCallerArray", "projhist", [[3, 1], [3, 2]], "ProjObjectCoherent"),
            ("ConvNarrowIntHalfPrecision", "ebn0", [[1, 1]], "ConvFullPrecision")]

    def one(j):
        dev, kind, shapes, inv = j
        cfg, defs = model(kind, shapes, 1, 0, 40, 0, dev=[dev], emit=False)
        return j, tlc.run(MODULE, cfg, defs=defs)
    with ThreadPoolExecutor(threads()) as ex:
        for (dev, kind, shapes, inv), r in ex.map(one, jobs):
            ctx.account(r, MODULE, f"as-was: {dev}", expect_violation=inv)
            ctx.notes.setdefault("deviations_refuted_by_model", {})[dev] = r.violated


def run(ctx):
    ctx.rule = ("TLC builds every case (exhaustive digit enumeration for projx, in-spec LCG otherwise), checks the laws of the "
                "property as invariants on it and emits it with exact expected observables; one evaluation = one comparison of a "
                "real pyphysim return value with an emitted value (or one (rel) relation); distinct = (family, case id, shape)")
    ctx.assumptions += ["floats compared with |x - x^| <= 1e-9 max(1,|x^|) (1e-8 relative for values through SVD/eig)",
                        "enumerated matrices are Gaussian-integer with entries bounded by Alpha, full column rank where the property needs it",
                        "eigen/singular selectors are judged on matrices with distinct (known) spectrum; ties are excluded by the specification",
                        "(rel) families: relation evaluated numerically by numpy from first principles"]
    pl = plan(ctx.tier)
    jobs = []
    for label, kind, shapes, alpha, nids, per in pl:
        for lo in range(0, nids, per):
            jobs.append((label, kind, shapes, alpha, lo, min(nids, lo + per) - 1))

    def one(j):
        label, kind, shapes, alpha, lo, hi = j
        cfg, defs = model(kind, shapes, alpha, lo, hi, ctx.seed)
        # no -coverage here: TLC's coverage report does not terminate in reasonable time on the recursive
        # operators of this module (measured: > 25 CPU-minutes after a 40 s run).  Which action fired is
        # known from the emission itself: every emitted case is one firing of the action named in ACTION_OF.
        return tlc.run(MODULE, cfg, defs=defs, timeout=1800)
    with ThreadPoolExecutor(threads()) as ex:
        devf = ex.submit(model_devs, ctx)
        runs = list(ex.map(one, jobs))
        devf.result()
    cases = []
    per_family = {}
    for j, r in zip(jobs, runs):
        ctx.account(r, MODULE, f"{j[0]} ids {j[4]}..{j[5]}")
        em = [dict(c, family=j[0]) for c in r.emitted if c.get("kind") not in (None, "none")]
        if not em:
            raise tlc.TlcError(f"family {j[0]} ids {j[4]}..{j[5]} emitted no case")
        per_family[j[0]] = per_family.get(j[0], 0) + len(em)
        for c in em:
            if c["kind"] == "smw":
                act = "SmwPick" if c["k"] == 0 else "SmwStep"
            elif c["kind"] == "projhist":
                act = "ProjHistStep" if c["hist"] else "ProjHistPick"
            else:
                act = ACTION_OF[j[1]]
            ctx.actions[act] = ctx.actions.get(act, 0) + 1
        # histories of the Projection object: every state carries its whole history, replay the maximal ones
        cases += [c for c in em if c["kind"] != "projhist" or len(c["hist"]) == HIST_MAX]
    ctx.require_actions(ACTIONS)
    res = pool_map(eval_case, cases, chunksize=max(1, len(cases) // 128))
    seen = set()
    for c, (n, bad) in zip(cases, res):
        if c["kind"] not in seen:
            seen.add(c["kind"])
            ctx.sample(brief(c), limit=len(EVAL))
        ctx.ok(case_key(c), n - len(bad))
        ctx.trace_done()
        for what, fid in bad[:3]:
            if fid == "__harness__":
                raise tlc.TlcError(what)
            case = {"kind": c["kind"], "case": c, "failing": what}
            if fid:
                ctx.finding(fid, f"{c['kind']} case {c['id']}: {what}", case)
            else:
                ctx.violation(f"{c['kind']} case {c['id']}: {what}", case)
    ctx.notes["cases_per_family"] = per_family
    from . import c20_trace
    c20_trace.run(ctx)
    ctx.exhaustive = False      # projx families are complete enumerations; the seeded families are samples


def replay(ctx, data):
    if data["case"].get("kind") == "trace":
        from . import c20_trace
        return c20_trace.replay(ctx, data["case"])
    c = data["case"]["case"]
    n, bad = eval_case(c)
    ctx.ok(case_key(c), n - len(bad))
    for what, fid in bad:
        case = {"kind": c["kind"], "case": c, "failing": what}
        if fid and fid != "__harness__":
            ctx.finding(fid, f"{c['kind']} case {c['id']}: {what}", case)
        else:
            ctx.violation(f"{c['kind']} case {c['id']}: {what}", case)
