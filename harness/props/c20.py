"""C20 - subspace and linear-algebra kernels satisfy their defining identities.

Stage M: TLC on spec/linalg/Subspace.tla.  Every family of cases (constant Kind) is explored with
all Dev flags FALSE and the laws of the property as invariants (a violation is a machinery
failure); for each named deviation TLC must FIND the violation with the flag TRUE.
Stage R: every case TLC emitted (inputs + exact expected observables computed in Gaussian-integer
/ rational arithmetic) is executed on the real pyphysim functions and compared; the "(rel)"
families (gmd, whiten, eigrel) are sequenced by TLC and their required relation is evaluated
numerically from first principles.
Python never computes an expected value: it converts emitted exact values to floats, calls
pyphysim and compares."""
import os
from concurrent.futures import ThreadPoolExecutor

import numpy as np

from .. import tlc
from ..core import pool_map

MODULE = "linalg/Subspace.tla"
DEVS = ["LrsvWideMatrixIndex", "PcmWideMatrixShape", "WhitenEigNotOrthogonal", "SmwZeroSkipShiftsIndex", "ProjLazyOQFromCallerArray"]
TOL = 1e-9
HIST_MAX = 3         # = HistMax of the specification
RTOL = 1e-8          # (rel) sub-claims through SVD / eig

INVS = {
    "proj": ["ProjHermitian", "ProjIdempotent", "ProjFixesA", "ProjComplementary", "ReflectTwice", "ProjRank", "ProjSplits"],
    "projhist": ["ProjObjectCoherent", "ProjHistInputs"],
    "chord": ["ChordFormsAgree", "ChordSymmetric", "ChordZeroOnEqual", "ChordBasisInvariant", "ChordUnitaryInvariant", "ChordHouseholderIsUnitary", "ChordAngles", "ChordRange"],
    "chordx": ["ChordXFormsAgree", "ChordXSymmetric", "ChordXBasisInvariant", "ChordXUnitaryInvariant", "ChordXRange"],
    "smw": ["SmwIsInverse"],
    "conv": ["ConvInverse", "ConvOffset"],
    "ebn0": ["EbLaw"],
    "eig": ["EigSpectrum", "EigSelectors", "EigProjectorIsProjection"],
    "svd": ["SvdSpectrum", "SvdSelectors", "SelectorsTotal"],
    "gmd": ["GmdFullRank"],
    "whiten": ["WhitenInputIsHPD", "Whitens"],
    "eigrel": ["EigRelInput"],
}
INVS["projx"] = INVS["proj"]
ACTION_OF = {"proj": "Proj", "projx": "Proj", "chord": "Chord", "chordx": "ChordX", "conv": "Conv", "ebn0": "Eb", "eig": "Eig", "svd": "Svd",
             "gmd": "Gmd", "whiten": "Whiten", "eigrel": "EigRel"}
ACTIONS = ["Proj", "ProjHistPick", "ProjHistStep", "Chord", "ChordX", "SmwPick", "SmwStep", "Conv", "Eb", "Eig", "Svd", "Gmd", "Whiten", "EigRel"]

SQ = lambda *ns: [[n, n] for n in ns]
# <<rows, n1, n2>> for the mixed-dimension chordal family; (dA dB)^2 (n1 + n2) stays below 2^31 for these
MIXED = [[2, 1, 2], [2, 2, 1], [3, 1, 2], [3, 2, 1], [3, 1, 3], [3, 3, 1], [3, 2, 3], [3, 3, 2], [4, 1, 2], [4, 2, 1],
         [4, 1, 3], [4, 3, 1], [5, 1, 2], [5, 2, 1], [5, 1, 3], [5, 3, 1], [4, 2, 2], [3, 1, 1]]
ALL_SHAPES_5 = [[r, c] for r in range(1, 6) for c in range(1, 6)]
ALL_SHAPES_8 = [[r, c] for r in range(1, 9) for c in range(1, 9)]


def plan(tier):
    """(label, kind, shapes, alpha, n_ids, ids_per_tlc_run).  Bounds on shapes/alphabets keep every
    intermediate of the exact arithmetic inside 32 bits (see notes/C20.md)."""
    if tier == "quick":
        return [
            ("projx 2x1 (all)", "projx", [[2, 1]], 1, 81, 81),
            ("projx 3x1 (all)", "projx", [[3, 1]], 1, 729, 729),
            ("projhist (object histories)", "projhist", [[2, 1], [3, 1], [3, 2], [4, 2]], 2, 12, 12),
            ("proj 3x2/4x2/2x2 a=2", "proj", [[3, 2], [4, 2], [2, 2], [4, 1]], 2, 320, 320),
            ("proj 4x3/5x2/3x3 a=1", "proj", [[4, 3], [5, 2], [3, 3], [5, 1]], 1, 200, 200),
            ("chord", "chord", [[2, 1], [3, 1], [3, 2], [4, 1], [4, 2]], 1, 400, 400),
            ("chordx (unequal dims)", "chordx", MIXED, 1, 360, 360),
            ("smw 2,3 a=2", "smw", SQ(2, 3), 2, 200, 200),
            ("smw 1,4 a=1", "smw", SQ(1, 4), 1, 60, 60),
            ("conv", "conv", [[1, 1]], 15, 279, 279),
            ("ebn0", "ebn0", [[1, 1]], 15, 310, 310),
            ("eig N<=4 a=2", "eig", SQ(2, 3, 4), 2, 240, 240),
            ("eig N<=8 a=1", "eig", SQ(3, 5, 6, 7, 8), 1, 200, 200),
            ("svd <=4 a=2", "svd", [[r, c] for r in range(1, 5) for c in range(1, 5)], 2, 400, 400),
            ("svd <=8 a=1", "svd", [[2, 5], [5, 2], [3, 6], [6, 3], [5, 5], [4, 7], [7, 4], [8, 6], [2, 8], [8, 8]], 1, 200, 200),
            ("gmd", "gmd", SQ(1, 2, 3, 4, 5, 6, 8) + [[4, 3], [3, 4], [6, 3], [2, 5], [8, 5], [5, 8]], 2, 260, 260),
            ("whiten", "whiten", SQ(1, 2, 3, 4, 6, 8) + [[5, 3], [1, 3], [2, 4], [2, 6], [3, 8], [1, 2]], 2, 240, 240),
            ("eigrel", "eigrel", SQ(2, 3, 4, 5, 6, 7, 8) + [[9, 6], [5, 3]], 2, 180, 180),
        ]
    return [
        ("projx 2x1 (all)", "projx", [[2, 1]], 1, 81, 81),
        ("projx 3x1 (all)", "projx", [[3, 1]], 1, 729, 729),
        ("projhist (object histories)", "projhist", [[2, 1], [3, 1], [3, 2], [4, 2], [4, 1], [2, 2]], 2, 120, 30),
        ("projx 2x2 (all)", "projx", [[2, 2]], 1, 6561, 1100),
        ("projx 4x1 (all)", "projx", [[4, 1]], 1, 6561, 1100),
        ("proj a=2", "proj", [[3, 2], [4, 2], [2, 2], [4, 1], [3, 1], [2, 1]], 2, 12000, 1000),
        ("proj a=1", "proj", [[4, 3], [5, 2], [3, 3], [5, 1], [6, 2], [6, 1], [4, 4]], 1, 7000, 1000),
        ("chord", "chord", [[2, 1], [3, 1], [3, 2], [4, 1], [4, 2], [2, 2]], 1, 15000, 1000),
        ("chordx (unequal dims)", "chordx", MIXED, 1, 9000, 1000),
        ("smw 2,3 a=2", "smw", SQ(2, 3), 2, 8000, 1000),
        ("smw 1,4 a=1", "smw", SQ(1, 4), 1, 2000, 500),
        ("conv", "conv", [[1, 1]], 30, 549, 549),
        ("ebn0", "ebn0", [[1, 1]], 30, 610, 610),
        ("eig N<=4 a=2", "eig", SQ(2, 3, 4), 2, 7500, 750),
        ("eig N<=8 a=1", "eig", SQ(2, 3, 4, 5, 6, 7, 8), 1, 7000, 700),
        ("svd <=4 a=2", "svd", [[r, c] for r in range(1, 5) for c in range(1, 5)], 2, 12000, 1000),
        ("svd <=8 a=1", "svd", ALL_SHAPES_8, 1, 9600, 640),
        ("gmd", "gmd", ALL_SHAPES_8, 2, 8000, 800),
        ("whiten", "whiten", ALL_SHAPES_8, 2, 8000, 800),
        ("eigrel", "eigrel", [[r, c] for r in range(1, 10) for c in range(1, 9) if r >= c], 2, 6000, 750),
    ]


def model(kind, shapes, alpha, lo, hi, seed, dev=(), emit=True):
    d = {k: (k in dev) for k in DEVS}
    defs = {"Shapes": tlc.tla(shapes), "Dev": tlc.tla(d)}
    cfg = tlc.cfg_text(constants={"Kind": tlc.tla(kind), "Seed": str(seed), "Lo": str(lo), "Hi": str(hi), "Alpha": str(alpha)},
                       defs=defs, invariants=INVS[kind], action_constraints=["Emit"] if emit else [])
    return cfg, defs


# ------------------------------------------------------------------ exact values -> floats
def g2c(x):
    return complex(x[0], x[1]) / x[2]


def mat(m, den=1):
    a = np.array([[g2c(x) for x in row] for row in m], dtype=complex)
    return a / den if den != 1 else a


def is_real(m):
    return all(x[1] == 0 for row in m for x in row)


def rat(q):
    return q[0] / q[1]


def close(a, b, tol=TOL):
    """|x - x^| <= tol * max(1, |x^|), element-wise; b is the expected value"""
    a = np.asarray(a)
    b = np.asarray(b)
    if a.shape != b.shape:
        return False
    if a.size == 0:
        return True
    return bool(np.all(np.abs(a - b) <= tol * np.maximum(1.0, np.abs(b))))


def relclose(a, b, tol=TOL):
    """|x - x^| <= tol |x^| (for linear-scale powers spanning many decades)"""
    return abs(a - b) <= tol * abs(b)


def variants(m):
    """the dtypes an input matrix is offered in: complex always; float and int when it is real"""
    a = mat(m)
    out = [("complex", a)]
    if is_real(m):
        out.append(("float", a.real.astype(float)))
        out.append(("int", np.rint(a.real).astype(np.int64)))
    return out


class Out:
    """collects the result of one case: number of comparisons, mismatches (what, finding-id|None)"""

    def __init__(self):
        self.n = 0
        self.bad = []

    def check(self, cond, what, fid=None):
        self.n += 1
        if not cond:
            self.bad.append((what, fid))
        return cond


def _call(o, what, f, *a, fid=None, exc=()):
    """call f; an exception is a mismatch (attributed to finding fid when its type is in exc)"""
    snap = [x.copy() if isinstance(x, np.ndarray) else None for x in a]
    try:
        r = f(*a)
    except Exception as ex:  # noqa
        o.check(False, f"{what} raised {type(ex).__name__}: {ex}", fid if isinstance(ex, exc) else None)
        return False, None
    # call discipline: ndarray arguments are inputs only (bit-identical after the call)
    for x, k in zip(a, snap):
        if k is not None and not (x.shape == k.shape and x.dtype == k.dtype and np.array_equal(x, k, equal_nan=True)):
            o.check(False, f"{what} modified one of its array arguments (ArgumentsUnchanged)")
    return True, r


# ------------------------------------------------------------------ the families
def ev_proj(c, o):
    from pyphysim.subspace.projections import Projection, calcProjectionMatrix, calcOrthogonalProjectionMatrix
    den = c["den"]
    P, oP = mat(c["num"], den), mat(c["onum"], den)
    PM, oPM, RM = mat(c["PM"], den), mat(c["oPM"], den), mat(c["RM"], den)
    M = mat(c["M"])
    for dt, A in variants(c["A"]):
        t = f"[{dt}] "
        ok, Q = _call(o, t + "calcProjectionMatrix", calcProjectionMatrix, A)
        if ok:
            o.check(close(Q, P), t + "calcProjectionMatrix(A) != A (A^H A)^-1 A^H")
        ok, Q = _call(o, t + "calcOrthogonalProjectionMatrix", calcOrthogonalProjectionMatrix, A)
        if ok:
            o.check(close(Q, oP), t + "calcOrthogonalProjectionMatrix(A) != I - P")
        ok, pr = _call(o, t + "Projection(A)", Projection, A)
        if not ok:
            continue
        o.check(close(pr.Q, P) and close(pr.oQ, oP), t + "Projection.Q / oQ differ from P / I - P")
        o.check(close(pr.project(M), PM), t + "project(M) != P M")
        o.check(close(pr.oProject(M), oPM), t + "oProject(M) != (I - P) M")
        o.check(close(pr.reflect(M), RM), t + "reflect(M) != (I - 2P) M")
        v = M[:, -1]
        o.check(close(pr.project(v), PM[:, -1]) and close(pr.oProject(v), oPM[:, -1]) and close(pr.reflect(v), RM[:, -1]),
                t + "project / oProject / reflect of a 1-D vector differ from the matrix column result")
        # the laws of the property evaluated on the real object (the expected values are the inputs)
        o.check(close(pr.reflect(pr.reflect(M)), M), t + "reflect(reflect(M)) != M")
        o.check(close(pr.project(A), mat(c["A"])), t + "project(A) != A")
        o.check(close(pr.oProject(A), np.zeros(A.shape)), t + "oProject(A) != 0")
        o.check(close(pr.project(pr.project(M)), PM), t + "project is not idempotent")
        o.check(close(pr.project(M) + pr.oProject(M), M), t + "project(M) + oProject(M) != M")
        o.check(close(pr.Q, pr.Q.conj().T), t + "projection matrix is not Hermitian")


def ev_projhist(c, o):
    """one history of calls on ONE Projection object; the caller may overwrite its array in place in between.
    Every returned value must be the one of the basis as it was at construction (emitted exactly by TLC)."""
    from pyphysim.subspace.projections import Projection
    den, m = c["den"], len(c["A1"])
    exp = {"project": mat(c["PM"], den), "oProject": mat(c["oPM"], den), "reflect": mat(c["RM"], den), "oQ": mat(c["onum"], den)}
    P1 = mat(c["num"], den)
    M = mat(c["M"])
    for dt, A1 in variants(c["A1"])[:2]:
        A = A1.copy()                                   # the caller's array
        A2 = mat(c["A2"]).real.copy() if dt == "float" else mat(c["A2"])
        current = A.copy()
        ok, pr = _call(o, f"[{dt}] Projection(A)", Projection, A)
        if not ok:
            continue
        hist = "construct"
        earlier = []                                    # (what, returned object, copy of it at return time)
        for op in c["hist"]:
            hist += " -> " + op
            if op == "mutate":
                A[...] = A2
                current = A.copy()
                continue
            try:
                got = pr.oQ if op == "oQ" else getattr(pr, op)(M)
            except Exception as ex:  # noqa
                o.check(False, f"[{dt}] {hist}: raised {type(ex).__name__}: {ex}")
                break
            o.check(close(got, exp[op]), f"[{dt}] {hist}: {op} does not return the value of the basis given at construction "
                                         "(the object depends on the caller's array after the constructor returned)")
            earlier.append((hist, got, np.array(got, copy=True)))
        o.check(close(pr.Q, P1) and close(np.asarray(pr.Q) + np.asarray(pr.oQ), np.eye(m)),
                f"[{dt}] {hist}: Q and oQ of the object are not complementary projectors of the constructed basis")
        o.check(np.array_equal(A, current), f"[{dt}] {hist}: the object wrote into the caller's array")
        for h, got, cp in earlier:                      # results stay results
            o.check(np.array_equal(np.asarray(got), cp), f"[{dt}] {h}: an earlier result was changed by a later call")


def ev_chord(c, o):
    from pyphysim.subspace import metrics as mt
    d2 = rat(c["d2"])
    fs = [("calc_chordal_distance", mt.calc_chordal_distance), ("calc_chordal_distance_2", mt.calc_chordal_distance_2),
          ("calc_chordal_distance_from_principal_angles",
           lambda X, Y: mt.calc_chordal_distance_from_principal_angles(mt.calc_principal_angles(X, Y)))]
    real = is_real(c["A"]) and is_real(c["B"]) and is_real(c["T"])
    A, B, AT, UA, UB, HA, HB = (mat(c[k]) for k in ("A", "B", "AT", "UA", "UB", "HA", "HB"))
    sets = [("complex", A, B, AT)]
    if real:
        sets.append(("float", A.real.copy(), B.real.copy(), AT.real.copy()))
    for name, f in fs:
        for dt, a, b, at in sets:
            for what, x, y, exp in (("d(A,B)", a, b, d2), ("d(B,A) (symmetry)", b, a, d2), ("d(A,AT) (equal subspaces)", a, at, 0.0),
                                    ("d(AT,B) (change of basis)", at, b, d2)):
                ok, d = _call(o, f"{name} {what}", f, x, y)
                if ok:
                    d = float(np.real(d))
                    o.check(d >= 0 and close(d * d, exp), f"[{dt}] {name}: {what}^2 = {d * d!r}, expected {exp!r}")
        for what, x, y in (("d(UA,UB) (common signed-permutation unitary)", UA, UB), ("d(HA,HB) (common Householder rotation)", HA, HB)):
            ok, d = _call(o, f"{name} {what}", f, x, y)
            if ok:
                d = float(np.real(d))
                o.check(d >= 0 and close(d * d, d2), f"{name}: {what}^2 = {d * d!r}, expected {d2!r}")
    # the principal angles themselves: n angles in [0, pi/2], ascending, with the exact sum and product of cos^2
    n = c["n"]
    for dt, a, b, at in sets:
        ok, ang = _call(o, "calc_principal_angles", mt.calc_principal_angles, a, b)
        if ok:
            ang = np.asarray(ang, dtype=float)
            good = ang.shape == (n,) and bool(np.all(ang >= 0)) and bool(np.all(ang <= np.pi / 2 + 1e-7)) and bool(np.all(np.diff(ang) >= -1e-7))
            if o.check(good, f"[{dt}] calc_principal_angles: not {n} ascending angles in [0, pi/2]: {ang.tolist()}"):
                c2 = np.cos(ang) ** 2
                o.check(close(float(np.sum(c2)), rat(c["cos2sum"])) and close(float(np.prod(c2)), rat(c["cos2prod"])),
                        f"[{dt}] calc_principal_angles: sum / product of cos^2 = {float(np.sum(c2))!r}, {float(np.prod(c2))!r}, "
                        f"expected {rat(c['cos2sum'])!r}, {rat(c['cos2prod'])!r}")


def ev_chordx(c, o):
    """subspaces of different dimension: the two projector-based routines are defined (the principal-angle routine
    yields min(n1, n2) angles whose cos^2 sum to tr(P_A P_B), but no distance)"""
    from pyphysim.subspace import metrics as mt
    d2 = rat(c["d2"])
    A, B, AT, BT, UA, UB, HA, HB = (mat(c[k]) for k in ("A", "B", "AT", "BT", "UA", "UB", "HA", "HB"))
    real = all(is_real(c[k]) for k in ("A", "B", "AT", "BT"))
    sets = [("complex", A, B, AT, BT)]
    if real:
        sets.append(("float", A.real.copy(), B.real.copy(), AT.real.copy(), BT.real.copy()))
    dims = f"{c['rows']}x{c['n1']} vs {c['rows']}x{c['n2']}"
    for name, f in (("calc_chordal_distance", mt.calc_chordal_distance), ("calc_chordal_distance_2", mt.calc_chordal_distance_2)):
        for dt, a, b, at, bt in sets:
            for what, x, y in (("d(A,B)", a, b), ("d(B,A) (symmetry)", b, a), ("d(AT,B) (change of basis)", at, b),
                               ("d(A,BT) (change of basis)", a, bt), ("d(BT,AT)", bt, at)):
                ok, d = _call(o, f"{name} {what} {dims}", f, x, y)
                if ok:
                    d = float(np.real(d))
                    o.check(d >= 0 and close(d * d, d2), f"[{dt}] {name} {dims}: {what}^2 = {d * d!r}, expected {d2!r}")
        for what, x, y in (("d(UA,UB) (common signed-permutation unitary)", UA, UB), ("d(HB,HA) (common Householder rotation)", HB, HA)):
            ok, d = _call(o, f"{name} {what} {dims}", f, x, y)
            if ok:
                d = float(np.real(d))
                o.check(d >= 0 and close(d * d, d2), f"{name} {dims}: {what}^2 = {d * d!r}, expected {d2!r}")
    k = min(c["n1"], c["n2"])
    for x, y in ((A, B), (B, A)):
        ok, ang = _call(o, f"calc_principal_angles {dims}", mt.calc_principal_angles, x, y)
        if ok:
            ang = np.asarray(ang, dtype=float)
            good = ang.shape == (k,) and bool(np.all(ang >= 0)) and bool(np.all(ang <= np.pi / 2 + 1e-7)) and bool(np.all(np.diff(ang) >= -1e-7))
            if o.check(good, f"calc_principal_angles {dims}: not {k} ascending angles in [0, pi/2]: {ang.tolist()}"):
                o.check(close(float(np.sum(np.cos(ang) ** 2)), rat(c["cos2sum"])),
                        f"calc_principal_angles {dims}: sum cos^2 = {float(np.sum(np.cos(ang) ** 2))!r}, expected tr(P_A P_B) = {rat(c['cos2sum'])!r}")


def ev_smw(c, o):
    from pyphysim.util.misc import update_inv_sum_diag
    exp = mat(c["expInv"])
    vs = [("complex", mat(c["inv0"])), ("complex/F-order", np.asfortranarray(mat(c["inv0"])))]
    if is_real(c["inv0"]):
        vs.append(("float", mat(c["inv0"]).real.copy()))
    # the diagonal (exact integers, zeros in any position) as float and as integer array
    for dd, diag in (("float", np.array(c["diagk"], dtype=float)), ("int", np.array(c["diagk"], dtype=np.int64))):
        for dt, inv0 in vs:
            keep = inv0.copy()
            ok, got = _call(o, "update_inv_sum_diag", update_inv_sum_diag, inv0, diag)
            if ok:
                o.check(close(got, exp), f"[{dt}, diagonal {dd}] update_inv_sum_diag(inv(A), {c['diagk']}) != inv(A + D)")
                o.check(np.array_equal(keep, inv0), f"[{dt}] update_inv_sum_diag modified its input")


def lin(m, e):
    return float(m) * 10.0 ** e


def ev_conv(c, o):
    from pyphysim.util import conversion as cv
    k, m, y = c["k"], c["m"], float(c["y"])
    o.check(relclose(cv.dB2Linear(10.0 * k), lin(1, c["linOfdB"])), f"dB2Linear({10 * k}) != 1e{c['linOfdB']}")
    o.check(relclose(cv.dB2Linear(10 * k), lin(1, c["linOfdB"])), f"dB2Linear(int {10 * k}) != 1e{c['linOfdB']}")
    o.check(close(cv.linear2dB(lin(1, k)), c["dB"]), f"linear2dB(1e{k}) != {c['dB']}")
    o.check(relclose(cv.dBm2Linear(10.0 * k), lin(1, c["linOfdBm"])), f"dBm2Linear({10 * k}) != 1e{c['linOfdBm']}")
    o.check(close(cv.linear2dBm(lin(1, k)), c["dBm"]), f"linear2dBm(1e{k}) != {c['dBm']}")
    x = lin(m, k)
    o.check(relclose(cv.dB2Linear(cv.linear2dB(x)), x), f"dB2Linear(linear2dB({m}e{k})) != {m}e{k}")
    o.check(relclose(cv.dBm2Linear(cv.linear2dBm(x)), x), f"dBm2Linear(linear2dBm({m}e{k})) != {m}e{k}")
    o.check(close(cv.linear2dB(cv.dB2Linear(y)), y), f"linear2dB(dB2Linear({y})) != {y}")
    o.check(close(cv.linear2dBm(cv.dBm2Linear(y)), y), f"linear2dBm(dBm2Linear({y})) != {y}")
    o.check(close(cv.linear2dBm(x) - cv.linear2dB(x), c["dBm"] - c["dB"]), f"linear2dBm - linear2dB != 30 at {m}e{k}")
    o.check(relclose(cv.dB2Linear(y) / cv.dBm2Linear(y), lin(1, c["linOfdB"] - c["linOfdBm"])), f"dB2Linear / dBm2Linear != 1000 at {y}")
    # array arguments
    arr = np.array([10.0 * k, y])
    got = cv.dBm2Linear(arr)
    o.check(relclose(got[0], lin(1, c["linOfdBm"])) and close(cv.linear2dBm(got), arr), "array arguments: dBm2Linear / linear2dBm")


def ev_ebn0(c, o):
    from pyphysim.util import conversion as cv
    k, b, y = c["k"], c["b"], float(c["y"])
    e0 = float(c["ebn0dB"])
    snr = cv.EbN0_dB_to_SNR_dB(e0, b)
    o.check(relclose(cv.dB2Linear(snr), lin(c["snrLin"]["m"], c["snrLin"]["e"])), f"SNR(linear) != {b} * Eb/N0(linear) at {e0} dB")
    o.check(close(cv.SNR_dB_to_EbN0_dB(snr, b), e0), f"SNR_dB_to_EbN0_dB(EbN0_dB_to_SNR_dB({e0}, {b})) != {e0}")
    o.check(close(cv.EbN0_dB_to_SNR_dB(cv.SNR_dB_to_EbN0_dB(y, b), b), y), f"EbN0_dB_to_SNR_dB(SNR_dB_to_EbN0_dB({y}, {b})) != {y}")
    o.check(close(cv.SNR_dB_to_EbN0_dB(cv.EbN0_dB_to_SNR_dB(y, b), b), y), f"SNR_dB_to_EbN0_dB(EbN0_dB_to_SNR_dB({y}, {b})) != {y}")
    if c["snrdB"]:
        o.check(close(snr, c["snrdB"][0]), f"EbN0_dB_to_SNR_dB({e0}, {b}) != {c['snrdB'][0]}")
        o.check(close(cv.SNR_dB_to_EbN0_dB(float(c["snrdB"][0]), b), e0), f"SNR_dB_to_EbN0_dB({c['snrdB'][0]}, {b}) != {e0}")
    arr = np.array([e0, y])
    o.check(close(cv.SNR_dB_to_EbN0_dB(cv.EbN0_dB_to_SNR_dB(arr, b), b), arr), "array arguments: Eb/N0 <-> SNR round trip")


def projector(V):
    """orthogonal projector onto the column space of V (first principles, not pyphysim)"""
    if V.shape[1] == 0:
        return np.zeros((V.shape[0], V.shape[0]), dtype=complex)
    return V @ np.linalg.solve(V.conj().T @ V, V.conj().T)


def ev_eig(c, o):
    from pyphysim.util.misc import peig, leig
    n, den = c["n"], c["den"]
    N = len(c["H"])
    for dt, H in variants(c["H"]):
        for name, f, D_exp, num in (("peig", peig, c["peigD"], c["domNum"]), ("leig", leig, c["leigD"], c["leastNum"])):
            t = f"[{dt}] {name}(H, {n})"
            ok, r = _call(o, t, f, H, n)
            if not ok:
                continue
            V, D = r
            if not o.check(np.shape(V) == (N, n) and np.shape(D) == (n,), t + f": shapes {np.shape(V)}, {np.shape(D)}"):
                continue
            o.check(close(np.asarray(D, dtype=complex), np.array(D_exp, dtype=complex)),
                    t + f": eigenvalues {np.round(np.real(D), 6).tolist()} expected {D_exp} (order matters)")
            o.check(np.linalg.matrix_rank(V) == n and close(projector(np.asarray(V, dtype=complex)), mat(num, den), 1e-8),
                    t + ": the returned columns do not span the expected eigen-subspace")
            o.check(close(np.linalg.norm(V, axis=0), np.ones(n), 1e-8), t + ": columns are not unit vectors")
        for name, f in (("peig", peig), ("leig", leig)):
            try:
                f(H, c["tooMany"])
                o.check(False, f"[{dt}] {name}(H, {c['tooMany']}) did not raise ValueError")
            except ValueError:
                o.check(True, "")
            except Exception as ex:  # noqa
                o.check(False, f"[{dt}] {name}(H, {c['tooMany']}) raised {type(ex).__name__} instead of ValueError")


def ev_svd(c, o):
    from pyphysim.util.misc import least_right_singular_vectors, get_principal_component_matrix
    n, k, den, nc = c["n"], c["k"], c["den"], c["cols"]
    if c["intdtype"]:
        dt, A = "int", np.rint(mat(c["A"]).real).astype(np.int64)
    elif is_real(c["A"]):
        dt, A = "float", mat(c["A"]).real.copy()
    else:
        dt, A = "complex", mat(c["A"])
    lo, hi = mat(c["loNum"], den), mat(c["hiNum"], den)
    t = f"[{dt}] least_right_singular_vectors(A {c['rows']}x{nc}, {n})"
    fid = "LrsvWideMatrixIndex" if c["lrsvRaisesAsWas"] else None
    ok, r = _call(o, t, least_right_singular_vectors, A, n, fid=fid, exc=(IndexError,))
    if ok:
        V0, V1, S = (np.asarray(x) for x in r)
        if o.check(V0.shape == (nc, n) and V1.shape == (nc, nc - n), t + f": shapes {V0.shape}, {V1.shape}"):
            W = np.hstack([V0, V1]).astype(complex)
            o.check(close(W.conj().T @ W, np.eye(nc), 1e-8), t + ": [V0 V1] is not unitary")
            P0 = V0 @ V0.conj().T
            o.check(close(hi @ V0, V0, 1e-8), t + ": V0 is not inside the span of the least singular vectors")
            o.check(close(P0 @ lo, lo, 1e-8), t + ": V0 misses a least singular vector it must contain")
            # S is aligned with the columns of V1 (docstring): ascending, one value per column
            exp = np.array(c["remS"], dtype=float)
            if o.check(S.shape == exp.shape, t + f": S has {S.shape} entries, V1 has {nc - n} columns", fid):
                sc = max(1.0, float(np.max(np.abs(exp))) if exp.size else 1.0)
                o.check(bool(np.all(np.abs(S - exp) <= 1e-8 * sc)), t + f": S = {np.round(S, 6).tolist()} expected {exp.tolist()}")
                o.check(bool(np.all(np.abs(np.linalg.norm(mat(c["A"]) @ V1, axis=0) - exp) <= 1e-8 * sc)),
                        t + ": |A v| of the columns of V1 are not the expected singular values")
    t = f"[{dt}] get_principal_component_matrix(A {c['rows']}x{nc}, {k})"
    fid = "PcmWideMatrixShape" if c["pcmRaisesAsWas"] else None
    ok, out = _call(o, t, get_principal_component_matrix, A, k, fid=fid, exc=(ValueError,))
    if ok:
        exp = mat(c["pcm"])
        sc = max(1.0, float(np.max(np.abs(mat(c["A"])))))
        good = np.shape(out) == exp.shape and bool(np.all(np.abs(out - exp) <= 1e-8 * sc))
        o.check(good, t + ": differs from the first k columns of the best rank-k approximation",
                "PcmIntDtypeTruncates" if dt == "int" else None)


def ev_gmd(c, o):
    from pyphysim.util.misc import gmd
    p = c["p"]
    for dt, A in variants(c["A"])[:2]:
        U, S, Vh = np.linalg.svd(A)
        U2, S2, Vh2 = U.copy(), S.copy(), Vh.copy()
        t = f"[{dt}] gmd of {A.shape[0]}x{A.shape[1]}"
        ok, r = _call(o, t, gmd, U, S, Vh)
        if not ok:
            continue
        Q, R, P = r
        sc = max(1.0, float(np.max(np.abs(A))))
        o.check(np.array_equal(U, U2) and np.array_equal(S, S2) and np.array_equal(Vh, Vh2), t + ": inputs modified (InputsUntouched)")
        if not o.check(Q.shape == (A.shape[0],) * 2 and P.shape == (A.shape[1],) * 2 and R.shape == A.shape, t + ": shapes"):
            continue
        o.check(bool(np.all(np.abs(Q @ R @ P.conj().T - A) <= RTOL * sc)), t + ": Q R P^H != A (Reconstructs)")
        o.check(close(Q.conj().T @ Q, np.eye(Q.shape[0]), RTOL), t + ": Q not unitary (UnitaryQ)")
        o.check(close(P.conj().T @ P, np.eye(P.shape[0]), RTOL), t + ": P not unitary (UnitaryP)")
        o.check(bool(np.all(np.abs(np.tril(R, -1)) <= RTOL * sc)), t + ": R not upper triangular (UpperTriangularR)")
        gm = float(np.exp(np.mean(np.log(S[:p]))))
        d = np.diag(R)[:p]
        if c["sv"]:   # singular values known exactly (with repetitions)
            gx = float(np.exp(np.mean(np.log(np.array(c["sv"], dtype=float)))))
            o.check(bool(np.all(np.abs(d - gx) <= RTOL * max(1.0, gx))), t + f": diagonal of R != geometric mean {gx!r} of the exact singular values {c['sv']}")
        o.check(bool(np.all(np.abs(d - gm) <= RTOL * max(1.0, gm))), t + ": diagonal of R is not the geometric mean of the singular values")
        if c["gm2p"]:
            o.check(bool(np.all(np.abs(np.abs(d) ** (2 * p) - c["gm2p"][0]) <= 1e-7 * c["gm2p"][0])),
                    t + f": diag(R)^(2p) != det(A^H A) = {c['gm2p'][0]} (ConstantDiagonalGeoMean, exact)")


def ev_whiten(c, o):
    from pyphysim.util.misc import calc_whitening_matrix
    n = c["n"]
    fid = "WhitenEigNotOrthogonal" if c["degenerate"] else None
    for dt, C in variants(c["C"])[:2]:
        t = f"[{dt}] calc_whitening_matrix (C = A^H A + I, A {c['rowsA']}x{n})"
        ok, W = _call(o, t, calc_whitening_matrix, C)
        if not ok:
            continue
        o.check(np.shape(W) == (n, n) and close(W.conj().T @ C @ W, np.eye(n), RTOL), t + ": W^H C W != I", fid)
        if c["detC"] and np.shape(W) == (n, n):
            o.check(abs(abs(np.linalg.det(W)) ** 2 * c["detC"][0] - 1) <= 1e-7, t + ": |det W|^2 det C != 1", fid)


def ev_eigrel(c, o):
    from pyphysim.util.misc import peig, leig
    n, N = c["n"], len(c["H"])
    for dt, H in variants(c["H"])[:2]:
        ev = np.linalg.eigvalsh(H)  # ascending, first principles
        sc = max(1.0, float(np.max(np.abs(H))))
        for name, f, ref in (("peig", peig, ev[::-1]), ("leig", leig, ev)):
            for nn in sorted({n, N}):
                t = f"[{dt}] {name}(H {N}x{N}, {nn})"
                ok, r = _call(o, t, f, H, nn)
                if not ok:
                    continue
                V, D = r
                if not o.check(np.shape(V) == (N, nn) and np.shape(D) == (nn,), t + ": shapes"):
                    continue
                o.check(bool(np.all(np.abs(H @ V - V * D) <= RTOL * sc)), t + ": H V != V diag(D) (EigenEquation)")
                o.check(bool(np.all(np.abs(D - ref[:nn]) <= RTOL * sc)), t + ": eigenvalues are not the extreme ones in order")
                o.check(close(np.linalg.norm(V, axis=0), np.ones(nn), RTOL), t + ": columns are not unit vectors (UnitColumns)")
                if nn == N:
                    o.check(abs(np.sum(D) - c["tr"]) <= RTOL * max(1.0, c["tr"]), t + f": sum of eigenvalues != tr(H) = {c['tr']} (exact)")


EVAL = {"proj": ev_proj, "projhist": ev_projhist, "chord": ev_chord, "chordx": ev_chordx, "smw": ev_smw, "conv": ev_conv, "ebn0": ev_ebn0, "eig": ev_eig, "svd": ev_svd,
        "gmd": ev_gmd, "whiten": ev_whiten, "eigrel": ev_eigrel}


def eval_case(c):
    """-> (comparisons made, [(what, finding-id|None)])"""
    o = Out()
    try:
        with np.errstate(all="ignore"):
            EVAL[c["kind"]](c, o)
    except Exception as ex:  # a harness problem must not look like a pass
        import traceback
        o.bad.append((f"harness exception {type(ex).__name__}: {ex} {traceback.format_exc()[-400:]}", "__harness__"))
    return o.n, o.bad


def case_key(c):
    k = c["kind"]
    k = c.get("family", k)
    if c["kind"] == "smw":
        return (k, c["id"], c["k"], len(c["A"]))
    if c["kind"] == "projhist":
        return (k, c["id"], "/".join(c["hist"]))
    shape = ""
    for f in ("A", "H", "C"):
        if f in c:
            shape = f"{len(c[f])}x{len(c[f][0])}"
            break
    return (k, c["id"], shape)


def brief(c):
    """a case without the bulky derived fields (for evidence samples)"""
    keep = ("kind", "id", "A", "B", "H", "C", "n", "n1", "n2", "k", "m", "b", "den", "d2", "peigD", "remS", "dd", "diagk", "dB", "dBm", "gm2p", "detC")
    return {k: c[k] for k in keep if k in c}


# ------------------------------------------------------------------ the check
def threads():
    return max(1, min(8, int(os.environ.get("VERIF_PROCS", "0") or 0) or 8))


def model_devs(ctx):
    """each named deviation must be FOUND by TLC (non-vacuity of SelectorsTotal / Whitens)"""
    jobs = [("LrsvWideMatrixIndex", "svd", [[2, 4], [3, 3], [1, 3]], "SelectorsTotal"),
            ("PcmWideMatrixShape", "svd", [[3, 2], [2, 3]], "SelectorsTotal"),
            ("WhitenEigNotOrthogonal", "whiten", [[2, 2], [1, 3]], "Whitens"),
            ("SmwZeroSkipShiftsIndex", "smw", [[3, 3], [2, 2]], "SmwIsInverse"),
            ("ProjLazyOQFromCallerArray", "projhist", [[3, 1], [3, 2]], "ProjObjectCoherent")]

    def one(j):
        dev, kind, shapes, inv = j
        cfg, defs = model(kind, shapes, 1, 0, 40, 0, dev=[dev], emit=False)
        return j, tlc.run(MODULE, cfg, defs=defs)
    with ThreadPoolExecutor(threads()) as ex:
        for (dev, kind, shapes, inv), r in ex.map(one, jobs):
            ctx.account(r, MODULE, f"as-was: {dev}", expect_violation=inv)
            ctx.notes.setdefault("deviations_refuted_by_model", {})[dev] = r.violated


def run(ctx):
    ctx.rule = ("TLC builds every case (exhaustive digit enumeration for projx, in-spec LCG otherwise), checks the laws of the "
                "property as invariants on it and emits it with exact expected observables; one evaluation = one comparison of a "
                "real pyphysim return value with an emitted value (or one (rel) relation); distinct = (family, case id, shape)")
    ctx.assumptions += ["floats compared with |x - x^| <= 1e-9 max(1,|x^|) (1e-8 relative for values through SVD/eig)",
                        "enumerated matrices are Gaussian-integer with entries bounded by Alpha, full column rank where the property needs it",
                        "eigen/singular selectors are judged on matrices with distinct (known) spectrum; ties are excluded by the specification",
                        "(rel) families: relation evaluated numerically by numpy from first principles"]
    pl = plan(ctx.tier)
    jobs = []
    for label, kind, shapes, alpha, nids, per in pl:
        for lo in range(0, nids, per):
            jobs.append((label, kind, shapes, alpha, lo, min(nids, lo + per) - 1))

    def one(j):
        label, kind, shapes, alpha, lo, hi = j
        cfg, defs = model(kind, shapes, alpha, lo, hi, ctx.seed)
        # no -coverage here: TLC's coverage report does not terminate in reasonable time on the recursive
        # operators of this module (measured: > 25 CPU-minutes after a 40 s run).  Which action fired is
        # known from the emission itself: every emitted case is one firing of the action named in ACTION_OF.
        return tlc.run(MODULE, cfg, defs=defs, timeout=1800)
    with ThreadPoolExecutor(threads()) as ex:
        devf = ex.submit(model_devs, ctx)
        runs = list(ex.map(one, jobs))
        devf.result()
    cases = []
    per_family = {}
    for j, r in zip(jobs, runs):
        ctx.account(r, MODULE, f"{j[0]} ids {j[4]}..{j[5]}")
        em = [dict(c, family=j[0]) for c in r.emitted if c.get("kind") not in (None, "none")]
        if not em:
            raise tlc.TlcError(f"family {j[0]} ids {j[4]}..{j[5]} emitted no case")
        per_family[j[0]] = per_family.get(j[0], 0) + len(em)
        for c in em:
            if c["kind"] == "smw":
                act = "SmwPick" if c["k"] == 0 else "SmwStep"
            elif c["kind"] == "projhist":
                act = "ProjHistStep" if c["hist"] else "ProjHistPick"
            else:
                act = ACTION_OF[j[1]]
            ctx.actions[act] = ctx.actions.get(act, 0) + 1
        # histories of the Projection object: every state carries its whole history, replay the maximal ones
        cases += [c for c in em if c["kind"] != "projhist" or len(c["hist"]) == HIST_MAX]
    ctx.require_actions(ACTIONS)
    res = pool_map(eval_case, cases, chunksize=max(1, len(cases) // 128))
    seen = set()
    for c, (n, bad) in zip(cases, res):
        if c["kind"] not in seen:
            seen.add(c["kind"])
            ctx.sample(brief(c), limit=len(EVAL))
        ctx.ok(case_key(c), n - len(bad))
        ctx.trace_done()
        for what, fid in bad[:3]:
            if fid == "__harness__":
                raise tlc.TlcError(what)
            case = {"kind": c["kind"], "case": c, "failing": what}
            if fid:
                ctx.finding(fid, f"{c['kind']} case {c['id']}: {what}", case)
            else:
                ctx.violation(f"{c['kind']} case {c['id']}: {what}", case)
    ctx.notes["cases_per_family"] = per_family
    from . import c20_trace
    c20_trace.run(ctx)
    ctx.exhaustive = False      # projx families are complete enumerations; the seeded families are samples


def replay(ctx, data):
    if data["case"].get("kind") == "trace":
        from . import c20_trace
        return c20_trace.replay(ctx, data["case"])
    c = data["case"]["case"]
    n, bad = eval_case(c)
    ctx.ok(case_key(c), n - len(bad))
    for what, fid in bad:
        case = {"kind": c["kind"], "case": c, "failing": what}
        if fid and fid != "__harness__":
            ctx.finding(fid, f"{c['kind']} case {c['id']}: {what}", case)
        else:
            ctx.violation(f"{c['kind']} case {c['id']}: {what}", case)
