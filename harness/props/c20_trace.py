"""C20, stage T: calls recorded on the real kernels with random FLOAT matrices (complex and real,
every shape 1..8 x 1..8, condition number <= 1e3 - inputs beyond the Gaussian-integer alphabet of
Subspace.tla) are validated by TLC against the call contract of the specification
(spec/linalg/Trace_Subspace.tla): outcome of the call, shapes of everything returned, and the laws
of the property, which the recorder evaluates numerically from first principles (rel) and logs as
booleans.  All traces of a run go through ONE TLC invocation."""
import json
import os
import re
import uuid

import numpy as np

from .. import tlc

TRACE_MODULE = "linalg/Trace_Subspace.tla"
TOL = 1e-8
OPS = ["project", "chord", "chordx", "lrsv", "pcm", "peig", "leig", "smw", "gmd", "whiten", "conv"]


def rnd(rs, r, c, real):
    """random matrix with bounded condition number (re-drawn otherwise)"""
    while True:
        a = rs.randn(r, c) if real else rs.randn(r, c) + 1j * rs.randn(r, c)
        if np.linalg.cond(a) <= 1e3:
            return a


def unitary(rs, n, real):
    return np.linalg.qr(rnd(rs, n, n, real))[0]


def near(a, b, sc=None):
    a, b = np.asarray(a), np.asarray(b)
    if a.shape != b.shape:
        return False
    if a.size == 0:
        return True
    sc = max(1.0, float(np.max(np.abs(b)))) if sc is None else sc
    return bool(np.all(np.abs(a - b) <= TOL * sc))


def projector(V):
    if V.shape[1] == 0:
        return np.zeros((V.shape[0],) * 2)
    return V @ np.linalg.solve(V.conj().T @ V, V.conj().T)


def forms_of(rs, A):
    """other bases of span(A): columns rescaled individually, unit-norm (non-orthogonal) columns, orthonormal"""
    d = rs.uniform(0.3, 3.0, A.shape[1]) * rs.choice([-1.0, 1.0], A.shape[1])
    return [A * d, A / np.linalg.norm(A, axis=0), np.linalg.qr(A)[0]]


def outcome(f, *a):
    try:
        return "ok", f(*a)
    except Exception as ex:  # noqa
        return f"raise:{type(ex).__name__}", None


def sh(x):
    return [int(v) for v in np.shape(x)]


def record_event(rs, op):
    from pyphysim.subspace.projections import Projection
    from pyphysim.subspace import metrics as mt
    from pyphysim.util import misc, conversion as cv
    real = bool(rs.randint(3) == 0)
    r, c = int(rs.randint(1, 9)), int(rs.randint(1, 9))
    d = {"rows": r, "cols": c, "n": 0, "k": 0, "mc": 0}
    ev = {"op": op, "d": d, "out": "ok", "shape": {"none": [0]}, "preds": {}, "real": real}
    I = np.eye
    if op == "project":
        c = d["cols"] = int(rs.randint(1, r + 1))
        d["mc"] = mc = int(rs.randint(1, r + 3))        # narrower, equal and WIDER than the basis / the space
        A, M = rnd(rs, r, c, real), rnd(rs, r, mc, real)
        ev["out"], P = outcome(Projection, A)
        if P is not None:
            pm, v = P.project(M), P.project(M[:, 0])
            ev["shape"] = {"q": sh(P.Q), "oq": sh(P.oQ), "pm": sh(pm), "pv": sh(v)}
            ev["preds"] = {"Hermitian": near(P.Q, P.Q.conj().T), "Idempotent": near(P.Q @ P.Q, P.Q) and near(P.project(pm), pm),
                           "SubspaceOnly": all(near(Projection(F).Q, P.Q) for F in forms_of(rs, A)),
                           "FixesA": near(P.project(A), A), "Complementary": near(P.Q + P.oQ, I(r)) and near(P.oProject(A), 0 * A, 1.0)
                           and near(P.project(M) + P.oProject(M), M), "ReflectTwice": near(P.reflect(P.reflect(M)), M)}
    elif op == "chord":
        r = d["rows"] = int(rs.randint(2, 9))
        c = d["cols"] = int(rs.randint(1, r))
        A, B, T, U = rnd(rs, r, c, real), rnd(rs, r, c, real), rnd(rs, c, c, real), unitary(rs, r, real)
        f1, f2 = mt.calc_chordal_distance, mt.calc_chordal_distance_2
        f3 = lambda X, Y: mt.calc_chordal_distance_from_principal_angles(mt.calc_principal_angles(X, Y))  # noqa
        ev["out"], ang = outcome(mt.calc_principal_angles, A, B)
        if ang is not None:
            ds = [float(f(A, B)) for f in (f1, f2, f3)]
            sq = lambda x: x * x  # noqa
            ev["shape"] = {"angles": sh(ang)}
            ev["preds"] = {"ThreeRoutinesAgree": all(abs(sq(x) - sq(ds[0])) <= TOL for x in ds),
                           "Symmetric": all(abs(sq(float(f(B, A))) - sq(ds[0])) <= TOL for f in (f1, f2, f3)),
                           "ZeroOnEqualSubspaces": all(sq(float(f(A, A @ T))) <= TOL for f in (f1, f2, f3)),
                           "BasisInvariant": all(abs(sq(float(f(A @ T, B))) - sq(ds[0])) <= TOL for f in (f1, f2, f3)),
                           "UnitaryInvariant": all(abs(sq(float(f(U @ A, U @ B))) - sq(ds[0])) <= TOL for f in (f1, f2, f3)),
                           "SubspaceOnly": all(abs(sq(float(f(Fa, Fb))) - sq(ds[0])) <= TOL and sq(float(f(Fa, A))) <= TOL
                                               for f in (f1, f2, f3) for Fa in forms_of(rs, A) for Fb in [B] + forms_of(rs, B)),
                           "AnglesGiveDistance": abs(float(np.sum(np.sin(ang) ** 2)) - sq(ds[0])) <= TOL}
    elif op == "chordx":
        # subspaces of DIFFERENT dimension: d["cols"] = n1, d["n"] = n2; the projector-based routines are defined
        r = d["rows"] = int(rs.randint(2, 9))
        c = d["cols"] = int(rs.randint(1, r + 1))
        n2 = d["n"] = int(rs.choice([x for x in range(1, r + 1) if x != c]))
        A, B, U = rnd(rs, r, c, real), rnd(rs, r, n2, real), unitary(rs, r, real)
        T1, T2 = rnd(rs, c, c, real), rnd(rs, n2, n2, real)
        f1, f2 = mt.calc_chordal_distance, mt.calc_chordal_distance_2
        ev["out"], ang = outcome(mt.calc_principal_angles, A, B)
        if ang is not None:
            sq = lambda x: float(x) ** 2  # noqa
            ref = sq(f2(A, B))
            PA, PB = projector(A), projector(B)
            big, small = (A, B) if c > n2 else (B, A)
            inside = big[:, :small.shape[1]] @ rnd(rs, small.shape[1], small.shape[1], real)
            ev["shape"] = {"angles": sh(ang)}
            ev["preds"] = {"TwoRoutinesAgree": abs(sq(f1(A, B)) - ref) <= TOL and abs(ref - float(np.linalg.norm(PA - PB, 'fro') ** 2) / 2) <= TOL,
                           "Symmetric": all(abs(sq(f(B, A)) - sq(f(A, B))) <= TOL for f in (f1, f2)),
                           "BasisInvariant": all(abs(sq(f(A @ T1, B @ T2)) - ref) <= TOL for f in (f1, f2)),
                           "UnitaryInvariant": all(abs(sq(f(U @ A, U @ B)) - ref) <= TOL for f in (f1, f2)),
                           "SubspaceOnly": all(abs(sq(f(Fa, Fb)) - ref) <= TOL and abs(sq(f(Fb, Fa)) - ref) <= TOL
                                               for f in (f1, f2) for Fa in forms_of(rs, A) for Fb in [B] + forms_of(rs, B)),
                           "NestedGivesHalfDimDiff": all(abs(sq(f(x, y)) - abs(c - n2) / 2) <= TOL for f in (f1, f2)
                                                         for x, y in ((big, inside), (inside, big))),
                           "AnglesSumCos2IsTrace": abs(float(np.sum(np.cos(ang) ** 2)) - float(np.real(np.trace(PA @ PB)))) <= TOL}
    elif op == "lrsv":
        n = d["n"] = int(rs.randint(0, c + 1))
        A = rnd(rs, r, c, real)
        ev["out"], res = outcome(misc.least_right_singular_vectors, A, n)
        if res is not None:
            V0, V1, S = res
            ev["shape"] = {"v0": sh(V0), "v1": sh(V1), "s": sh(S)}
            W = np.hstack([V0, V1])
            sv = np.zeros(c)
            sv[:min(r, c)] = np.linalg.svd(A, compute_uv=False)
            ev["preds"] = {"Unitary": near(W.conj().T @ W, I(c)),
                           "SingularValuesAligned": len(S) == c - n and near(np.linalg.norm(A @ V1, axis=0), S, max(1.0, sv[0]))
                           and bool(np.all(np.diff(S) >= -TOL)),
                           # the n least singular values: |A V0| are the n smallest ones
                           "LeastSubspace": near(np.sort(np.linalg.norm(A @ V0, axis=0)), np.sort(sv)[:n], max(1.0, sv[0]))}
    elif op == "pcm":
        k = d["k"] = int(rs.randint(1, min(r, c) + 1))
        A = rnd(rs, r, c, real)
        ev["out"], out = outcome(misc.get_principal_component_matrix, A, k)
        if out is not None:
            ev["shape"] = {"out": sh(out)}
            U, S, Vh = np.linalg.svd(A, full_matrices=False)
            Ak = (U[:, :k] * S[:k]) @ Vh[:k, :]
            ev["preds"] = {"RankKApproximationColumns": near(out, Ak[:, :k], max(1.0, S[0]))}
    elif op in ("peig", "leig"):
        c = d["cols"] = r
        n = d["n"] = int(rs.randint(1, r + 2))           # r + 1: must raise ValueError
        A = rnd(rs, r + int(rs.randint(0, 3)), r, real)
        H = A.conj().T @ A + I(r)
        f = misc.peig if op == "peig" else misc.leig
        ev["out"], res = outcome(f, H, n)
        if res is not None:
            V, D = res
            ev["shape"] = {"v": sh(V), "d": sh(D)}
            w = np.linalg.eigvalsh(H)
            ref = (w[::-1] if op == "peig" else w)[:n]
            sc = max(1.0, float(w[-1]))
            ev["preds"] = {"EigenEquation": near(H @ V, V * D, sc), "ExtremeValuesInOrder": near(D, ref, sc),
                           "UnitColumns": near(np.linalg.norm(V, axis=0), np.ones(n))}
    elif op == "smw":
        c = d["cols"] = r
        while True:
            A = rnd(rs, r, r, real)
            dg = rs.uniform(0.2, 3.0, r)
            if all(np.linalg.cond(A + np.diag(np.r_[dg[:j], np.zeros(r - j)])) <= 1e3 for j in range(1, r + 1)):
                break
        inv0 = np.linalg.inv(A)
        keep = inv0.copy()
        ev["out"], X = outcome(misc.update_inv_sum_diag, inv0, dg)
        if X is not None:
            ev["shape"] = {"x": sh(X)}
            ev["preds"] = {"IsInverse": near((A + np.diag(dg)) @ X, I(r)), "InputUntouched": bool(np.array_equal(keep, inv0))}
    elif op == "gmd":
        A = rnd(rs, r, c, real)
        U, S, Vh = np.linalg.svd(A)
        ev["out"], res = outcome(misc.gmd, U, S, Vh)
        if res is not None:
            Q, R, P = res
            p = min(r, c)
            gm = float(np.exp(np.mean(np.log(S))))
            ev["shape"] = {"q": sh(Q), "r": sh(R), "p": sh(P)}
            ev["preds"] = {"Reconstructs": near(Q @ R @ P.conj().T, A), "UnitaryQ": near(Q.conj().T @ Q, I(r)), "UnitaryP": near(P.conj().T @ P, I(c)),
                           "UpperTriangularR": near(np.tril(R, -1), 0 * R, 1.0), "ConstantDiagonalGeoMean": near(np.diag(R)[:p], np.full(p, gm))}
    elif op == "whiten":
        A = rnd(rs, r, c, real)
        C = A.conj().T @ A + I(c)
        ev["out"], W = outcome(misc.calc_whitening_matrix, C)
        if W is not None:
            ev["shape"] = {"w": sh(W)}
            ev["preds"] = {"WhCWIsIdentity": near(W.conj().T @ C @ W, I(c))}
    elif op == "conv":
        x = float(10.0 ** rs.uniform(-15, 15))
        y = float(rs.uniform(-150, 150))
        b = int(rs.randint(1, 11))
        rel = lambda u, v: abs(u - v) <= 1e-9 * abs(v)  # noqa
        ev["preds"] = {"dBRoundTrip": rel(cv.dB2Linear(cv.linear2dB(x)), x) and abs(cv.linear2dB(cv.dB2Linear(y)) - y) <= 1e-9 * 150,
                       "dBmRoundTrip": rel(cv.dBm2Linear(cv.linear2dBm(x)), x) and abs(cv.linear2dBm(cv.dBm2Linear(y)) - y) <= 1e-9 * 150,
                       "dBmOffset30": abs(cv.linear2dBm(x) - cv.linear2dB(x) - 30) <= 1e-9 * 150,
                       "EbN0RoundTrip": abs(cv.SNR_dB_to_EbN0_dB(cv.EbN0_dB_to_SNR_dB(y, b), b) - y) <= 1e-9 * 150
                       and abs(cv.EbN0_dB_to_SNR_dB(cv.SNR_dB_to_EbN0_dB(y, b), b) - y) <= 1e-9 * 150,
                       "EbN0Factor": rel(cv.dB2Linear(cv.EbN0_dB_to_SNR_dB(y, b)), b * cv.dB2Linear(y))}
    ev["preds"] = {k: bool(v) for k, v in ev["preds"].items()} or {"none": True}
    return ev


def record(seed, ntraces, length):
    traces = []
    for t in range(ntraces):
        rs = np.random.RandomState((seed * 7919 + t * 104729 + 13) % (2 ** 31))
        ops = [OPS[(t + j) % len(OPS)] if j < 2 else OPS[int(rs.randint(len(OPS)))] for j in range(length)]
        with np.errstate(all="ignore"):
            traces.append([record_event(rs, op) for op in ops])
    return traces


FINDING_OF = {("lrsv", "outcome"): "LrsvWideMatrixIndex", ("lrsv", "shape"): "LrsvWideMatrixIndex",
              ("pcm", "outcome"): "PcmWideMatrixShape", ("whiten", "law WhCWIsIdentity"): "WhitenEigNotOrthogonal"}
_MIS = re.compile(r'mismatch = <<(\d+), (\d+), "([^"]*)">>')


def validate(traces, dev=()):
    path = os.path.join(tlc.WORK, f"c20-traces-{uuid.uuid4().hex[:8]}.json")
    os.makedirs(tlc.WORK, exist_ok=True)
    with open(path, "w") as f:
        json.dump(traces, f)
    try:
        d = {k: (k in dev) for k in ("LrsvWideMatrixIndex", "PcmWideMatrixShape", "WhitenEigNotOrthogonal", "SmwZeroSkipShiftsIndex", "ProjLazyOQFromCallerArray", "ConvNarrowIntHalfPrecision")}
        defs = {"Shapes": "<<<<1, 1>>>>", "Dev": tlc.tla(d)}
        cfg = tlc.cfg_text(constants={"Kind": '"trace"', "Seed": "0", "Lo": "0", "Hi": "0", "Alpha": "1"}, defs=defs,
                           init="TInit", next_="TNext", invariants=["Conforms"])
        return tlc.run(TRACE_MODULE, cfg, defs=defs, env={"TRACE_FILE": path}, continue_=True, workers=2, timeout=1800)
    finally:
        try:
            os.remove(path)
        except OSError:
            pass


def wide_defect_signature(e, clause):
    """does the mismatch have the signature of a listed deviation (operation + argument class)?"""
    d = e["d"]
    if e["op"] == "lrsv":
        return d["cols"] - d["n"] > min(d["rows"], d["cols"])
    if e["op"] == "pcm":
        return d["rows"] < d["cols"]
    if e["op"] == "whiten":
        return d["cols"] - d["rows"] >= 2
    return False


def run(ctx):
    thorough = ctx.tier == "thorough"
    ntr, ln = (1500, 12) if thorough else (150, 10)
    traces = record(ctx.seed, ntr, ln)
    r = validate(traces)
    ctx.states += r.distinct
    ctx.transitions += r.generated
    ctx.model_runs.append({"module": TRACE_MODULE, "label": "recorded calls", "generated": r.generated, "distinct": r.distinct,
                           "depth": r.depth, "violated": r.violated, "wall_s": round(r.wall, 2)})
    if r.distinct < sum(len(t) for t in traces):
        raise tlc.TlcError(f"trace validation explored {r.distinct} states for {sum(len(t) for t in traces)} events")
    bad = {}
    for m in _MIS.finditer(r.out):
        tid, idx, clause = int(m.group(1)), int(m.group(2)), m.group(3)
        bad.setdefault(tid, (idx, clause))
    if r.violated and not bad:
        raise tlc.TlcError("Trace_Subspace: Conforms violated but no mismatch tuple found in TLC's output")
    for tid, t in enumerate(traces, 1):
        ctx.trace_done()
        n_ok = len(t) if tid not in bad else bad[tid][0] - 1
        ctx.ok(n=n_ok)
        ctx.distinct.update(("T", e["op"], e["d"]["rows"], e["d"]["cols"], e["d"]["n"], e["d"]["k"], e["real"]) for e in t[:n_ok])
        if tid in bad:
            idx, clause = bad[tid]
            e = t[idx - 1]
            fid = FINDING_OF.get((e["op"], clause))
            what = f"recorded trace {tid} event {idx}: {e['op']} {e['d']} ({'real' if e['real'] else 'complex'}): {clause}; logged out={e['out']} shape={e['shape']} preds={e['preds']}"
            case = {"kind": "trace", "seed": ctx.seed, "tid": tid, "ntraces": ntr, "length": ln, "event": idx, "failing": what}
            if fid and wide_defect_signature(e, clause):
                ctx.finding(fid, what, case)
            else:
                ctx.violation(what, case)
    # the binding is live: a corrupted copy of a conforming trace must be rejected by TLC
    good = next((t for tid, t in enumerate(traces, 1) if tid not in bad), None)
    if good is not None:
        cor = json.loads(json.dumps(good))
        e = next((x for x in cor if x["out"] == "ok" and "none" not in x["shape"]), None)
        if e is not None:
            k0 = sorted(e["shape"])[0]
            e["shape"][k0] = [v + 1 for v in e["shape"][k0]]
            rc = validate([cor])
            if not _MIS.search(rc.out):
                raise tlc.TlcError("Trace_Subspace accepted a corrupted trace (shape field altered)")
            ctx.notes["corrupted_trace_rejected"] = _MIS.search(rc.out).group(3)
    ctx.notes["traces_recorded"] = len(traces)
    ctx.notes["trace_events"] = sum(len(t) for t in traces)
    ctx.sample({"recorded_trace": [{k: e[k] for k in ("op", "d", "out", "shape")} for e in traces[0][:4]]}, limit=12)


def replay(ctx, case):
    """re-record the one trace and validate it again"""
    traces = record(case["seed"], case["ntraces"], case["length"])
    t = [traces[case["tid"] - 1]]
    r = validate(t)
    ctx.trace_done()
    m = _MIS.search(r.out)
    if m:
        ctx.violation(f"recorded trace {case['tid']} event {m.group(2)}: {m.group(3)}", case)
    else:
        ctx.ok(n=len(t[0]))
