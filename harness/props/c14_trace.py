"""C14 stage T: record random request sequences on real JakesSampleGenerators and let TLC validate them
against Jakes.tla (spec/chan/Trace_Jakes.tla, one batched run).

The recorder does not decide anything.  For every returned block it logs the count and shape and the
sample indexes it IDENTIFIED for the first and the last returned sample: the index k (within a window
around the recorder's own running count) whose Jakes-sum value (c14_model, phases from the re-played
RandomState) is nearest, accepted only within the 1 %-of-a-sample tolerance; <<-1,-1>> otherwise.  Whether
these are the indexes the request sequence demands is decided by the specification."""
import json
import os
import random
import tempfile

import numpy as np

from .. import tlc
from ..core import pool_map
from . import c14_model as jm

TRACE_MODULE = "chan/Trace_Jakes.tla"
BIG = 10 ** 7
WINDOW = 6
POS_MAX = 10 ** 10
TS_CHOICES = [1e-9, 1e-6, 1e-3, 1.0, 3.7e-5, 2.5e-8, 0.02, 1.0 / 3]
SHAPES = [(), (2,), (2, 3), (1,), (3,), (2, 1, 2)]


def _limb(k):
    return [-1, -1] if k < 0 else [k // BIG, k % BIG]


def _identify(vec, Fd, Ts, L, phases, centre, prefer):
    """vec: one sample per element, shape (*shape,) -> (index, draw) or (-1, 0)"""
    order = sorted(phases, key=lambda d: d != prefer)
    for d in order:
        phi, psi = phases[d]
        if phi.shape[1:-1] != vec.shape:
            continue
        tol = jm.tolerance(Fd, Ts, L, phi)[..., 0]
        k0 = max(0, centre - WINDOW)
        m = jm.jakes_block(Fd, Ts, L, phi, psi, k0, centre + WINDOW + 1 - k0)      # (*shape, window)
        err = np.abs(m - vec[..., None])
        worst = err.reshape(-1, err.shape[-1]) / tol.reshape(-1, 1)
        score = worst.max(axis=0)
        j = int(np.argmin(score))
        if score[j] <= 1.0:
            return k0 + j, d
    return -1, 0


def record_one(job):
    """comparisons are total: whatever the code under test does while it is driven and observed, a trace comes back"""
    try:
        return _record_one(job)
    except Exception as ex:  # noqa
        return {"id": job["id"], "seed": job["seed"], "budget": job["budget"], "Ts": 0.0, "FdTs": 0.0, "L": 0,
                "ev": [{"op": "construct", "sh": [], "kept": True, "count": 0, "shape": [], "first": [-1, -1], "last": [-1, -1],
                        "ph": 0, "inner": False,
                        "exc": f"driving / observing the generator raised {type(ex).__name__}: {ex}"[:240]}]}


def _record_one(job):
    """job = dict(id, seed, budget) -> trace dict (JSON-able); never raises for generator faults"""
    from . import c14
    from pyphysim.channels.fading_generators import JakesSampleGenerator
    seed = job["seed"]
    rng = random.Random(seed)
    Ts = rng.choice(TS_CHOICES)
    # normalised Doppler: ordinary fading rates, and (every third trace) slow fading down to 1e-7 per sample, where
    # only positions of 10^7 .. 10^10 samples show that the channel moves.  (Below 1e-7 neighbouring samples get
    # too close for an unambiguous identification of the index; stage R covers 1e-9 .. 1e-7 at emitted indexes.)
    u = rng.random()
    fdts = rng.uniform(0.02, 0.2) if u < 0.57 else 10 ** rng.uniform(-7, -1.7)
    if u >= 0.88:      # half a turn to several whole turns per sample, both signs
        fdts = rng.choice([0.5, 0.9, 1.0, 1.5, 2.0, 2.5, 3.0, rng.uniform(0.5, 3.0)]) * rng.choice([1, 1, -1])
    Fd = fdts / Ts
    # ray counts below, at and above an internal pass size of 16, mostly not multiples of it
    L = rng.randint(4, 16) if rng.random() < 0.55 else rng.choice([17, 20, 24, 31, 32, 33, 40, 47, 63, 64])
    mir = c14.Mirror(L, seed)
    sh0 = rng.choice(SHAPES)
    budget = job["budget"]          # total number of generated scalar samples per trace
    ev = []
    gens, stream, count, draw_of, snap = [], [], [], [], []
    held = []       # every array ever returned (the object itself, NOT a copy) with its values at that time
    ndraw = 0
    last_n = [None]

    def kept():
        """EarlierBlocksUnchanged: do all arrays handed out so far still hold their values?  Then hold the
        current blocks too."""
        ok = all(np.shape(o) == v.shape and np.array_equal(o, v) for o, v in held)
        for o in gens:
            a = o.get_samples()
            if not any(a is h for h, _ in held):
                held.append((a, np.array(a, copy=True)))
        return ok

    def block_fields(g, n_req):
        """observe get_samples() of generator g and identify it"""
        arr = np.asarray(gens[g].get_samples())
        f = {"count": int(arr.shape[-1]) if arr.ndim else 0, "shape": [int(x) for x in arr.shape]}
        c0 = count[g]
        k1, d1 = _identify(arr[..., 0], Fd, Ts, L, mir.phases, c0, draw_of[g])
        k2, d2 = _identify(arr[..., -1], Fd, Ts, L, mir.phases, c0 + arr.shape[-1] - 1, draw_of[g])
        f["first"], f["last"], f["ph"] = _limb(k1), _limb(k2), int(d1 if d1 == d2 else 0)
        inner = False
        f["errq"] = -1.0
        if draw_of[g] in mir.phases and mir.phases[draw_of[g]][0].shape[1:-1] == arr.shape[:-1]:
            phi, psi = mir.phases[draw_of[g]]     # information for the report only: error at the running count
            m = jm.jakes_block(Fd, Ts, L, phi, psi, c0, arr.shape[-1])
            f["errq"] = float(np.max(np.abs(arr - m) / jm.tolerance(Fd, Ts, L, phi)))
        f["pos"] = c0
        if k1 >= 0 and d1 in mir.phases:
            phi, psi = mir.phases[d1]
            m = jm.jakes_block(Fd, Ts, L, phi, psi, k1, arr.shape[-1])
            inner = bool(np.all(np.abs(arr - m) <= jm.tolerance(Fd, Ts, L, phi))
                         and np.max(np.abs(arr)) <= np.sqrt(L) * (1 + 1e-12))
        f["inner"] = inner
        return f

    def same_fields(touched=None):
        """did the stored block of every generator other than `touched` stay as it was?"""
        ok = True
        for h, o in enumerate(gens):
            cur = np.array(o.get_samples(), copy=True)
            if h < len(snap):
                if h != touched and not (snap[h].shape == cur.shape and np.array_equal(snap[h], cur)):
                    ok = False
                snap[h] = cur
            else:
                snap.append(cur)
        return ok

    def shape_arg(sh, v):
        return c14.py_shape(sh, v)

    # construct
    ndraw += 1
    mir.draw("rs", sh0, ndraw)
    try:
        gens.append(JakesSampleGenerator(Fd, Ts, L, shape_arg(sh0, seed), np.random.RandomState(seed)))
    except Exception as ex:  # noqa
        return {"id": job["id"], "seed": seed, "budget": budget, "Ts": Ts, "FdTs": fdts, "L": L,
                "ev": [{"op": "construct", "sh": list(sh0), "form": c14.FORMS[seed % 4] if len(sh0) == 1 else "",
                        "kept": True, "count": 0, "shape": [], "first": [-1, -1], "last": [-1, -1],
                        "ph": 0, "inner": False, "exc": f"{type(ex).__name__}: {ex}"[:200]}]}
    stream.append("rs")
    count.append(0)
    draw_of.append(ndraw)
    e = {"op": "construct", "sh": list(sh0)}
    e.update(block_fields(0, 1))
    count[0] = 1
    same_fields()
    e["kept"] = kept()
    ev.append(e)
    shapes = [sh0]

    nev = rng.randint(6, 14)
    for _ in range(nev):
        g = rng.randrange(len(gens))
        u = rng.random()
        elems = int(np.prod(shapes[g])) if shapes[g] else 1
        if u < 0.42:
            n = max(1, min(int(10 ** rng.uniform(0, 5)), budget // (elems * L) if budget > 0 else 1, 10 ** 5))
            if last_n[0] is not None and rng.random() < 0.35:
                n = max(1, min(last_n[0], budget // (elems * L) if budget > 0 else 1))   # block by block, same size
            last_n[0] = n
            e = {"op": "gen", "g": g + 1, "n": n, "raised": False}
            try:
                gens[g].generate_more_samples(n)
            except Exception as ex:  # noqa
                e.update({"raised": True, "count": 0, "shape": [], "first": [-1, -1], "last": [-1, -1], "ph": 0,
                          "inner": False, "exc": f"{type(ex).__name__}: {ex}"[:200], "pos": count[g]})
                e["kept"] = kept()
                ev.append(e)
                break
            budget -= n * elems * L
            e.update(block_fields(g, n))
            e["same"] = same_fields(g)
            if not e["same"]:
                e["inner"] = False
            count[g] += n
        elif u < 0.52:
            e = {"op": "gendefault", "g": g + 1, "n": 1, "raised": False}
            try:
                gens[g].generate_more_samples()
            except Exception as ex:  # noqa
                e.update({"raised": True, "count": 0, "shape": [], "first": [-1, -1], "last": [-1, -1], "ph": 0,
                          "inner": False, "exc": f"{type(ex).__name__}: {ex}"[:200], "pos": count[g]})
                e["kept"] = kept()
                ev.append(e)
                break
            e.update(block_fields(g, 1))
            e["same"] = same_fields(g)
            if not e["same"]:
                e["inner"] = False
            count[g] += 1
        elif u < 0.70:
            n = max(1, int(10 ** rng.uniform(0, 5)))
            gens[g].skip_samples_for_next_generation(n)
            count[g] += n
            e = {"op": "skip", "g": g + 1, "n": n, "same": same_fields()}
        elif u < 0.84:
            r = rng.choice([1, 1, 2, 5, 37, 200, 999])
            r = min(r, (POS_MAX - count[g]) // BIG)
            if r < 1:
                continue
            for _i in range(r):
                gens[g].skip_samples_for_next_generation(BIG)
            count[g] += r * BIG
            e = {"op": "skipbig", "g": g + 1, "r": r, "same": same_fields()}
        elif u < 0.94 or len(gens) >= 2:
            sh = rng.choice(SHAPES)
            ndraw += 1
            mir.draw(stream[g], sh, ndraw)
            try:
                gens[g].shape = shape_arg(sh, seed + ndraw)
            except Exception as ex:  # noqa
                ev.append({"op": "setshape", "g": g + 1, "sh": list(sh), "same": False, "kept": kept(),
                           "form": c14.FORMS[(seed + ndraw) % 4] if len(sh) == 1 else "",
                           "exc": f"{type(ex).__name__}: {ex}"[:200]})
                break
            shapes[g] = sh
            draw_of[g] = ndraw
            e = {"op": "setshape", "g": g + 1, "sh": list(sh), "same": same_fields()}
        else:
            ndraw += 1
            s2 = (seed * 7919 + 104729) % (2 ** 31)
            np.random.seed(s2)
            try:
                sib = gens[g].get_similar_fading_generator()
            except Exception as ex:  # noqa
                ev.append({"op": "similar", "g": g + 1, "same": False, "kept": kept(), "count": 0, "shape": [], "first": [-1, -1],
                           "last": [-1, -1], "ph": 0, "inner": False, "exc": f"{type(ex).__name__}: {ex}"[:200]})
                break
            got = np.asarray(sib.get_samples())

            def matches(phi, psi, got=got):
                m = jm.jakes_block(Fd, Ts, L, phi, psi, 0, 1)
                return got.shape == m.shape and bool(np.all(np.abs(got - m) <= jm.tolerance(Fd, Ts, L, phi)))

            stream.append(mir.sibling(stream[g], shapes[g], ndraw, s2, matches))
            gens.append(sib)
            shapes.append(shapes[g])
            count.append(0)
            draw_of.append(ndraw)
            e = {"op": "similar", "g": g + 1}
            e.update(block_fields(len(gens) - 1, 1))
            count[-1] = 1
            e["same"] = same_fields()
        e["kept"] = kept()
        ev.append(e)
    return {"id": job["id"], "seed": seed, "budget": job["budget"], "Ts": Ts, "FdTs": fdts, "L": L, "ev": ev}


def record(ctx):
    n = 800 if ctx.tier == "thorough" else 128
    budget = 2 * 10 ** 7 if ctx.tier == "thorough" else 2 * 10 ** 6
    jobs = [{"id": i + 1, "seed": (ctx.seed * 999983 + i * 7 + 11) % (2 ** 31), "budget": budget} for i in range(n)]
    return pool_map(record_one, jobs, chunksize=max(1, n // 128))


def _cfg():
    from . import c14
    defs = {"ShapeSet": "{}", "Shape0": "{}", "Dev": tlc.tla({k: False for k in c14.DEVS})}
    cons = {"Kind": '"jakes"', "FormSalt": "0", "GenSizes": "{}", "SkipSizes": "{}", "BigReps": "{}", "Warm": "{0}", "MaxLen": "1000",
            "MaxGens": "2", "GenDefault": "TRUE", "Lattice": "FALSE", "HalfCos": "FALSE", "L": "1", "FdQ": "0"}
    cfg = tlc.cfg_text(constants=cons, defs=defs, init="TInit", next_="TNext",
                       invariants=["Conforms", "TypeOK", "Count", "Aligned", "OnGrid", "PhasesFixed", "Independent", "BuffersDistinct"])
    return cfg, defs


def _tlc_view(t):
    """only what the trace specification reads (integers, booleans, strings)"""
    keep = ("op", "g", "n", "r", "sh", "raised", "count", "shape", "first", "last", "ph", "inner", "same", "kept")
    return {"ev": [{k: v for k, v in e.items() if k in keep} for e in t["ev"]]}


def _tlc_validate(ctx, traces, label):
    """one batched TLC run of Trace_Jakes.tla -> {trace number (1-based): first mismatch}"""
    fd, path = tempfile.mkstemp(prefix="c14-traces-", suffix=".json", dir=tlc.WORK if os.path.isdir(tlc.WORK) else None)
    with os.fdopen(fd, "w") as f:
        json.dump([_tlc_view(t) for t in traces], f)
    try:
        cfg, defs = _cfg()
        r = tlc.run(TRACE_MODULE, cfg, defs=defs, env={"TRACE_FILE": path}, continue_=True, workers=1)
    finally:
        os.unlink(path)
    ctx.account(r, TRACE_MODULE, label, expect_violation=r.violated if r.violated == "Conforms" else None)
    want_states = sum(len(t["ev"]) + 1 for t in traces)
    bad = {}
    for m in r.emitted:
        bad.setdefault(int(m["tid"]), m)
    if r.violated and not bad:
        raise tlc.TlcError("Trace_Jakes: Conforms violated but no mismatch was emitted")
    if not bad and r.distinct < want_states:
        raise tlc.TlcError(f"Trace_Jakes explored {r.distinct} states, the traces have {want_states}")
    return bad


def negative_control(ctx, traces, bad):
    """the binding is live: ONE logged value of one conforming trace is corrupted - the identified index of the
    first sample of a generated block moved by one sample - and TLC must reject exactly that event"""
    for i, t in enumerate(traces):
        if (i + 1) in bad or len(t["ev"]) > 16:
            continue
        for k, e in enumerate(t["ev"]):
            if e["op"] == "gen" and not e["raised"] and e["first"][0] >= 0:
                c = json.loads(json.dumps(t))
                c["ev"][k]["first"] = [e["first"][0], e["first"][1] + 1]
                got = _tlc_validate(ctx, [c], "negative control (one corrupted sample index)").get(1)
                if not got or int(got["ev"]) != k + 1 or got["field"] != "first":
                    raise tlc.TlcError(f"trace validation did not report a corrupted first-sample index (event {k + 1} of "
                                       f"trace {t['id']}: {e['first']} -> {c['ev'][k]['first']}); TLC said {got} "
                                       f"(binding not live)")
                ctx.notes["trace_negative_control"] = (f"first-sample index of event {k + 1} (gen {e['n']}) of trace {t['id']} "
                                                       f"moved from {e['first']} to {c['ev'][k]['first']}: rejected "
                                                       f"(field 'first')")
                return
    if traces and len(bad) < len(traces):
        raise tlc.TlcError("no conforming trace with an identified generation event for the negative control")


def validate(ctx, traces, control=True):
    from . import c14
    bad = _tlc_validate(ctx, traces, "recorded traces")
    if control:
        negative_control(ctx, traces, bad)
    nev = 0
    for i, t in enumerate(traces):
        m = bad.get(i + 1)
        if m is None:
            ctx.trace_done()
            ctx.ok(f"T|{t['seed']}", n=len(t["ev"]))
            nev += len(t["ev"])
            continue
        e = t["ev"][int(m["ev"]) - 1]
        what = (f"recorded trace {t['id']} (Ts={t['Ts']:g}, Fd*Ts={t['FdTs']:.3g}, L={t['L']}): event {m['ev']} "
                f"{ {k: v for k, v in e.items() if k != 'exc'} } does not conform to Jakes.tla in field '{m['field']}'"
                + (f" [{e['exc']}]" if "exc" in e else ""))
        case = {"stage": "T", "job": {"id": t["id"], "seed": t["seed"], "budget": t["budget"]}, "mismatch": m, "trace": t}
        ctx.ok(n=int(m["ev"]) - 1)
        exc = e.get("exc", "")
        hist = [(x.get("pos", 0), x.get("n", 1)) for x in t["ev"][:int(m["ev"])] if x["op"] in ("gen", "gendefault")]
        if (m["field"] == "raised" and exc.startswith("ValueError") and "reshape" in exc
                and f"size {e['n'] + 1} " in exc and e.get("pos", 0) >= BIG):
            ctx.finding("ArangeCountDrifts", what, case)
        elif (m["field"] in ("inner", "first", "last", "phases") and e["op"] in ("gen", "gendefault")
              and c14.is_step_rounded_finding(hist, e.get("errq", -1.0) if e.get("errq", -1.0) >= 0 else None)):
            ctx.finding("ArangeStepRounded", what + f" [max error {e['errq']:.2f} x tolerance]", case)
        elif (e["op"] in ("construct", "setshape") and e.get("form") == "npint" and exc.startswith("TypeError")
              and "iterable" in exc):
            ctx.finding("NumpyIntShapeRejected", what, case)
        else:
            ctx.violation(what, case)
    ctx.notes["traces_recorded"] = len(traces)
    ctx.notes["trace_events_validated"] = nev
    if traces:
        t = traces[len(traces) // 2]
        ctx.sample({"recorded_trace": {"Ts": t["Ts"], "FdTs": round(t["FdTs"], 4), "L": t["L"], "ev": t["ev"][:4]}}, limit=6)


def replay(ctx, c):
    t = record_one(c["job"])
    validate(ctx, [t], control=False)
