"""C03 - a TDL channel returns the convolution with the impulse response it reports.

Stage M: TLC on spec/chan/Tdl.tla.  Intended instance (all Dev flags FALSE): TypeOK and the action
properties DiscLaw / BlockLaw / PosLaw / SetLaw / ChanLaw (Reported, Len, Conv, Freq, Linear) hold on
every transition of every configuration; every Dev flag alone: TLC must refute the law named for it.
Stage R: the same TLC runs emit every transition (ACTION_CONSTRAINT Emit) with the exact output, the
exact reported impulse response and (frequency domain) the exact frequency response.  Python rebuilds
the state graph per configuration (nodes = generator position x direction x path loss), covers every
transition with paths from a fresh channel object (so a case is executed after 0..n earlier
transmissions on the same object) and compares the real TdlChannel / TdlMimoChannel / SuChannel /
SuMimoChannel / MuChannel / MuMimoChannel - driven by a table-driven FadingSampleGenerator subclass -
with the emitted values.  Discretisation cases (kind "disc") are enumerated by TLC and compared with
TdlChannelProfile.get_discretize_profile.
Stage T (rel): harness/props/c03_real.py - the same TLC-emitted scenarios on real Jakes / Rayleigh
generators with random profiles; output vs convolution with the REPORTED response, numerically."""
import math
import os
import random
from concurrent.futures import ThreadPoolExecutor
from fractions import Fraction

import numpy as np
import warnings

# a tap of power 0 is -inf dB: the library's linear2dB warns (and is right to return -inf)
warnings.filterwarnings("ignore", message="divide by zero encountered in log10")

from .. import tlc, graph
from ..core import pool_map

MODULE = "chan/Tdl.tla"
TOL = 1e-9
LAWS = ["DiscLaw", "SharedLaw", "BlockLaw", "PosLaw", "SetLaw", "ChanLaw", "FrameLaw"]
DEVS = ["DiscRoundHalfUp", "DiscMergeKeepsLast", "DiscNoNormalise", "NoSkipBetweenBlocks", "PathlossNotInReported",
        "ShiftByTapIndex", "SwitchedNotTransposed", "TailDropped", "SliceBlockSizeFloorDiv", "MuSetPathlossNoneRaises",
        "PathlossZeroIsNone", "OutputBufferReused", "ArgumentScaledInPlace", "DiscMemoRoundedTs"]
# real deviations of the code (the others are plausible regressions used to show the laws are not vacuous)
REAL_DEVS = {"SetNumAntennasNoneRaises": "set_num_antennas(None, None) (documented: back to SISO) leaves the fading generator with shape "
                                         "(taps, None, None); the next transmission raises TypeError",
             "ProfileRmsSqrtDomain": "TdlChannelProfile() raises ValueError (math domain error) when all taps share one non-zero "
                                     "delay: rms delay spread takes the sqrt of a variance that rounds below zero",
             "SliceBlockSizeFloorDiv": "corrupt_data_in_freq_domain raises (or would mis-size blocks) for a slice whose step "
                                       "does not divide its span: block size is computed as (stop-start)//step",
             "MuSetPathlossNoneRaises": "MuChannel.set_pathloss(None) raises TypeError although None is documented to "
                                        "disable the path loss"}
NONE = 99
# concurrent TLC processes started by this check (VERIF_PROCS limits it on a shared machine)
TLC_PAR = int(os.environ.get("VERIF_PROCS", "0") or 0) or 14

# ------------------------------------------------------------------------------ configuration families
# raw tap profiles: [quarter-sample delay, [power numerator, denominator]]; after rounding/merging/normalising
# every power is the square of a rational
PROFILES = {
    "flat": [[0, [1, 1]]],
    "two01": [[0, [9, 25]], [4, [16, 25]]],                       # delays 0,1
    "two02": [[0, [16, 25]], [8, [9, 25]]],                       # delays 0,2 (zero padded tap in between)
    "collide": [[0, [9, 50]], [1, [9, 50]], [12, [32, 50]]],      # 0.25 -> 0 collides with the tap at 0; delays 0,3
    "ties": [[2, [9, 25]], [6, [16, 25]]],                        # 0.5 -> 0, 1.5 -> 2 (round half even)
    "unnorm": [[0, [9, 1]], [4, [16, 1]]],                        # powers sum to 25
    "three013": [[0, [1, 9]], [4, [4, 9]], [12, [4, 9]]],
    "unsorted": [[8, [36, 49]], [0, [4, 49]], [3, [9, 49]]],      # given out of order; 0.75 -> 1; delays 0,1,2
    "late": [[4, [9, 25]], [8, [16, 25]]],                        # no tap at delay 0; delays 1,2
    "mergeone": [[0, [1, 2]], [1, [1, 2]]],                       # both taps collapse into one
    "deep": [[1, [1, 18]], [2, [1, 18]], [6, [4, 9]], [14, [4, 9]]],   # delays 0,2,4 (memory 4: time domain only)
    "four": [[0, [1, 25]], [4, [4, 25]], [8, [4, 25]], [12, [16, 25]]],
    "tie25": [[10, [25, 169]], [0, [144, 169]]],                  # 2.5 -> 2; amplitudes 12/13, 5/13
    "zerotap": [[0, [9, 25]], [4, [0, 1]], [8, [16, 25]]],        # a tap of power 0 (-inf dB): kept, contributes nothing
    "lateone": [[7, [1, 2]], [9, [1, 2]]],                        # 1.75 and 2.25 merge into ONE tap at delay 2 (memory 2)
}
TIE_FREE = {"flat", "two01", "two02", "collide", "unnorm", "three013", "unsorted", "late", "mergeone", "four", "zerotap", "lateone"}


def to_dB(p):
    """linear power [n, d] -> dB as the API wants it (power 0 is -inf dB)"""
    return 10 * math.log10(p[0] / p[1]) if p[0] else -math.inf


def op(k, s=0, n=0, fft=0, sk="none", sel=()):
    return dict(k=k, s=s, n=n, fft=fft, sk=sk, sel=list(sel))


def sl(a, b, c):
    return [NONE if v is None else v for v in (a, b, c)]


# subcarrier selections (fft 4 unless stated): kind, value
SEL4 = [("none", []), ("array", [3, 0, 2]), ("list", [1, 3]), ("array", [-1, 0, 2, 2]), ("array", [0]), ("list", [0]),
        ("slice", sl(0, 4, 2)), ("slice", sl(1, None, 2)), ("slice", sl(None, None, -1)), ("slice", sl(-3, None, 1)),
        ("slice", sl(0, 2, None)), ("slice", sl(None, None, None)),
        # step does not divide the span
        ("slice", sl(0, 4, 3)), ("slice", sl(3, 0, -2)), ("slice", sl(1, 4, 2)), ("slice", sl(None, 3, 2)),
        ("slice", sl(0, 1, 2)), ("slice", sl(None, None, 3))]
SEL2 = [("none", []), ("array", [1, 0]), ("array", [0]), ("slice", sl(0, 2, 1)), ("slice", sl(None, None, 2)), ("slice", sl(1, None, None)),
        ("slice", sl(None, None, -1)), ("list", [1])]
SEL1 = [("none", []), ("slice", sl(None, None, None)), ("array", [0])]
# fft 8 (exact in Q(zeta_8)); the last five have steps that do not divide the span
SEL8 = [("none", []), ("array", [5, -1, 0, 3]), ("slice", sl(2, 7, None)), ("slice", sl(None, None, -2)), ("list", [7, 1, 1]), ("array", [0]),
        ("slice", sl(0, 8, 3)), ("slice", sl(1, None, 2)), ("slice", sl(7, None, -3)), ("slice", sl(None, None, 5)), ("slice", sl(-7, 6, 4))]


def mem_of(prof):
    return max(round_half_even_q(q) for q, _ in prof)


def round_half_even_q(qd):   # only used to decide which fft sizes a family may use (the oracle is TLC)
    f, r = divmod(qd, 4)
    return f + (1 if r > 2 or (r == 2 and f % 2 == 1) else 0)


def base_cfg(cid, kind, prof, ant, users=(1, 1), pls=(), ops=(), variant=0, maxpos=12, ts="one", ants=None, default_route=False):
    ants = [list(a) for a in (ants or [ant])]
    return dict(id=cid, kind=kind, prof=PROFILES[prof] if isinstance(prof, str) else prof, pname=str(prof),
                ant=ants[0], ants=ants, default_route=default_route, users=list(users), pls=[[[list(x) for x in row] for row in m] for m in pls],
                ops=list(ops), variant=variant, maxpos=maxpos, ts=ts, ntaps=0, qds=set(), pws=set(), q1=set())


def disc_cfg(cid, ntaps, qds, pws, q1, ts):
    c = base_cfg(cid, "disc", "flat", (0, 0), maxpos=0, ts=ts)
    c.update(ntaps=ntaps, qds=set(qds), pws={tuple(p) for p in pws}, q1=set(q1))
    return c


# sampling intervals as exact multiples a/b of the nominal one: the nominal, a clock 20 ppm slow / fast (prints alike with 4
# significant digits), 7 ppm fast, and a grossly different one
SCALES = [(1, 1), (50001, 50000), (49999, 50000), (3, 2), (142857, 142858)]


def ts_of(c, t):
    a, b = c["tss"][t - 1]
    return TS[c["ts"]] * a / b


def dhist_cfg(cid, prof, ts, scales, maxreq):
    """ONE profile object discretised for a history of sampling intervals (every order, up to maxreq requests)"""
    c = base_cfg(cid, "dhist", prof, (0, 0), maxpos=0, ts=ts)
    c["tss"] = [list(x) for x in scales]
    c["maxreq"] = maxreq
    # the equivalence the memoising deviation confuses: intervals that PRINT alike with 4 significant digits
    keys = [float("%.4g" % (TS[ts] * a / b)) for a, b in scales]
    c["tkeys"] = [1 + sorted(set(keys)).index(k) for k in keys]
    return c


def time_ops(n1, n2, gen=False, extra=0):
    """extra (rotation): 1 -> also the empty input, 2 -> also the real signal (integer / real dtypes)"""
    o = [op("T", 1, n1), op("T", 2, n1), op("T", 3, n1), op("T", 2, n2)]
    if gen:
        o.append(op("Gen", 0, 1 + (n1 + n2) % 2))      # n = 1 is called as generate_impulse_response()
    if extra == 1:
        o.append(op("T", 1, 0))
    if extra == 2:
        o.append(op("T", 4, n1))
    return o


def freq_ops(mem, rot, count, lin=True, with8=False):
    """`count` selections starting at rotation `rot` from the pools of the admissible fft sizes"""
    res = []
    # every fft size for every profile: a response longer than the fft size aliases (delay mod fft)
    pools = [(4, SEL4), (2, SEL2), (1, SEL1)] + ([(8, SEL8)] if with8 else [])
    flat = [(f, k, v) for f, pool in pools for k, v in pool]
    for j in range(count):
        f, k, v = flat[(rot + j * 5) % len(flat)]
        nb = 1 + (rot + j) % 2
        s = 1 + (rot + j) % 2
        if f == 8 and k == "none":
            nb = 1
        res.append(op("F", s, nb, f, k, v))
        if lin and j == 0:   # the same call with the other two signals: linearity in the frequency domain
            res += [op("F", 3 - s, nb, f, k, v), op("F", 3, nb, f, k, v)]
    return res


def configs_for(tier, seed):
    """the list of configurations of one tier (quick: every profile family, every antenna family, every class)"""
    thorough = tier == "thorough"
    cfgs = []
    cid = [0]

    def add(*a, **kw):
        cid[0] += 1
        cfgs.append(base_cfg(cid[0], *a, **kw))

    names = list(PROFILES)
    ants = [(0, 0), (2, 1), (1, 2), (2, 3)] + ([(3, 2), (1, 1), (2, 2)] if thorough else [])
    dirs = [op("Dir", n=1), op("Dir", n=0)]
    mp = 16 if thorough else 12
    rot = seed * 7
    # --- TdlChannel / TdlMimoChannel: every profile x rotating antenna families
    for i, name in enumerate(names):
        mem = mem_of(PROFILES[name])
        # the SISO and the MIMO branches of the code are separate: every profile runs on SISO and on one MIMO family
        fams = ants if thorough else [ants[0], ants[1 + i % 3]]
        for j, ant in enumerate(fams):
            ops = time_ops(2 + (i + j) % 2, 4 + (i + j) % 2, gen=(j == 0), extra=((i + 2 * j) % 5 if not thorough else 1 + (i + j) % 2))
            ops += freq_ops(mem, rot + 3 * i + j, 4 if thorough else 3, lin=(j == 0), with8=thorough)
            if ant != (0, 0) or i % 4 == 0:
                ops += dirs
            small = (ant[0] or 1) * (ant[1] or 1) <= 2
            add("tdl", name, ant, ops=ops, variant=i + j, maxpos=(20 if small else 16) if thorough else (mp if ant == (0, 0) else 10),
                ts=("dec" if name in TIE_FREE and (i + j) % 2 else "dy" if (i + j) % 3 else "one"))
    # --- SuChannel / SuMimoChannel with a scalar path loss
    # amplitude 0 = path loss exactly 0.0 (falsy but valid), next to ordinary values, None (op PL 0) and, thorough, 1.0
    su_pls = [[[(1, 2)]], [[(0, 1)]], [[(3, 5)]]] + ([[[(1, 1)]]] if thorough else [])
    su_sets = [("two02", (0, 0)), ("three013", (2, 3)), ("collide", (1, 2)), ("late", (2, 1))] + \
              ([("unsorted", (3, 2)), ("ties", (2, 2)), ("four", (0, 0)), ("tie25", (2, 3))] if thorough else [])
    for i, (name, ant) in enumerate(su_sets):
        mem = mem_of(PROFILES[name])
        ops = time_ops(3, 4)[:3 if not thorough else 4] + freq_ops(mem, rot + 11 * i + 2, 2, lin=thorough)
        ops += [op("PL", n=1), op("PL", n=2), op("PL", n=0), op("PL", n=3)] + ([op("PL", n=4)] if thorough else [])
        if ant != (0, 0):
            ops += dirs
        add("su", name, ant, pls=su_pls, ops=ops, variant=i, maxpos=10 if not thorough else 12,
            ts="dec" if name in TIE_FREE and i % 2 else "dy")
    # --- MuChannel / MuMimoChannel: links superposed, path-loss matrix
    def plm(kr, kt, k):
        pool = [(1, 2), (1, 3), (2, 3), (1, 1), (3, 5), (1, 4), (0, 1)]
        return [[pool[(r * kt + t + k) % len(pool)] for t in range(kt)] for r in range(kr)]

    def eye(kr, kt):          # np.eye(kr, kt): every cross link blocked (path loss exactly 0)
        return [[(1, 1) if r == t else (0, 1) for t in range(kt)] for r in range(kr)]
    mu_sets = [("two01", (0, 0), (2, 2)), ("collide", (0, 0), (2, 3)), ("two02", (2, 1), (2, 2)), ("late", (1, 2), (1, 2))] + \
              ([("three013", (2, 3), (2, 2)), ("ties", (0, 0), (3, 2)), ("unsorted", (2, 2), (2, 1)), ("flat", (2, 3), (2, 3))]
               if thorough else [])
    for i, (name, ant, users) in enumerate(mu_sets):
        mem = mem_of(PROFILES[name])
        ops = time_ops(3, 4)[:3] + freq_ops(mem, rot + 13 * i + 1, 2, lin=thorough and i % 2 == 0)
        ops += [op("PL", n=1), op("PL", n=2), op("PL", n=0)] + ([op("PL", n=3)] if thorough else []) + dirs
        add("mu", name, ant, users=users, variant=i, ops=ops,
            pls=[plm(users[0], users[1], i), eye(users[0], users[1])] + ([plm(users[0], users[1], 3 + i)] if thorough else []),
            maxpos=8 if not thorough else 12, ts="dec" if name in TIE_FREE and i % 2 else "one")
    # --- default construction routes (generator only: the wrapper builds the flat channel) and antenna numbers changed
    #     between transmissions (set_num_antennas after calls, (None, None) = back to SISO)
    ant_ops = [op("Ant", n=1), op("Ant", n=2)]
    add("su", "flat", (0, 0), ants=[(0, 0), (2, 1)], pls=su_pls[:2], default_route=True, variant=1, maxpos=6,
        ops=[op("T", 1, 2), op("T", 4, 3), op("T", 1, 0), op("F", 2, 1, 2, "array", [0]), op("F", 1, 1, 4, "slice", sl(None, None, -3)),
             op("PL", n=1), op("PL", n=2), op("PL", n=0)] + ant_ops + dirs)
    add("mu", "flat", (0, 0), users=(2, 2), pls=[eye(2, 2)], default_route=True, variant=0, maxpos=6,
        ops=[op("T", 1, 3), op("T", 4, 2), op("T", 2, 0), op("F", 1, 1, 4, "list", [1, 3]), op("PL", n=1), op("PL", n=0)] + dirs)
    add("tdl", "two02", (0, 0), ants=[(0, 0), (1, 2)], variant=8, maxpos=8, ts="dy",
        ops=[op("T", 1, 3), op("T", 2, 2), op("F", 1, 1, 4, "slice", sl(0, 4, 3)), op("Gen", 0, 1)] + ant_ops + dirs)
    # --- multi-user, Kr != Kt, switched direction, every slice geometry (star)
    add("mu", "two01", (0, 0), users=(2, 3), pls=[plm(2, 3, 1)], variant=1, maxpos=4,
        ops=[op("F", 1 + q % 2, 1, 4, k, v) for q, (k, v) in enumerate(SEL4) if k == "slice"] + [op("PL", n=1)] + dirs)
    # --- every selection geometry on a cheap SISO channel (star: one call from the fresh object)
    sweep4 = [op("F", 1, 1, 4, k, v) for k, v in SEL4] + [op("F", 2, 2, 4, k, v) for k, v in SEL4[4:]]
    add("tdl", "two01", (0, 0), ops=sweep4 + [op("T", 1, 2)], variant=1, maxpos=10)
    add("tdl", "flat", (2, 1), ops=[op("F", 1, 2, 2, k, v) for k, v in SEL2] + [op("F", 2, 3, 1, k, v) for k, v in SEL1] + dirs,
        variant=2, maxpos=6)
    # fft 8 (exact in Q(zeta_8)): memory-4 profile on SISO, 4 taps on 1x2 with both directions
    add("tdl", "deep", (0, 0), ops=[op("F", 1 + q % 2, 1, 8, k, v) for q, (k, v) in enumerate(SEL8)] + [op("F", 3, 1, 8, *SEL8[1])],
        variant=0, maxpos=8, ts="dy")
    add("tdl", "four", (1, 2), ops=[op("F", 1, 1, 8, *SEL8[1]), op("F", 2, 1, 8, *SEL8[3]), op("F", 1, 1, 8, *SEL8[7]), op("T", 1, 3)] + dirs,
        variant=4, maxpos=11)
    if thorough:
        # every slice(start, stop, step) over fft 4 with start/stop in {None, -5..5}, step in {None, +-1, +-2, +-3}
        vals = [None, -5, -4, -3, -2, -1, 0, 1, 2, 3, 4, 5]
        allsl = [op("F", 1 + (a is None), 1, 4, "slice", sl(a, b, c)) for a in vals for b in vals
                 for c in (None, 1, 2, 3, -1, -2, -3) if len(range(*slice(a, b, c).indices(4))) > 0]
        for q in range(0, len(allsl), 60):
            add("tdl", "three013" if q % 120 else "ties", (0, 0), ops=allsl[q:q + 60], variant=q, maxpos=4, ts="dy")
        # every slice(start, stop, step) over fft 8 with start/stop in {None, 0..8} (exact in Q(zeta_8))
        vals8 = [None] + list(range(0, 9))
        allsl8 = [op("F", 1 + (b is None), 1, 8, "slice", sl(a, b, c)) for a in vals8 for b in vals8
                  for c in (None, 1, 2, 3, 5, -1, -2, -3) if len(range(*slice(a, b, c).indices(8))) > 0]
        for q in range(0, len(allsl8), 60):
            add("tdl", "deep" if q % 120 else "four", (0, 0), ops=allsl8[q:q + 60], variant=q, maxpos=8, ts="dy")
        allsl2 = [op("F", 1, 2, 2, "slice", sl(a, b, c)) for a in (None, -2, -1, 0, 1, 2) for b in (None, -3, -1, 0, 1, 2)
                  for c in (None, 1, 2, -1, -2) if len(range(*slice(a, b, c).indices(2))) > 0]
        add("su", "two01", (1, 2), pls=su_pls, ops=allsl2 + [op("PL", n=2), op("PL", n=3)], variant=5, maxpos=4)
    # --- one (shared) profile object discretised for several nearly equal sampling intervals, in every order; taps at and
    #     near half-sample boundaries of the nominal interval (qd = 2, 6, 10, 14), where a few ppm change the integer delay
    dh = [[[2, [1, 2]], [6, [1, 3]], [12, [1, 6]]],
          [[0, [1, 1]], [10, [2, 1]], [5, [1, 2]], [14, [1, 4]]],
          [[6, [3, 1]], [2, [1, 1]]],
          [[1, [1, 1]], [3, [1, 2]], [9, [2, 3]]]]
    for q, prof in enumerate(dh if thorough else dh[:3]):
        cid[0] += 1
        cfgs.append(dhist_cfg(cid[0], prof, "dy" if q % 2 == 0 else "one", SCALES if thorough else SCALES[:4], 3))
    # --- discretisation stars
    if thorough:
        fam = [(1, range(0, 14), [(1, 1), (1, 2), (5, 3)], None, "dy"),
               (2, range(0, 14), [(1, 1), (1, 2), (5, 3), (0, 1)], None, "dy"),
               (3, [0, 2, 3, 6, 9], [(1, 1), (0, 1), (2, 5)], "split", "dy"),
               (3, range(0, 12), [(1, 1), (3, 1), (2, 5)], "split", "dy"),
               (3, [0, 1, 3, 4, 5, 7, 8, 9, 11], [(1, 1), (3, 2)], "split", "dec"),
               (4, [0, 2, 3, 6, 9, 10], [(1, 1), (3, 1)], "split", "dy")]
    else:
        fam = [(1, range(0, 12), [(1, 1), (3, 1)], None, "dy"),
               (2, range(0, 11), [(1, 1), (3, 1), (0, 1)], None, "dy"),
               (2, [0, 1, 3, 4, 5, 7, 8, 9], [(1, 1), (2, 5)], None, "dec"),
               (3, [0, 2, 3, 6, 7, 10], [(1, 1), (3, 1)], "split", "dy")]
    for ntaps, qds, pws, split, ts in fam:
        qds = list(qds)
        if split:
            for q in qds:
                cid[0] += 1
                cfgs.append(disc_cfg(cid[0], ntaps, qds, pws, [q], ts))
        else:
            cid[0] += 1
            cfgs.append(disc_cfg(cid[0], ntaps, qds, pws, qds, ts))
    return cfgs


def tables(seed, tlen, nlinks=6, ntap=4, nant=3, nsig_users=3, maxn=8):
    """fading table and signals: Gaussian integers, time varying, never zero in both parts"""
    rng = np.random.RandomState(1000 + seed)

    def gi(shape):
        a = rng.randint(-2, 3, size=shape + (2,))
        z = (a[..., 0] == 0) & (a[..., 1] == 0)
        a[..., 0][z] = 1
        return a
    return gi((nlinks, ntap, nant, nant, tlen)), gi((2, nsig_users, nant, maxn))


def tla_cfg(c):
    d = {k: v for k, v in c.items() if k not in ("pname", "ts", "variant", "none_route", "default_route")}
    for k, v in (("tss", [[1, 1]]), ("tkeys", [1]), ("maxreq", 0)):
        d.setdefault(k, v)
    return d


def model(cfgs, table, signals, dev=(), emit=True):
    defs = {"Configs": tlc.tla([tla_cfg(c) for c in cfgs]), "Table": tlc.tla(table.tolist()), "Signals": tlc.tla(signals.tolist()),
            "Dev": tlc.tla({d: (d in dev) for d in DEVS})}
    cfg = tlc.cfg_text(constants={"MaxPos": str(table.shape[-2])}, defs=defs, invariants=["TypeOK"], properties=LAWS,
                       action_constraints=["Emit"] if emit else [], view="Core")
    return cfg, defs


# ------------------------------------------------------------------------------ driving the real classes
def make_table_gen():
    from pyphysim.channels import fading_generators

    class TableGen(fading_generators.FadingSampleGenerator):
        """deterministic fading: sample at absolute position p of (link, tap, ra, ta) is table[link, tap, ra, ta, p]"""

        def __init__(self, table, link=0, counter=None, shape=None):
            super().__init__(shape)
            self.table = table
            self.link = link
            self.counter = counter if counter is not None else [0]
            self.pos = 0

        def generate_more_samples(self, num_samples=None):
            n = 1 if num_samples is None else num_samples
            sh = self.shape
            if self.pos + n > self.table.shape[-1]:
                raise IndexError("table generator exhausted (generator advanced further than the model allows)")
            t = self.table[self.link]
            if sh is None:
                d = t[0, 0, 0, self.pos:self.pos + n]
            elif len(sh) == 1:
                d = t[:sh[0], 0, 0, self.pos:self.pos + n]
            else:
                d = t[:sh[0], :sh[1], :sh[2], self.pos:self.pos + n]
            self._samples = np.array(d, dtype=complex)
            self.pos += n

        def skip_samples_for_next_generation(self, num_samples):
            self.pos += num_samples

        def get_similar_fading_generator(self):
            k = self.counter[0]
            self.counter[0] += 1
            return TableGen(self.table, k, self.counter, self._shape)

    return TableGen


TS = {"one": 1.0, "dy": 2.0 ** -20, "dec": 3.25e-8}


def raw_profile_arrays(c):
    ts = TS[c["ts"]]
    dB = np.array([to_dB(p) for _, p in c["prof"]])
    delays = np.array([q / 4.0 for q, _ in c["prof"]]) * ts
    return dB, delays, ts


def build_channel(c, ctable):
    """the real object of configuration c (class and construction route picked by c['variant'])"""
    from pyphysim.channels import fading, singleuser, multiuser
    TableGen = make_table_gen()
    dB, delays, ts = raw_profile_arrays(c)
    v = c["variant"]
    nr, nt = c["ant"]
    mimo = nr != 0
    route = v % 3
    if route == 0:
        kw = dict(tap_powers_dB=dB, tap_delays=delays, Ts=ts)
    elif route == 1:
        kw = dict(channel_profile=fading.TdlChannelProfile(dB, delays, "raw"), Ts=ts)
    else:
        kw = dict(channel_profile=fading.TdlChannelProfile(dB, delays, "raw").get_discretize_profile(ts))
    if c.get("none_route") and not mimo and c["kind"] in ("tdl", "su"):
        # documented route back to SISO: built for 2x2 antennas, then set_num_antennas(None, None)
        cls = fading.TdlChannel if c["kind"] == "tdl" else singleuser.SuChannel
        ch = cls(TableGen(ctable, shape=(2, 2)), **kw)
        ch.set_num_antennas(None, None)
        return ch
    if c["kind"] == "tdl":
        if not mimo:
            return fading.TdlChannel(TableGen(ctable), **kw)
        how = (v // 3) % 3
        if how == 0:
            return fading.TdlMimoChannel(TableGen(ctable, shape=(nr, nt)), **kw)
        if how == 1:
            return fading.TdlChannel(TableGen(ctable, shape=(nr, nt)), **kw)
        ch = fading.TdlChannel(TableGen(ctable), **kw)
        ch.set_num_antennas(nr, nt)
        return ch
    if c.get("default_route") and c["kind"] in ("su", "mu"):
        # "only the fading generator was provided": the wrappers build a flat channel themselves (profile family `flat`)
        if c["kind"] == "su":
            ch = singleuser.SuMimoChannel(max(nr, nt), TableGen(ctable), Ts=ts) if mimo and v % 2 else \
                singleuser.SuChannel(TableGen(ctable), Ts=ts)
            if mimo:
                ch.set_num_antennas(nr, nt)
            return ch
        kr, kt = c["users"]
        n_arg = kr if kr == kt else (kr, kt)
        return multiuser.MuMimoChannel(n_arg, nr, nt, TableGen(ctable), Ts=ts) if mimo else multiuser.MuChannel(n_arg, TableGen(ctable), Ts=ts)
    if c["kind"] == "su":
        if not mimo:
            return singleuser.SuChannel(TableGen(ctable), **kw)
        if (v // 3) % 2 == 0:
            ch = singleuser.SuMimoChannel(max(nr, nt), TableGen(ctable), **kw)
        else:
            ch = singleuser.SuChannel(TableGen(ctable), **kw)
        ch.set_num_antennas(nr, nt)
        return ch
    kr, kt = c["users"]
    n_arg = kr if (kr == kt and v % 2 == 0) else (kr, kt)
    if not mimo:
        return multiuser.MuChannel(n_arg, TableGen(ctable), **kw)
    return multiuser.MuMimoChannel(n_arg, nr, nt, TableGen(ctable), **kw)


ZETA8 = np.exp(2j * np.pi * np.arange(4) / 8)


def gval(a):
    """nested lists of exact values -> complex ndarray.  GRat triples <<re, im, den>>, or elements of Q(zeta_8)
    <<c0, c1, c2, c3, den>> = sum_j c_j exp(2 pi i j / 8) / den (the only trusted numeric step)"""
    a = np.array(a, dtype=float)
    if a.size == 0:
        return np.zeros(a.shape, dtype=complex)          # zero samples (empty input)
    if a.shape[-1] == 5:
        return a[..., :4].dot(ZETA8) / a[..., 4]
    return (a[..., 0] + 1j * a[..., 1]) / a[..., 2]


REAL_DTYPES = [np.int64, np.float64, np.int32, np.float32, np.int8]


def signal_for(c, ant, csig, o, direction, length, step):
    """the input of call o: users x antennas x length (signal 3 = signal 1 + i signal 2, signal 4 = Re(signal 1)).
    The VALUES are the specification's; the array FORM rotates with the step number (C / Fortran order, strided view of a
    wider buffer, read-only, complex64, integer and real dtypes for the real signal, a list of per-user arrays for the
    multi-user classes): the expected output does not depend on it."""
    nr, nt = ant
    kr, kt = c["users"]
    inu = kr if direction else kt
    ina = (nr if direction else nt) or 1
    s = o["s"]
    x = csig[0] + 1j * csig[1] if s == 3 else csig[0].real if s == 4 else csig[s - 1]
    x = np.array(x[:inu, :ina, :length], dtype=complex if s != 4 else float)
    if c["kind"] != "mu":
        x = x[0]
        if nr == 0 or (ina == 1 and step % 2 == 1):
            x = x[0]               # SISO, or 1-D input accepted for a single input antenna
    elif nr == 0:
        x = x[:, 0, :]
        if inu == 1 and step % 2 == 1:
            x = x[0]
    form = step % 5
    if s == 4:
        x = x.astype(REAL_DTYPES[step % len(REAL_DTYPES)])
    elif form == 4 and c["kind"] != "mu":
        x = x.astype(np.complex64)          # Gaussian integers are exact in single precision
    if form == 1:
        x = np.asfortranarray(x)
    elif form == 2:
        wide = np.zeros(x.shape[:-1] + (2 * x.shape[-1] + 1,), dtype=x.dtype)
        wide[..., 1::2] = x
        x = wide[..., 1::2]                 # non-contiguous view
    elif form == 3:
        x = x.copy()
        x.setflags(write=False)
    elif form == 4 and c["kind"] == "mu" and x.ndim >= 2 and x.shape[0] > 1:
        x = [np.array(row) for row in x]    # one array per transmitter
    return x


def snapshot(v):
    """a deep copy of an argument / result for later bit-exact comparison"""
    if isinstance(v, list) or (isinstance(v, np.ndarray) and v.dtype == object):
        return [np.array(a, copy=True) for a in v]
    return np.array(v, copy=True)


def unchanged(v, snap):
    if isinstance(snap, list):
        return len(v) == len(snap) and all(unchanged(a, b) for a, b in zip(v, snap))
    v = np.asarray(v)
    return v.shape == snap.shape and v.dtype == snap.dtype and bool(np.array_equal(v, snap))


def arrays_of(v):
    return list(v) if isinstance(v, list) or (isinstance(v, np.ndarray) and v.dtype == object) else [v]


def selection_for(o):
    k, v = o["sk"], o["sel"]
    if k == "none":
        return None
    if k == "slice":
        return slice(*[None if q == NONE else q for q in v])
    if k == "list":
        return list(v)
    return np.array(v, dtype=int)


def close(a, b):
    a = np.asarray(a)
    b = np.asarray(b)
    return a.shape == b.shape and bool(np.all(np.abs(a - b) <= TOL * np.maximum(1.0, np.abs(b))))


def check_ir(ir, exp_link, delays, mem, siso, nsamp, fr=None, fft=None):
    """reported TdlImpulseResponse vs the emitted response of one link; None or a description"""
    want = gval(exp_link)                       # taps x NR x NT x samples
    if siso:
        want = want[:, 0, 0, :]
    got = ir.tap_values_sparse
    if not close(got, want):
        return "reported tap_values_sparse differ from sqrt(path loss) * sqrt(tap power) * fading samples of this transmission"
    if list(np.asarray(ir.tap_indexes_sparse).tolist()) != list(delays):
        return f"reported tap indexes {list(ir.tap_indexes_sparse)} differ from the discretised delays {delays}"
    if ir.num_samples != nsamp:
        return f"reported response has {ir.num_samples} samples, expected {nsamp}"
    dense = ir.tap_values
    if dense.shape[0] != mem + 1:
        return f"dense response has {dense.shape[0]} taps, expected memory+1 = {mem + 1}"
    z = np.ones(mem + 1, dtype=bool)
    z[list(delays)] = False
    if not close(dense[list(delays)], want) or np.abs(dense[z]).max(initial=0) != 0:
        return "dense tap_values are not the sparse taps placed at their delays"
    if fr is not None:
        wfr = gval(fr)                          # fft x NR x NT x blocks
        if siso:
            wfr = wfr[:, 0, 0, :]
        if not close(ir.get_freq_response(fft), wfr):
            return "get_freq_response differs from the DFT of the reported response"
    return None


def links_of(c):
    kr, kt = c["users"]
    return [(r, t) for r in range(kr) for t in range(kt)]


def read_ir(c, ch, r, t):
    return ch.get_last_impulse_response(r, t) if c["kind"] == "mu" else ch.get_last_impulse_response()


def is_slice_defect(e):
    o = e["op"]
    return o["k"] == "F" and o["sk"] == "slice" and e["exp"]["fdbs"] != len(e["exp"]["sel"])


def is_plnone_defect(c, e):
    return c["kind"] == "mu" and e["op"]["k"] == "PL" and e["op"]["n"] == 0


def run_path(job):
    """job = (cfg, table, signals, edges) -> (steps_ok, [violation dicts], [finding dicts])"""
    c, ctable, csig, edges = job
    viol, finds = [], []
    okc = 0
    try:
        ch = build_channel(c, ctable)
    except Exception as ex:
        return 0, [{"step": -1, "what": f"constructing the channel raised {type(ex).__name__}: {ex}"}], []
    kept = []          # (step, what, live object, snapshot): arguments and results handed over so far (frame conditions)

    def frame_check(i):
        for (j, name, live, snap) in kept:
            if not unchanged(live, snap):
                return (f"{name} of step {j} changed during step {i}" if j != i else f"{name} was modified by the call")
        return None
    if c.get("none_route") and (ch.num_rx_antennas != -1 or ch.num_tx_antennas != -1):
        # set_num_antennas(None, None) did not bring the channel back to SISO (num_*_antennas report -1 for SISO)
        return 0, [], [{"id": "SetNumAntennasNoneRaises", "step": 0,
                        "what": f"after set_num_antennas(None, None) the channel reports {ch.num_rx_antennas} x {ch.num_tx_antennas} "
                                f"antennas instead of SISO (-1); the next transmission raises TypeError"}]
    # before any transmission there is no impulse response
    try:
        read_ir(c, ch, 0, 0)
        viol.append({"step": -1, "what": "get_last_impulse_response returned something before any transmission"})
    except RuntimeError:
        pass
    except Exception as ex:
        viol.append({"step": -1, "what": f"get_last_impulse_response before any transmission raised {type(ex).__name__}"})
    for i, e in enumerate(edges):
        o, exp, pre = e["op"], e["exp"], e["pre"]
        k = o["k"]
        what = None
        ant = c["ants"][pre["ai"] - 1]
        siso = ant[0] == 0
        try:
            if k == "Ant":
                nr_, nt_ = c["ants"][o["n"] - 1]
                if nr_ == 0:
                    ch.set_num_antennas(None, None)
                else:
                    ch.set_num_antennas(nr_, nt_)
                if (ch.num_rx_antennas, ch.num_tx_antennas) != ((nr_, nt_) if nr_ else (-1, -1)):
                    what = f"after set_num_antennas the channel reports {ch.num_rx_antennas} x {ch.num_tx_antennas} antennas"
            elif k == "Dir":
                ch.switched_direction = bool(o["n"])
                if ch.switched_direction != bool(o["n"]):
                    what = "switched_direction does not read back"
            elif k == "PL":
                # value forms rotate with the step: float / int for whole numbers (0 and 1 are valid path losses)
                if o["n"] == 0:
                    ch.set_pathloss(None)
                elif c["kind"] == "su":
                    v = Fraction(*c["pls"][o["n"] - 1][0][0]) ** 2
                    ch.set_pathloss(int(v) if (v.denominator == 1 and i % 2) else float(v))
                else:
                    m = [[Fraction(*a) ** 2 for a in row] for row in c["pls"][o["n"] - 1]]
                    whole = all(v.denominator == 1 for row in m for v in row)
                    ch.set_pathloss(np.array(m, dtype=int) if (whole and i % 2) else np.array(m, dtype=float))
            elif k == "Gen":
                if o["n"] == 1:
                    ch.generate_impulse_response()          # default: one sample
                else:
                    ch.generate_impulse_response(o["n"])
                what = check_ir(ch.get_last_impulse_response(), exp["ir"][0][0], exp["delays"], exp["mem"], siso, o["n"])
            elif k in ("T", "F"):
                want = gval(exp["y"])               # out users x out antennas x length
                length = o["n"] if k == "T" else o["n"] * len(exp["sel"])
                x = signal_for(c, ant, csig, o, pre["dir"], length, i)
                kept.append((i, "the input array", x, snapshot(x)))
                if k == "T":
                    y = ch.corrupt_data(x)
                else:
                    y = ch.corrupt_data_in_freq_domain(x, o["fft"], selection_for(o))
                kept.append((i, "the returned signal", y, snapshot(y)))
                if any(np.shares_memory(a, b) for a in arrays_of(y) for b in arrays_of(x)):
                    what = "the returned signal shares memory with the input array"
                if c["kind"] == "mu":
                    if len(y) != want.shape[0]:
                        what = f"{len(y)} receivers in the output, expected {want.shape[0]}"
                    else:
                        for u in range(want.shape[0]):
                            w = want[u, 0] if siso else want[u]
                            if not close(y[u], w):
                                what = (f"receiver {u}: output (shape {np.shape(y[u])}) differs from the superposition of the "
                                        f"links' convolutions (expected shape {w.shape})")
                                break
                else:
                    w = want[0, 0] if siso else want[0]
                    if not close(y, w):
                        what = (f"output (shape {np.shape(y)}) differs from the convolution with the response of this "
                                f"transmission (expected shape {w.shape}, length input+memory)" if k == "T" else
                                f"output (shape {np.shape(y)}) differs from DFT(response)[selection] x input per block "
                                f"(expected shape {w.shape})")
                if what is None:
                    for (r, t) in links_of(c):
                        ir = read_ir(c, ch, r, t)
                        d = check_ir(ir, exp["ir"][r][t], exp["delays"], exp["mem"], siso, o["n"],
                                     fr=exp["fr"][r][t] if k == "F" else None, fft=o["fft"] if k == "F" else None)
                        if d:
                            what = f"link rx{r} tx{t}: {d}"
                            break
                        kept.append((i, f"the reported response of link rx{r} tx{t}", ir.tap_values_sparse, snapshot(ir.tap_values_sparse)))
                        if any(np.shares_memory(a, ir.tap_values_sparse) for a in arrays_of(y)):
                            what = "the returned signal shares memory with the reported response"
            if what is None:
                what = frame_check(i)
        except Exception as ex:
            desc = f"{k} raised {type(ex).__name__}: {ex}"
            if k == "F" and is_slice_defect(e) and isinstance(ex, (ValueError, ZeroDivisionError)):
                finds.append({"id": "SliceBlockSizeFloorDiv", "step": i, "what": desc + f" for selection {selection_for(o)} "
                              f"(selected {len(exp['sel'])} carriers, (stop-start)//step = {exp['fdbs']})"})
                break
            if c.get("none_route") and isinstance(ex, TypeError) and "NoneType" in str(ex):
                finds.append({"id": "SetNumAntennasNoneRaises", "step": i,
                              "what": f"after set_num_antennas(None, None) (documented: SISO) {desc}"})
                break
            if is_plnone_defect(c, e) and isinstance(ex, TypeError):
                finds.append({"id": "MuSetPathlossNoneRaises", "step": i, "what": "MuChannel.set_pathloss(None) raised TypeError"})
                break
            what = desc
        if what:
            viol.append({"step": i, "op": o, "what": what})
            break
        okc += 1
    return okc, viol, finds


def run_dhist(job):
    """job = (cfg, [emitted DiscS edges of one history]) -> (n_ok, [descriptions]).  ONE raw TdlChannelProfile object is
    discretised for the history's sampling intervals - directly, and through the constructors of the channel classes -
    and every result is compared with the emitted discretisation for ITS interval; the raw profile and the results
    returned earlier must stay unchanged."""
    from pyphysim.channels import fading, singleuser, multiuser
    c, path = job
    TableGen = make_table_gen()
    dB = np.array([to_dB(p) for _, p in c["prof"]])
    delays = np.array([q / 4.0 for q, _ in c["prof"]]) * TS[c["ts"]]
    okc, kept = 0, []
    try:
        raw = fading.TdlChannelProfile(dB, delays, "shared")
        raw0 = (np.array(raw.tap_delays), np.array(raw.tap_powers_dB))
        for i, e in enumerate(path):
            t = e["op"]["t"]
            ts = ts_of(c, t)
            how = (i + t + c["id"]) % 4
            if how == 0:
                d = raw.get_discretize_profile(ts)
            elif how == 1:
                d = fading.TdlChannel(TableGen(np.zeros((1, 1, 1, 1, 1), dtype=complex)), channel_profile=raw, Ts=ts).channel_profile
            elif how == 2:
                d = singleuser.SuChannel(TableGen(np.zeros((1, 1, 1, 1, 1), dtype=complex)), channel_profile=raw, Ts=ts).channel_profile
            else:
                d = multiuser.MuChannel(2, TableGen(np.zeros((1, 1, 1, 1, 1), dtype=complex)), channel_profile=raw, Ts=ts).channel_profile
            want_d = e["exp"]["disc"]["delays"]
            want_p = np.array([Fraction(*q) for q in e["exp"]["disc"]["powers"]], dtype=float)
            got_d = np.asarray(d.tap_delays)
            hist = [x["op"]["t"] for x in path[:i]]
            where = f"request {i + 1} (interval {c['tss'][t - 1][0]}/{c['tss'][t - 1][1]} x Ts = {ts!r}, after requests for {[ts_of(c, u) for u in hist]})"
            if got_d.dtype.kind not in "iu" or got_d.tolist() != list(want_d):
                return okc, [f"{where}: discretised delays {got_d.tolist()} differ from the unique sorted nearest-even delays {want_d} for THIS interval"]
            if not close(d.tap_powers_linear, want_p):
                return okc, [f"{where}: discretised powers {np.asarray(d.tap_powers_linear).tolist()} differ from {want_p.tolist()}"]
            if d.Ts != ts or d.num_taps_with_padding != want_d[-1] + 1:
                return okc, [f"{where}: Ts / num_taps_with_padding of the discretised profile are wrong"]
            if raw.is_discretized or not (np.array_equal(raw.tap_delays, raw0[0]) and np.array_equal(raw.tap_powers_dB, raw0[1])):
                return okc, [f"{where}: the raw profile object was changed by the discretisation"]
            for (j, dj, snap) in kept:
                if not (np.array_equal(dj.tap_delays, snap[0]) and np.array_equal(dj.tap_powers_linear, snap[1]) and dj.Ts == snap[2]):
                    return okc, [f"{where}: the profile returned by request {j + 1} changed"]
            kept.append((i, d, (np.array(d.tap_delays), np.array(d.tap_powers_linear), d.Ts)))
            okc += 1
    except Exception as ex:
        return okc, [f"discretising a shared profile raised {type(ex).__name__}: {ex}"]
    return okc, []


def run_disc(job):
    """job = (cfg, [emitted disc cases]) -> (n_ok, violations)"""
    from pyphysim.channels import fading
    c, cases = job
    ts = TS[c["ts"]]
    viol, finds = [], []
    okc = 0
    for e in cases:
        prof = e["op"]["prof"]
        dB = np.array([to_dB(p[1]) for p in prof])
        delays = np.array([p[0] / 4.0 for p in prof]) * ts
        want_d = e["exp"]["disc"]["delays"]
        want_p = np.array([Fraction(*q) for q in e["exp"]["disc"]["powers"]], dtype=float)
        what = None
        try:
            raw = fading.TdlChannelProfile(dB, delays, "p")
            d = raw.get_discretize_profile(ts)
            got_d = np.asarray(d.tap_delays)
            if got_d.dtype.kind not in "iu":
                what = f"discretised delays are not integers (dtype {got_d.dtype})"
            elif got_d.tolist() != list(want_d):
                what = f"discretised delays {got_d.tolist()} differ from unique sorted nearest-even {want_d}"
            elif not close(d.tap_powers_linear, want_p):
                what = f"discretised powers {d.tap_powers_linear.tolist()} differ from merged normalised powers {want_p.tolist()}"
            elif abs(float(np.sum(d.tap_powers_linear)) - 1) > TOL:
                what = "discretised powers do not sum to one"
            elif not close(10 ** (np.asarray(d.tap_powers_dB) / 10), want_p):
                what = "tap_powers_dB of the discretised profile is inconsistent with its linear powers"
            elif d.Ts != ts or not d.is_discretized or raw.is_discretized or d.num_taps != len(want_d) \
                    or d.num_taps_with_padding != want_d[-1] + 1:
                what = "Ts / num_taps / num_taps_with_padding of the discretised profile are wrong"
            else:
                try:
                    d.get_discretize_profile(ts)
                    what = "discretising a discretised profile did not raise"
                except RuntimeError:
                    pass
        except Exception as ex:
            what = f"get_discretize_profile raised {type(ex).__name__}: {ex}"
            if isinstance(ex, ValueError) and "math domain error" in str(ex) and len({p[0] for p in prof}) == 1:
                finds.append({"id": "ProfileRmsSqrtDomain", "prof": prof, "ts": c["ts"], "exp": e["exp"],
                              "what": f"TdlChannelProfile({dB.tolist()}, {delays.tolist()}) raised ValueError: {ex} "
                                      f"(all taps at one delay: the variance rounds below zero)"})
                continue
        if what:
            viol.append({"what": what, "prof": prof, "ts": c["ts"], "exp": e["exp"]})
        else:
            okc += 1
    return okc, viol, finds


# ------------------------------------------------------------------------------ planning
ROOT = {"gpos": 0, "dir": False, "pl": 0, "has": False, "ai": 1, "reqs": []}


def plan_paths(c, edges, rng, mode):
    """paths (lists of edges) from the fresh object covering every emitted transition; a transition with the
    signature of a listed deviation ends its path (the real call may raise), followed by one continuation edge
    that is executed only when the call succeeds"""
    plan = []
    for i, e in enumerate(edges):
        dead = is_slice_defect(e) or is_plnone_defect(c, e)
        plan.append({"pre": e["pre"], "post": {"sink": i} if dead else e["post"], "i": i})
    g = graph.Graph(plan, label=lambda e: str(e["i"]))
    root = graph.key(ROOT)
    if root not in g.out:
        return []
    paths = g.transition_cover(root, max_len=mode.get("max_len", 10), rng=rng)
    if mode.get("depth"):
        paths += g.all_paths(root, mode["depth"], limit=mode.get("limit"))
    if mode.get("walks"):
        paths += g.random_walks(root, mode["walks"], mode.get("walk_len", 8), rng)
    by_pre = {}
    for e in edges:
        by_pre.setdefault(graph.key(e["pre"]), []).append(e)
    res = []
    seen = set()
    for p in paths:
        idx = [pe["i"] for pe in g.path_edges(p)]
        if tuple(idx) in seen:
            continue
        seen.add(tuple(idx))
        es = [edges[i] for i in idx]
        last = es[-1]
        if is_slice_defect(last) or is_plnone_defect(c, last):
            cont = [e for e in by_pre.get(graph.key(last["post"]), []) if e["op"]["k"] == "T"]
            if cont:
                es = es + [cont[0]]
        res.append(es)
    return res


def partition(cfgs, nparts):
    """split configurations into TLC processes of similar estimated cost"""
    def cost(c):
        if c["kind"] == "dhist":
            return 0.3
        if c["kind"] == "disc":
            return 0.002 * (len(c["qds"]) * len(c["pws"])) ** max(c["ntaps"] - 1, 0) * len(c["q1"]) * len(c["pws"]) + 0.05
        nr, nt = [x or 1 for x in c["ant"]]
        kr, kt = c["users"]
        kinds = {o["k"] for o in c["ops"]}
        states = max(1.0, c["maxpos"] / 2.5) * (2 if "Dir" in kinds else 1) * ((len(c["pls"]) + 1) if "PL" in kinds else 1)
        per_edge = 0.004 + 0.0012 * nr * nt * kr * kt * len(c["prof"]) * (2 if any(o["fft"] == 8 for o in c["ops"]) else 1)
        return 0.03 + states * len(c["ops"]) * 0.6 * per_edge
    parts = [[] for _ in range(nparts)]
    load = [0.0] * nparts
    for c in sorted(cfgs, key=cost, reverse=True):
        j = load.index(min(load))
        parts[j].append(c)
        load[j] += cost(c)
    return [p for p in parts if p]


def law_failed(out):
    import re
    m = re.findall(r'"LAWFAIL", "(\w+)"', out)
    return m[0] if m else None


DEV_EXPECT = {  # flag -> (violated property, LAWFAIL name or None)
    "DiscRoundHalfUp": ("DiscLaw", None), "DiscMergeKeepsLast": ("DiscLaw", None), "DiscNoNormalise": ("DiscLaw", None),
    "NoSkipBetweenBlocks": ("PosLaw", None), "PathlossNotInReported": ("ChanLaw", "Reported"),
    "ShiftByTapIndex": ("ChanLaw", "Conv"), "SwitchedNotTransposed": ("ChanLaw", "Conv"), "TailDropped": ("ChanLaw", "Len"),
    "SliceBlockSizeFloorDiv": ("BlockLaw", None), "MuSetPathlossNoneRaises": ("SetLaw", None),
    "PathlossZeroIsNone": ("ChanLaw", "Conv"), "OutputBufferReused": ("FrameLaw", "EarlierResultsUnchanged"),
    "ArgumentScaledInPlace": ("FrameLaw", "ArgumentsUnchanged"), "DiscMemoRoundedTs": ("SharedLaw", None)}


def dev_models(table, signals):
    ops = [op("T", 1, 3), op("T", 2, 3), op("T", 3, 3), op("F", 1, 2, 4), op("F", 2, 1, 4, "slice", sl(0, 4, 3)),
           op("F", 2, 2, 4, "array", [3, 0, 2]), op("Dir", n=1), op("Dir", n=0), op("PL", n=1), op("PL", n=2), op("PL", n=0)]
    su = base_cfg(1, "su", "two02", (2, 2), pls=[[[(1, 2)]], [[(0, 1)]]], ops=ops)
    mu = base_cfg(1, "mu", "two01", (0, 0), users=(2, 2), pls=[[[(1, 2), (1, 3)], [(2, 3), (1, 1)]], [[(1, 1), (0, 1)], [(0, 1), (1, 1)]]],
                  ops=ops)
    dc = disc_cfg(1, 3, [0, 1, 2, 5, 6], [(1, 1), (3, 1)], [0, 2, 6], "dy")
    # a SISO single-user configuration is enough (and much cheaper) for everything that is not about antenna indices
    small = base_cfg(1, "su", "two02", (0, 0), pls=[[[(1, 2)]], [[(0, 1)]]], maxpos=8,
                     ops=[op("T", 1, 2), op("T", 2, 2), op("F", 1, 2, 4), op("F", 2, 1, 4, "slice", sl(0, 4, 3)), op("PL", n=1), op("PL", n=2)])
    dh = dhist_cfg(1, [[2, [1, 2]], [6, [1, 3]], [12, [1, 6]]], "dy", SCALES[:3], 2)
    return {d: [dh] if d == "DiscMemoRoundedTs" else [dc] if d.startswith("Disc") else [mu] if d.startswith("Mu") else [su] if d == "SwitchedNotTransposed" else [small]
            for d in DEVS}


def dev_runs(table, signals):
    """every deviation flag alone (model only, no emission)"""
    def one(kv):
        cfg, defs = model(kv[1], table, signals, dev=[kv[0]], emit=False)
        return kv[0], tlc.run(MODULE, cfg, defs=defs, heap="1g")
    with ThreadPoolExecutor(min(3, TLC_PAR)) as ex:
        return list(ex.map(one, dev_models(table, signals).items()))


def account_devs(ctx, res):
    """... each must be refuted by TLC with the law named for it"""
    for d, r in res:
        prop, law = DEV_EXPECT[d]
        if r.violated != prop or (law and law_failed(r.out) != law):
            raise tlc.TlcError(f"deviation {d}: expected TLC to refute {prop}/{law}, got {r.violated}/{law_failed(r.out)}")
        ctx.account(r, MODULE, f"dev:{d}", expect_violation=prop)
        ctx.notes.setdefault("deviations_refuted_by_model", {})[d] = prop + (f".{law}" if law else "")


ACTION_OF = {"T": "Transmit", "F": "TransmitFreq", "Gen": "GenerateIR", "Dir": "SetDirection", "PL": "SetPathloss", "Ant": "SetAntennas", "DiscS": "DiscretizeShared",
             "Disc": "DiscretizeCase"}


# ------------------------------------------------------------------------------ the check
def model_phase(ctx, cfgs, table, signals):
    """stage M + emission: TLC on every partition of the configurations and on every deviation; -> {cid: [edges]}"""
    import pickle
    cache = os.environ.get("VERIF_C03_CACHE")          # builder's development aid only (skips TLC on unchanged inputs)
    cfile = os.path.join(cache, f"{ctx.tier}-{ctx.seed}.pkl") if cache else None
    if cfile and os.path.exists(cfile):
        saved = pickle.load(open(cfile, "rb"))
        ctx.states, ctx.transitions, ctx.model_runs = saved["states"], saved["transitions"], saved["model_runs"]
        ctx.notes.update(saved["notes"])
        return saved["edges"]
    parts = partition(cfgs, 14)

    def run_part(p):
        cfg, defs = model(p, table, signals)
        return tlc.run(MODULE, cfg, defs=defs, timeout=1500, heap="1500m")
    with ThreadPoolExecutor(TLC_PAR) as ex:
        futs = [ex.submit(run_part, p) for p in parts]
        devf = ex.submit(dev_runs, table, signals)
        runs = [f.result() for f in futs]
        devres = devf.result()
    account_devs(ctx, devres)
    edges = {}
    for r in runs:
        if r.violated:
            raise tlc.TlcError(f"specification {MODULE} violates its own law {r.violated}/{law_failed(r.out)}:\n{r.trace_text[:3000]}")
        ctx.account(r, MODULE, "emit")
        for e in r.emitted:
            edges.setdefault(e["cid"], []).append(e)
    if cfile:
        os.makedirs(cache, exist_ok=True)
        pickle.dump({"states": ctx.states, "transitions": ctx.transitions, "model_runs": ctx.model_runs, "notes": dict(ctx.notes),
                     "edges": edges}, open(cfile, "wb"))
    return edges


def run(ctx):
    thorough = ctx.tier == "thorough"
    ctx.rule = ("TLC enumerates, per configuration, the complete graph (generator position x direction x path loss) within the "
                "table length and every discretisation profile of the stated domains; every transition is executed on the real "
                "class after a covering history; distinct = (configuration, state, call) triples")
    ctx.assumptions += ["fading samples come from a table-driven FadingSampleGenerator subclass (public extension point)",
                        "a response longer than the fft size must alias onto delay mod fft (the DFT of the reported response)",
                        "exact fft sizes 1, 2, 4 (Gaussian rationals) and 8 (Q(zeta_8), lib/Cyc2); half-sample ties only with dyadic "
                        "sampling intervals",
                        "tolerance 1e-9 relative"]
    cfgs = configs_for(ctx.tier, ctx.seed)
    # set_num_antennas(None, None) is documented to return to SISO but leaves a (taps, None, None) generator shape on the
    # current tree (notes/C03.md, proposed repair notes/fixes/C03-SetNumAntennasNoneRaises.patch).  The construction route that
    # uses it is exercised only once the deviation is listed in known_findings.json (open: reported as known; fixed: must conform).
    if "SetNumAntennasNoneRaises" in ctx.findings:
        for c in cfgs:
            if c["kind"] in ("tdl", "su") and c["ant"][0] == 0 and c["id"] % 3 == 0:
                c["none_route"] = True
    tlen = max(c["maxpos"] for c in cfgs)
    table, signals = tables(ctx.seed, tlen, maxn=16 if thorough else 8)
    ctable = (table[..., 0] + 1j * table[..., 1]).astype(complex)
    csig = (signals[..., 0] + 1j * signals[..., 1]).astype(complex)
    by_id = {c["id"]: c for c in cfgs}

    edges = model_phase(ctx, cfgs, table, signals)
    rng = random.Random(ctx.seed)
    mode = {"depth": 3, "limit": 400, "walks": 60, "walk_len": 8, "max_len": 12} if thorough else {"walks": 6, "walk_len": 6}
    jobs, djobs, hjobs = [], [], []
    for cid, es in sorted(edges.items()):
        c = by_id[cid]
        # de-duplicate (TLC may print a transition twice)
        uniq = {}
        for e in es:
            uniq.setdefault(graph.key(e["pre"]) + graph.key(e["op"]), e)
        es = list(uniq.values())
        for e in es:
            # TLC's -coverage cost model does not terminate in reasonable memory on this module (deeply nested operator
            # applications); the emission constraint prints every transition TLC takes, which is the same evidence
            a = ACTION_OF[e["op"]["k"]]
            ctx.actions[a] = ctx.actions.get(a, 0) + 1
        if c["kind"] == "disc":
            for q in range(0, len(es), 400):
                djobs.append((c, es[q:q + 400]))
            continue
        if c["kind"] == "dhist":
            for e in es:
                ctx.distinct.add((cid, graph.key(e["pre"]), graph.key(e["op"])))
            g = graph.Graph([{"pre": e["pre"], "post": e["post"], "i": q} for q, e in enumerate(es)], label=lambda e: str(e["i"]))
            for pth in g.transition_cover(graph.key(ROOT), max_len=8, rng=rng):
                hjobs.append((c, [es[pe["i"]] for pe in g.path_edges(pth)]))
            continue
        for e in es:
            ctx.distinct.add((cid, graph.key(e["pre"]), graph.key(e["op"])))
        for p in plan_paths(c, es, rng, mode):
            jobs.append((c, ctable, csig, p))
    ctx.require_actions(sorted(ACTION_OF.values()))
    if not jobs or not djobs:
        raise tlc.TlcError("TLC emitted no channel transitions or no discretisation cases")
    res = pool_map(run_path, jobs, chunksize=max(1, len(jobs) // 128))
    seen_finds = set()
    for job, (okc, viol, finds) in zip(jobs, res):
        ctx.ok(n=okc)
        ctx.trace_done()
        c = job[0]
        case = {"kind": "path", "cfg": c, "seed": ctx.seed, "tlen": tlen, "maxn": int(signals.shape[-2]), "path": job[3]}
        for f in finds:
            # one hit per distinct failing input (class family, call), however many histories reach it
            sig = (f["id"], c["kind"], c["ant"][0] == 0, graph.key(job[3][f["step"]]["op"]))
            if sig not in seen_finds:
                seen_finds.add(sig)
                ctx.finding(f["id"], f"{c['kind']}/{c['pname']}/ant{c['ant']}: {f['what']}", case)
        for v in viol[:1]:
            ctx.violation(f"{c['kind']}/{c['pname']}/ant{c['ant']}/users{c['users']}: step {v['step']} {v.get('op', '')}: {v['what']}", case)
    if not hjobs:
        raise tlc.TlcError("TLC emitted no shared-profile discretisation histories")
    for job, (okc, viol) in zip(hjobs, pool_map(run_dhist, hjobs, chunksize=max(1, len(hjobs) // 32))):
        ctx.ok(n=okc)
        ctx.trace_done()
        for v in viol[:1]:
            ctx.violation(f"shared profile {job[0]['prof']} (Ts {job[0]['ts']}): {v}",
                          {"kind": "dhist", "cfg": job[0], "path": job[1]})
    ctx.notes["shared_profile_histories"] = len(hjobs)
    dres = pool_map(run_disc, djobs)
    for job, (okc, viol, finds) in zip(djobs, dres):
        ctx.ok(n=okc)
        for f in finds:
            ctx.finding(f["id"], f["what"], {"kind": "disc", "cfg": job[0], "case": f})
        for v in viol[:3]:
            ctx.violation(f"discretise {v['prof']} (Ts {v['ts']}): {v['what']}", {"kind": "disc", "cfg": job[0], "case": v})
    ndisc = sum(len(j[1]) for j in djobs)
    for j in djobs:
        for e in j[1]:
            ctx.distinct.add(("disc", j[0]["ts"], graph.key(e["op"]["prof"])))
    mid = jobs[len(jobs) // 2]
    ctx.sample({"config": {k: mid[0][k] for k in ("kind", "pname", "ant", "users")}, "calls": [e["op"] for e in mid[3]]})
    ctx.sample({"discretise": djobs[0][1][len(djobs[0][1]) // 2]["op"]["prof"], "expected": djobs[0][1][len(djobs[0][1]) // 2]["exp"]})
    ctx.notes["configurations"] = len(cfgs)
    ctx.notes["channel_transitions"] = sum(len(v) for k, v in edges.items() if by_id[k]["kind"] != "disc")
    ctx.notes["paths_replayed"] = len(jobs)
    ctx.notes["discretisation_cases"] = ndisc
    ctx.exhaustive = True
    from . import c03_real, c03_trace
    c03_real.run(ctx, jobs)
    c03_trace.run(ctx)
    # report order: behaviours that match no listed deviation first, then one example per deviation, then the rest
    import re
    plain, first, rest, seen_ids = [], [], [], set()
    for v in ctx.violations:
        m = re.match(r"\[(\w+)\]", v["what"])
        if not m:
            plain.append(v)
        elif m.group(1) not in seen_ids:
            seen_ids.add(m.group(1))
            first.append(v)
        else:
            rest.append(v)
    ctx.violations[:] = plain + first + rest


def replay(ctx, data):
    c = data["case"]
    if c["kind"] == "dhist":
        okc, viol = run_dhist((c["cfg"], c["path"]))
        ctx.ok(n=okc)
        for v in viol:
            ctx.violation(v, c)
        return
    if c["kind"] == "disc":
        cfg = c["cfg"]
        okc, viol, finds = run_disc((cfg, [{"op": {"prof": c["case"]["prof"]}, "exp": c["case"]["exp"]}]))
        ctx.ok(n=okc)
        for f in finds:
            ctx.finding(f["id"], f["what"], c)
        for v in viol:
            ctx.violation(f"discretise {v['prof']}: {v['what']}", c)
        return
    if c["kind"] == "real":
        from . import c03_real
        return c03_real.replay(ctx, c)
    if c["kind"] == "trace":
        from . import c03_trace
        return c03_trace.replay(ctx, c)
    cfg = c["cfg"]
    table, signals = tables(c["seed"], c["tlen"], maxn=c.get("maxn", 8))
    ctable = (table[..., 0] + 1j * table[..., 1]).astype(complex)
    csig = (signals[..., 0] + 1j * signals[..., 1]).astype(complex)
    okc, viol, finds = run_path((cfg, ctable, csig, c["path"]))
    ctx.ok(n=okc)
    for f in finds:
        ctx.finding(f["id"], f["what"], c)
    for v in viol[:1]:
        ctx.violation(f"step {v['step']}: {v['what']}", c)
