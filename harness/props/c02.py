"""C02 - OFDM round trip and exact one-tap equalisation when the cyclic prefix covers the channel.

Stage M: TLC on spec/modem/Ofdm.tla.  Intended instance (all Dev flags FALSE): the laws IndexMap, PadLaw,
LenLaw, PrefixIsTail, DcAndGuardsEmpty (+ Parseval), CircularUnderCP, WindowAligned, UnmapReadsMap,
FreqIsHTimesX, RoundTrip, OneTapExact hold on every state of every enumerated case; for every Dev flag TLC
must FIND a violation (non-vacuity).
Stage R: the same TLC runs emit every step of every case (exact values in Z[zeta_M], module Cyc2, plus the
index layer; emitted by the state predicate `Emit`, listed as an INVARIANT, once per distinct state).  Each chain  Choose-Pad-Map-Ifft-AddCP-(Loop | Channel-Crop)-RemoveCP-Fft-Unmap-(Equalize)  is
executed on the real OFDM / TdlChannel (driven by a table generator) / OfdmOneTapEqualizer and every public
observable is compared with what TLC emitted.  Python only evaluates  sum_j c_j exp(2 pi i j / M) * scale.
For fft sizes that are not a power of two the spec supplies the index layer and the final expectations
(data followed by zeros); intermediate values are evaluated numerically from first principles (rel).

One OS process per partition: TLC (1 worker) + parsing + replay, 16 partitions at a time."""
import math
import os

import numpy as np

from .. import tlc
from ..core import pool_map

MODULE = "modem/Ofdm.tla"
DEVS = ["FreqResponseTruncates", "DcNotSkipped", "MapOffByOne", "CpFromHead", "ScaleNotInverted", "SymbolsFloor",
        "MemoryExceedsCp", "MemoNumbersByUsedOnly", "RejectedSetHalfUpdates", "PadKeepsOldData", "DemodScalesArgument",
        "ScaleWrapsNarrowInt", "EqSkipsTinyResponse", "ModulateInBlocks", "EqMemoByIdentity",
        "DemodZeroesLastPadding", "MergeNeighboursOnly"]
INVS = ["ObjectCoherent", "ArgumentsUnchanged", "EarlierResultsUnchanged", "ScaleLaw", "DiscLaw", "LongLaw", "IndexMap", "ParamLaw", "PadLaw", "LenLaw", "PrefixIsTail", "DcAndGuardsEmpty", "CircularUnderCP",
        "WindowAligned", "UnmapReadsMap", "FreqIsHTimesX", "RoundTrip", "OneTapExact"]
# which laws refute which deviation (TLC stops at the first violated invariant of the list it finds)
DEV_REFUTED_BY = {
    "FreqResponseTruncates": ({(4, 4, 4), (2, 2, 2)}, {"OneTapExact"}),
    "DcNotSkipped": ({(4, 1, 2), (8, 2, 4)}, {"IndexMap", "DcAndGuardsEmpty"}),
    "MapOffByOne": ({(8, 2, 4)}, {"IndexMap", "DcAndGuardsEmpty"}),
    "CpFromHead": ({(4, 1, 4), (8, 3, 6)}, {"PrefixIsTail", "CircularUnderCP", "FreqIsHTimesX"}),
    "ScaleNotInverted": ({(4, 1, 2)}, {"RoundTrip", "OneTapExact"}),
    "SymbolsFloor": ({(4, 1, 2)}, {"PadLaw", "LenLaw"}),
    "MemoryExceedsCp": ({(4, 1, 4)}, {"CircularUnderCP", "FreqIsHTimesX", "OneTapExact"}),
    # history flags: refuted on the live-object machine (configs = the valid set of the history)
    "MemoNumbersByUsedOnly": ({(4, 1, 4), (8, 2, 4)}, {"IndexMap", "DcAndGuardsEmpty"}),
    "RejectedSetHalfUpdates": ({(4, 1, 4), (8, 2, 4)}, {"ObjectCoherent"}),
    "PadKeepsOldData": ({(4, 1, 4), (8, 2, 4)}, {"PadLaw"}),
    "DemodScalesArgument": ({(4, 1, 2)}, {"ArgumentsUnchanged"}),
    "ScaleWrapsNarrowInt": ({(16, 4, 10)}, {"ScaleLaw"}),        # run with the parameter types int8 / uint8
    "EqSkipsTinyResponse": ({(4, 1, 4)}, {"OneTapExact"}),       # run with the channel gains 1e-7 .. 1e7
    "ModulateInBlocks": ({(8, 2, 6, 65537), (64, 16, 52, 70001)}, {"LongLaw"}),      # long-input star cases
    "EqMemoByIdentity": ({(4, 1, 4), (8, 2, 4)}, {"OneTapExact"}),                   # histories with a realisation per use
    "DemodZeroesLastPadding": ({(4, 1, 4), (8, 2, 4)}, {"RoundTrip"}),               # re-demodulation of an earlier frame
    "MergeNeighboursOnly": ({(8, 3, 6)}, {"DiscLaw"}),                               # raw profiles in every listing order
}
ORDERS = ["sorted", "reversed", "split"]
PTYPES = ["int", "int8", "uint8", "int16", "uint16", "int32", "uint32", "int64", "uint64"]
# The UNSIGNED scalar types broke the code as found (index map and prefix use unary minus / negative numbers on the
# parameters); repaired in /repo (3fd82b5, notes/fixes/C02-integer-parameters.patch), so every type is judged.  The
# "pending" partition (counted, not judged) is empty and kept only as a mechanism.
JUDGED_PTYPES = PTYPES
PENDING_PTYPES = []
GAINS = list(range(-7, 8))
HIST_DEVS = {"MemoNumbersByUsedOnly": "none", "RejectedSetHalfUpdates": "none", "PadKeepsOldData": "none",
             "EqMemoByIdentity": "one", "DemodZeroesLastPadding": "none"}      # deviation -> tap layouts needed to see it
# the quick history alphabet: the same used count under the all-carriers branch and under the centred branch at two fft
# sizes (both orders occur), a change of every parameter, the smallest size; rejected calls: odd used, used > fft (both
# with a valid <<fft, cp>> that differs from most current ones), cp > fft, used = 0
# used = -1 stands for the TWO-argument call form OFDM(N, cp) / set_parameters(N, cp) (used defaults to fft; odd fft rejected)
HIST_VALID = [(4, 1, 4), (8, 2, 4), (8, 3, -1), (4, 0, 2), (2, 2, 2)]
HIST_BAD = [(8, 1, 3), (4, 2, 6), (3, 1, -1), (2, 1, 0)]
ROUTES = ["arrays", "profile", "discrete"]
ACTIONS = ["StartRe", "LongStar", "ScaleStar", "Construct", "SetParameters", "UseLive", "StartLive", "Start", "MapStar", "ParamStar", "Pad", "Map", "Ifft", "AddCP", "Loop", "Transmit", "Crop", "RemoveCP",
           "Fft", "Unmap", "Equalize"]
TOL = 1e-9
# 16+ JVMs run side by side (one TLC worker each): keep their GC / JIT helper threads from oversubscribing the cores
JVM_ENV = {"JAVA_TOOL_OPTIONS": "-XX:ParallelGCThreads=2 -XX:CICompilerCount=2"}
FID = "FreqResponseTruncates"


def model(configs=(), mapffts=(), paramffts=(), lenmode="two", patmode="dense", ndense=1, laymode="three",
          block=False, seed=0, dev=(), emit=True, histvalid=(), histbad=(), histmax=0, histfirst=None, usemax=1,
          ptypes=("int",), scalecases=(), gains=(0,), routes=("int",), longcases=(), ownreal=False, orders=("sorted",)):
    d = {k: (k in dev) for k in DEVS}
    st = lambda xs: tlc.tla(set(xs)) if xs else "{}"
    defs = {"Configs": st([tuple(c) for c in configs]), "MapFfts": st(mapffts), "ParamFfts": st(paramffts),
            "HistFirst": st([tuple(c) for c in (histvalid if histfirst is None else histfirst)]),
            "CallTypes": tlc.tla(list(JUDGED_PTYPES)), "PTypes": st(list(ptypes)), "ScaleCases": st([tuple(c) for c in scalecases]), "LongCases": st([tuple(c) for c in longcases]), "Gains": st(list(gains)), "Routes": st(list(routes)), "Orders": st(list(orders)),
            "HistValid": st([tuple(c) for c in histvalid]), "HistBad": st([tuple(c) for c in histbad]), "Dev": tlc.tla(d)}
    cfg = tlc.cfg_text(constants={"LenMode": tlc.tla(lenmode), "PatMode": tlc.tla(patmode), "NDense": str(ndense),
                                  "LayMode": tlc.tla(laymode), "Block": tlc.tla(bool(block)), "Seed": str(seed % 1000),
                                  "HistMax": str(histmax), "UseMax": str(usemax), "OwnReal": tlc.tla(bool(ownreal))},
                       defs=defs, invariants=INVS + (["Emit"] if emit else []))
    return cfg, defs


# ------------------------------------------------------------------ evaluation of exact values
_ROOTS = {}


def cyc(a):
    """array of Cyc2 coordinate vectors (..., M/2) -> complex array (...): sum_j c_j exp(2 pi i j / M)"""
    a = np.asarray(a, dtype=float)
    if a.size == 0:
        return np.zeros(a.shape[:-1] if a.ndim > 1 else (0,), dtype=complex)
    h = a.shape[-1]
    if h not in _ROOTS:
        _ROOTS[h] = np.exp(2j * np.pi * np.arange(h) / (2 * h))
    return a @ _ROOTS[h]


def scale_of(e):
    """sqrt(ps)^e / div * 10^g with ps = <<root, d>> = root^2 / d as emitted"""
    return (e["ps"][0] / math.sqrt(e["ps"][1])) ** e["sc"]["e"] / e["sc"]["div"] * 10.0 ** e["sc"].get("g", 0)


def ptype(name):
    """the integer scalar type the OFDM parameters are passed as"""
    return int if name == "int" else getattr(np, name)


def gint(g):
    a = np.asarray(g, dtype=float)
    if a.size == 0:
        return np.zeros(a.shape[:-1] if a.ndim > 1 else 0, dtype=complex)
    return a[..., 0] + 1j * a[..., 1]


def close(x, y, unit=1.0):
    """|x - y| <= 1e-9 max(unit, |y|); `unit` = the natural scale of the signal (10^g after a channel of gain 10^g)"""
    x = np.asarray(x)
    y = np.asarray(y)
    if x.shape != y.shape:
        return False
    if x.size == 0:
        return True
    if not np.all(np.isfinite(x)):
        return False
    return bool(np.all(np.abs(x - y) <= TOL * np.maximum(unit, np.abs(y))))


# ------------------------------------------------------------------ the table generator
def make_generator(values, block_len, block):
    """A FadingSampleGenerator (public extension point of pyphysim.channels) that serves a fixed table: tap q
    has the value values[q] at every time sample (static), or values[q] * i^(sample // block_len) (block-static).
    The power the channel applies to tap q is compensated through `gain` so that the REPORTED taps are the
    Gaussian integers TLC chose."""
    from pyphysim.channels.fading_generators import FadingSampleGenerator

    class TableGenerator(FadingSampleGenerator):
        def __init__(self):
            super().__init__(shape=None)
            self.values = np.asarray(values, dtype=complex)
            self.gain = np.ones(len(values))
            self.pos = 0

        def generate_more_samples(self, num_samples=None):
            n = 1 if num_samples is None else int(num_samples)
            t = self.pos + np.arange(n)
            rot = (1j ** ((t // block_len) % 4)) if block else np.ones(n, dtype=complex)
            self._samples = (self.values * self.gain)[:, None] * rot[None, :]
            self.pos += n

        def skip_samples_for_next_generation(self, num_samples):
            self.pos += int(num_samples)

        def get_similar_fading_generator(self):
            return make_generator(values, block_len, block)

    return TableGenerator()


def make_channel(taps, block_len, block, vals=None, route="int", raw=()):
    """taps: [[delay, [re, im]], ...] as emitted; `vals` overrides the tap values (gain / random extension).
    route "int": TdlChannel(gen, tap_powers_dB=, tap_delays=<integers>, Ts=1).  Other routes give the RAW profile (`raw`:
    delays in quarter samples, one raw tap more than discretised taps: two of them merge) with a sampling interval
    Ts # 1, as arrays, as a `channel_profile=` object, or as an already discretised profile object."""
    from pyphysim.channels import fading
    vals = gint([t[1] for t in taps]) if vals is None else np.asarray(vals, dtype=complex)
    gen = make_generator(vals, block_len, block)
    if route == "int":
        delays = np.array([t[0] for t in taps], dtype=float)
        ch = fading.TdlChannel(gen, tap_powers_dB=-3.0 * np.arange(len(taps)), tap_delays=delays, Ts=1.0)
    else:
        ts = [1e-6, 3.25e-8, 0.5][len(raw) % 3]
        rdel = np.array(raw, dtype=float) / 4.0 * ts
        rdb = -2.0 * np.arange(len(raw))
        if route == "arrays":
            ch = fading.TdlChannel(gen, tap_powers_dB=rdb, tap_delays=rdel, Ts=ts)
        elif route == "profile":
            ch = fading.TdlChannel(gen, channel_profile=fading.TdlChannelProfile(rdb, rdel), Ts=ts)
        else:
            ch = fading.TdlChannel(gen, channel_profile=fading.TdlChannelProfile(rdb, rdel).get_discretize_profile(ts))
        if ch.num_taps != len(taps):
            raise Bad(f"DiscLaw: the channel built from the raw profile {list(raw)} (quarter samples) has {ch.num_taps} taps, "
                      f"specified {len(taps)} at delays {[t[0] for t in taps]}")
    gen.gain = 1.0 / np.sqrt(np.asarray(ch.channel_profile.tap_powers_linear, dtype=float))
    return ch, vals, np.array([t[0] for t in taps], dtype=int)


# ------------------------------------------------------------------ replay of one chain on the real classes
def dft_matrix(n, sign):
    k = np.arange(n)
    return np.exp(sign * 2j * np.pi * np.outer(k, k) / n)


class Bad(Exception):
    def __init__(self, what, fid=None):
        super().__init__(what)
        self.what = what
        self.fid = fid


# ------------------------------------------------------------------ call discipline (notes/CALL_DISCIPLINE.md)
SHAPE_OBS = {}


class Ledger:
    """results handed out earlier by the objects under test: they must still be what they were (EarlierResultsUnchanged)"""

    def __init__(self):
        self.items = []
        self.eqz = None       # live history: the equaliser object created right after the constructor call
        self.chans = None     # live history: channel objects kept from one use to the next
        self.use_no = 0       # live history: number of the current use
        self.frames = {}      # live history: position of a use -> the frame it emitted (kept by the caller)

    def keep(self, label, res):
        self.items.append((label, res, np.array(res, copy=True)))

    def verify(self):
        for label, res, snap in self.items:
            if res.shape != snap.shape or not np.array_equal(res, snap, equal_nan=True):
                raise Bad(f"EarlierResultsUnchanged: the array returned by {label} changed after later calls")


def _same(a, b):
    return a.shape == b.shape and bool(np.allclose(a, b, rtol=0, atol=1e-12, equal_nan=True))


def call(label, fn, args, req=(), ledger=None, readonly=False):
    """Generic wrapper around every public call of the replay.  ArgumentsUnchanged: every ndarray argument has the same
    dtype, (logical) shape and samples afterwards;
    the result does not alias an argument.  RepeatableCall: a second call with the SAME argument objects returns the same
    result.  EarlierResultsUnchanged: the result goes into the ledger and is re-checked after later calls.
    `readonly`: array arguments are handed over write-protected (an in-place writer raises)."""
    arrs = [a for a in args if isinstance(a, np.ndarray)]
    snaps = [(a, a.copy(), a.dtype, a.shape) for a in arrs]
    if readonly:
        for a in arrs:
            a.setflags(write=False)

    def unchanged(when):
        for a, c, dt, shp in snaps:
            if a.dtype != dt or a.size != c.size or not np.array_equal(a.ravel(), c.ravel(), equal_nan=True):
                raise Bad(f"ArgumentsUnchanged: {label} modified the samples of the caller's array ({when})")
            if a.shape != shp:
                SHAPE_OBS[label] = SHAPE_OBS.get(label, 0) + 1
                raise Bad(f"ArgumentsUnchanged: {label} changed the shape of the caller's array from {shp} to {a.shape} ({when})")
    with np.errstate(all="ignore"):
        res = np.asarray(fn(*args))
    unchanged("first call")
    for a in arrs:
        if np.shares_memory(res, a):
            raise Bad(f"EarlierResultsUnchanged: the result of {label} shares memory with its argument")
    if "RepeatableCall" in req:
        with np.errstate(all="ignore"):
            res2 = np.asarray(fn(*args))
        if not _same(res, res2):
            raise Bad(f"RepeatableCall: a second {label} call with the same argument object returns another result")
        unchanged("second call")
        if ledger is not None:
            ledger.keep(label + " (2nd)", res2)
    if ledger is not None:
        ledger.keep(label, res)
    return res


def run_modulator(m, o=None, ledger=None):
    """m: step -> emitted edge of the modulator half.  Returns (ofdm object, emitted signal) or raises Bad.
    `o`: the live object of a history (already configured through the calls of the history); else a fresh one."""
    from pyphysim.modulators.ofdm import OFDM
    N, cp, u, L, _ = m["input"]["id"]
    exact = m["input"]["exact"]
    if o is None:
        T = ptype(m["input"].get("pt", "int"))      # the behaviour must not depend on the integer type of the parameters
        o = OFDM(T(N), T(cp), T(u))
    idx = [int(i) for i in o.get_used_subcarrier_indexes()]
    if idx != m["map"]["out"]["idx"]:
        raise Bad(f"Map: get_used_subcarrier_indexes() = {idx}, specified {m['map']['out']['idx']}")
    x = gint(m["input"]["out"]["data"])
    ns = m["pad"]["out"]["ns"]
    grid = gint(m["map"]["out"]["grid"])
    prep = getattr(o, "_prepare_input_signal", None)  # private: cross-check only, skipped when absent
    if ns == 0:
        grid = np.zeros((0, N), dtype=complex)      # the empty input: zero OFDM symbols
    if prep is not None:
        g = np.asarray(prep(x.copy()))
        if not close(g, grid):
            raise Bad("Pad/Map: _prepare_input_signal differs from the specified grid (zero padding / bin of each element)")
    xa = x.copy()
    if x.size and not np.any(x.imag):     # real-valued symbols: hand them over as an integer / float array (all dtypes accepted)
        xa = x.real.astype([np.int64, np.float64, np.int8][(N + cp + L) % 3])
    tx = call("modulate", o.modulate, [xa], m["cp"].get("req", ()), ledger)
    want_len = len(m["cp"]["out"]["txi"])
    if tx.shape != (want_len,):
        raise Bad(f"Len: modulate returned {tx.shape} samples, specified {want_len} = {ns} symbols x (fft+cp)")
    if ns == 0:
        return o, tx, x                            # nothing emitted; the receiver must return nothing as well
    if exact:
        body = cyc(m["ifft"]["out"]["body"]) * scale_of(m["ifft"])
        txe = cyc(m["cp"]["out"]["tx"]) * scale_of(m["cp"])
    else:  # (rel) first principles: inverse DFT of the specified grid times sqrt(ps)
        ps = m["ifft"]["ps"]
        body = (grid @ dft_matrix(N, +1)) / N * (ps[0] / math.sqrt(ps[1]))
        lab = np.asarray(m["cp"]["out"]["txi"])
        txe = body[lab[:, 0], lab[:, 1]]
    blocks = tx.reshape(ns, N + cp)
    if not close(blocks[:, cp:], body):
        raise Bad("Ifft: symbol bodies of modulate() differ from sqrt(ps)/N * IDFT of the specified grid")
    if not close(tx, txe):
        raise Bad("AddCP: emitted stream differs from the specified one (prefix is not the symbol tail?)")
    if u < N:  # (rel) energy on DC / guard bins of every emitted symbol body
        spec_bins = blocks[:, cp:] @ dft_matrix(N, -1)
        unused = [k for k in range(N) if k not in set(idx)]
        if np.abs(spec_bins[:, unused]).max() > 1e-9 * max(1.0, np.abs(spec_bins).max()):
            raise Bad("DcAndGuardsEmpty: energy on an unused bin of the emitted symbol")
    return o, tx, x


def run_receiver(o, tx, m, d, known, ledger=None):
    """d: step -> emitted edge of one receiver chain (loopback or one channel).  Mismatches that have the signature of
    the listed finding are appended to `known` and the chain continues; anything else raises Bad."""
    from pyphysim.modulators.ofdm import OfdmOneTapEqualizer
    N, cp, u, L, _ = m["input"]["id"]
    exact = m["input"]["exact"]
    ns = m["pad"]["out"]["ns"]
    padded = gint(m["pad"]["out"]["padded"])
    ch = d["rx"]["ch"]
    n = len(tx)
    if not ch["taps"]:
        dem = call("demodulate", o.demodulate, [tx.copy()], d["dem"].get("req", ()), ledger)
        if not close(dem, padded):
            raise Bad("RoundTrip: demodulate(modulate(x)) is not x followed by zeros")
        if exact and not close(dem, cyc(d["dem"]["out"]["dem"]) * scale_of(d["dem"])):
            raise Bad("RoundTrip: demodulated values differ from the specified ones")
        return
    gain = 10.0 ** ch.get("g", 0)       # every static realisation: the same layout at any overall gain
    ckey = tlc.json.dumps([ch, N + cp], sort_keys=True)
    cache = getattr(ledger, "chans", None)
    if cache is not None:
        # channel objects that were not used by the previous use are DROPPED (with their impulse responses), as a simulation loop does
        for k_ in [k_ for k_, v_ in cache.items() if v_[3] < ledger.use_no - 1]:
            del cache[k_]
    if cache is not None and ckey in cache:
        chan, vals, delays, _ = cache[ckey]   # a live history: the next frame goes through the SAME (time-invariant) channel object
        cache[ckey] = (chan, vals, delays, ledger.use_no)
    else:
        chan, vals, delays = make_channel(ch["taps"], N + cp, ch["block"], gint([t[1] for t in ch["taps"]]) * gain,
                                          ch.get("route", "int"), ch.get("raw", ()))
        if cache is not None and not ch["block"]:
            cache[ckey] = (chan, vals, delays, ledger.use_no)
    rxfull = call("corrupt_data", chan.corrupt_data, [tx.copy()], d["chan"].get("req", ()), ledger)
    mem = d["chan"]["out"]["mem"]
    if rxfull.shape != (n + mem,):
        raise Bad(f"Channel: output has {rxfull.shape} samples, specified {n} + memory {mem}")
    ir = chan.get_last_impulse_response()
    if [int(t) for t in ir.tap_indexes_sparse] != [int(t) for t in delays]:
        raise Bad("Channel: reported tap delays differ from the layout")
    rot = (1j ** ((np.arange(n) // (N + cp)) % 4)) if ch["block"] else np.ones(n, dtype=complex)
    if not close(np.asarray(ir.tap_values_sparse), vals[:, None] * rot[None, :], gain):
        raise Bad("Channel: reported impulse response is not the table (harness precondition)")
    if exact:
        rxe = cyc(d["chan"]["out"]["rxfull"]) * scale_of(d["chan"])
    else:  # (rel) y[p] = sum_q h_q[p - d_q] x[p - d_q]
        rxe = np.zeros(n + mem, dtype=complex)
        for q, dl in enumerate(delays):
            rxe[dl:dl + n] += vals[q] * rot * tx
    if not close(rxfull, rxe, gain):
        raise Bad("Channel: corrupt_data output differs from the convolution with the specified taps")
    corner = d["chan"]["out"]["corner"]
    if exact:  # reported frequency response at the fft size = DFT of the taps, delays aliased modulo N
        fr = np.asarray(ir.get_freq_response(N))
        He = cyc(d["chan"]["out"]["H"])[:, None] * rot[None, :] * gain
        if not close(fr, He, gain):
            if corner and close(fr, cyc(d["chan"]["out"]["Htrunc"])[:, None] * rot[None, :] * gain, gain):
                known.append("get_freq_response(fft) drops the tap at delay = fft instead of aliasing it onto delay 0")
            else:
                raise Bad("Channel: get_freq_response(fft) differs from the DFT of the reported taps")
    rx = rxfull[:n].copy()
    dem = call("demodulate", o.demodulate, [rx], d["dem"].get("req", ()), ledger)
    if dem.shape != (ns * u,):
        raise Bad(f"Unmap: demodulate returned {dem.shape}, specified {ns * u}")
    if exact and not close(dem, cyc(d["dem"]["out"]["dem"]) * scale_of(d["dem"]), gain):
        raise Bad("RemoveCP/Fft/Unmap: demodulated values differ from the specified ones")
    if "eq" not in d:
        return
    if ledger.eqz is None:
        ledger.eqz = OfdmOneTapEqualizer(o)     # ONE equaliser object per chain / per live history, across all realisations
    eqz = ledger.eqz
    eq = call("equalize_data", eqz.equalize_data, [dem.copy(), ir], d["eq"].get("req", ()), ledger)
    if not close(eq, gint(d["eq"]["out"]["exp"])):
        if d["eq"]["out"]["corner"] and gain == 1.0:
            if exact:
                num = cyc([a["num"] for a in d["eq"]["out"]["asis"]])
                den = cyc([a["den"] for a in d["eq"]["out"]["asis"]])
                with np.errstate(all="ignore"):
                    asis = num / den
                fin = np.isfinite(asis)
                same = eq.shape == asis.shape and np.array_equal(np.isfinite(eq), fin) and close(eq[fin], asis[fin])
            else:
                same = True  # no exact as-is prediction for this size: matched by signature (tap at delay = fft)
            if same:
                known.append("OneTapExact fails for cp = fft = memory: equaliser divides by the truncated response")
                return
        raise Bad("OneTapExact: equalised symbols are not the transmitted symbols followed by zeros"
                  + (f" (channel gain 1e{ch.get('g', 0)})" if gain != 1.0 else ""))


LIB_SKIPPED = [0, 0]


def run_library_channel(o, m, d, ch, tx, want, rng):
    """(rel) the raw profile through a STATIC channel of the library itself: JakesSampleGenerator with zero Doppler.  The
    realisation is whatever the generator draws; runs whose response on a used bin is more than 60 dB below the strongest
    are skipped (ill conditioned), not failed."""
    from pyphysim.channels import fading, fading_generators
    from pyphysim.modulators.ofdm import OfdmOneTapEqualizer
    N, cp, u, L, _ = m["input"]["id"]
    ts = [1e-6, 3.25e-8, 0.5][len(ch["raw"]) % 3]
    jakes = fading_generators.JakesSampleGenerator(Fd=0.0, Ts=ts, L=8, RS=np.random.RandomState(rng.randint(2 ** 31 - 1)))
    chan = fading.TdlChannel(jakes, tap_powers_dB=-2.0 * np.arange(len(ch["raw"])), tap_delays=np.array(ch["raw"]) / 4.0 * ts)
    rx = np.asarray(chan.corrupt_data(tx.copy()))
    ir = chan.get_last_impulse_response()
    if [int(t) for t in ir.tap_indexes_sparse] != [t[0] for t in ch["taps"]]:
        raise Bad(f"DiscLaw (library generator): discretised delays {list(ir.tap_indexes_sparse)}, specified {[t[0] for t in ch['taps']]}")
    if rx.shape != (len(tx) + ch["taps"][-1][0],):
        raise Bad("Channel (library generator): output length is not input + discretised memory")
    tv = np.asarray(ir.tap_values_sparse)
    if np.abs(tv - tv[:, :1]).max() > 1e-12:
        raise Bad("Channel (library generator): zero Doppler but the reported taps vary in time")
    H = np.abs(np.asarray(ir.get_freq_response(N))[m["map"]["out"]["idx"], 0])
    LIB_SKIPPED[1] += 1
    if H.min() < 1e-3 * H.max():
        LIB_SKIPPED[0] += 1
        return
    eq = np.asarray(OfdmOneTapEqualizer(o).equalize_data(np.asarray(o.demodulate(rx[:len(tx)].copy())), ir))
    if eq.shape != want.shape or np.abs(eq - want).max() > 1e-7 * max(1.0, np.abs(want).max()):
        raise Bad("OneTapExact (static library channel, JakesSampleGenerator Fd = 0, raw profile): equalised symbols are not the transmitted symbols")


def run_random(o, m, d, rng, known, ledger=None):
    """(rel) The same configuration, data length and tap delays with RANDOM complex data and taps (not on the integer
    lattice).  No oracle is needed: the expectation is the property itself - the symbols followed by zeros."""
    from pyphysim.modulators.ofdm import OfdmOneTapEqualizer
    N, cp, u, L, _ = m["input"]["id"]
    ns = m["pad"]["out"]["ns"]
    x = rng.uniform(-1, 1, L) + 1j * rng.uniform(-1, 1, L)
    want = np.concatenate([x, np.zeros(ns * u - L)])
    # arguments are handed over write-protected; the data as a strided (non-contiguous) view
    xs = np.zeros(2 * L, dtype=complex)
    xs[::2] = x
    tx = call("modulate", o.modulate, [xs[::2]], m["cp"].get("req", ()), ledger, readonly=True)
    ch = d["rx"]["ch"]
    if not ch["taps"]:
        if not close(call("demodulate", o.demodulate, [tx.copy()], d["dem"].get("req", ()), ledger, readonly=True), want):
            raise Bad("RoundTrip (random complex data): demodulate(modulate(x)) is not x followed by zeros")
        return
    if "eq" not in d:
        return
    k = len(ch["taps"])
    # first tap dominant (|h0| = 3 > sum of the others <= 2): the response cannot vanish, condition number <= 5
    # ... at a random overall gain 10^U(-7, 7): scaling is perfectly conditioned, the equalised symbols must not move
    gexp = rng.uniform(-7, 7)
    vals = np.concatenate([[3 * np.exp(2j * np.pi * rng.uniform())],
                           rng.uniform(0.2, 1, k - 1) * np.exp(2j * np.pi * rng.uniform(size=k - 1))]) * 10.0 ** gexp
    vals2 = (rng.uniform(0.2, 1, k) * np.exp(2j * np.pi * rng.uniform(size=k))) * np.r_[4.0, np.ones(k - 1)]
    cases = [("random complex taps, gain 1e%.1f" % gexp, vals, TOL), ("a second random realisation", vals2, TOL)]
    if k >= 2 and not d["eq"]["out"]["corner"]:
        # a deep but NON-ZERO fade (|H| = 3e-7) on one used bin k0: h = [1, -(1 - 3e-7) e^{+2 pi i k0 (d1 - d0) / N}, 0, ...]
        # (exact zeros inside the tap array included); error amplification 1/|H| ~ 3e6 -> tolerance 1e-6
        k0 = int(m["map"]["out"]["idx"][rng.randint(u)])
        d0, d1 = ch["taps"][0][0], ch["taps"][1][0]
        fade = np.zeros(k, dtype=complex)
        fade[0], fade[1] = 1.0, -(1 - 3e-7) * np.exp(2j * np.pi * k0 * (d1 - d0) / N)
        cases.append(("deep non-zero fade |H| = 3e-7 on bin %d" % k0, fade, 1e-6))
    if ch.get("route", "int") != "int":
        run_library_channel(o, m, d, ch, tx, want, rng)
    # the SAME equaliser object serves every realisation; the channel and impulse-response objects of one realisation are
    # dropped before the next one is created (a simulation loop): nothing may survive in the equaliser from one to the next
    if ledger.eqz is None:
        ledger.eqz = OfdmOneTapEqualizer(o)
    chan = args = None
    for what, v, tol in cases:
        chan, _, _ = make_channel(ch["taps"], N + cp, ch["block"], v, ch.get("route", "int"), ch.get("raw", ()))
        rx = call("corrupt_data", chan.corrupt_data, [tx.copy()], d["chan"].get("req", ()), ledger, readonly=True)[:len(tx)].copy()
        dem = call("demodulate", o.demodulate, [rx], d["dem"].get("req", ()), ledger, readonly=True)
        args = [dem, chan.get_last_impulse_response()]
        eq = call("equalize_data", ledger.eqz.equalize_data, args, d["eq"].get("req", ()), ledger, readonly=True)
        chan = args = None
        if eq.shape != want.shape or not np.all(np.isfinite(eq)) or np.abs(eq - want).max() > tol * max(1.0, np.abs(want).max()):
            raise Bad(f"OneTapExact ({what}, random complex data): equalised symbols are not the transmitted symbols"
                      + (" (cp = fft = memory)" if d["eq"]["out"]["corner"] else ""))


def check_chain(case, o=None, ledger=None):
    """case = {"mod": {step: edge}, "rcv": [ {step: edge}, ... ]} -> list of (what, fid, receiver index)"""
    m = case["mod"]
    bad = []
    rng = np.random.RandomState((case.get("seed", 0) * 7919 + sum((i + 1) * int(v) for i, v in enumerate(m["input"]["id"][:4]))) % (2 ** 31))
    try:
        ledger = Ledger() if ledger is None else ledger
        ledger.use_no += 1
        o, tx, _ = run_modulator(m, o, ledger)
        if ledger.chans is not None:
            ledger.frames[m["input"]["id"][4][1]] = tx.copy()
    except Bad as b:
        return [(b.what, b.fid, -1)], 0
    except Exception as ex:  # the real code must not raise on a valid configuration
        return [(f"modulator raised {type(ex).__name__}: {ex}", None, -1)], 0
    okc = 1
    for i, d in enumerate(case["rcv"]):
        known = []
        try:
            run_receiver(o, tx, m, d, known, ledger)
            run_random(o, m, d, rng, known, ledger)
            ledger.verify()
            okc += 0 if known else 1
        except Bad as b:
            bad.append((b.what, b.fid, i))
        except Exception as ex:
            bad.append((f"receiver raised {type(ex).__name__}: {ex}", None, i))
        bad += [(w, FID, i) for w in known[:1]]
    return bad, okc


def check_history(h):
    """comparisons are total: an exception of the code under test anywhere in a history is a verdict"""
    try:
        return _check_history(h)
    except Exception as ex:
        return [(f"history: the code under test raised {type(ex).__name__}: {ex}", None)], 0, len(h["steps"]) - 1


def _check_history(h):
    """h = {"steps": [{"call": edge, "chains": [chain]}, ...], "seed": n}: ONE live object.  A step is a configuration call
    (["cfg", N, cp, u]: constructor, accepted or rejected set_parameters - checked: accepted/rejected, the public parameters)
    or a use (["use", L, k, 0]: a full chain on the live object: modulate(x_k) ... equalize_data).  Results of earlier calls
    are kept in one ledger for the whole history.  Returns ([(what, fid)], chains executed, index of the failing step or -1)."""
    from pyphysim.modulators.ofdm import OFDM
    o = None
    okc = 0
    done = []
    ledger = Ledger()
    for k, st in enumerate(h["steps"]):
        c = st["call"]["out"]["call"]
        done.append(tuple(c[1:]) if c[0] == "cfg" else ("use", c[1]))
        if c[0] == "use":
            for ch in st["chains"]:
                ch["seed"] = h.get("seed", 0)
                bad, n = check_chain(ch, o, ledger)
                okc += n
                if bad:
                    return [(f"history {done}: chain on the live object: {w}", fid) for w, fid, _ in bad[:1]], okc, k
            # PIPELINING: frames emitted by earlier uses are demodulated again on the live object, after later modulate calls
            for rc in st.get("redemod", ()):
                pos = rc["mod"]["input"]["re"]
                frame = ledger.frames[rc["mod"]["input"]["id"][4][1]]
                want = gint(rc["mod"]["pad"]["out"]["padded"])
                try:
                    dem = call("demodulate", o.demodulate, [frame.copy()], rc["rcv"][0]["dem"].get("req", ()), ledger)
                except Bad as b:
                    return [(f"history {done}: re-demodulating the frame of call {pos}: {b.what}", None)], okc, k
                if not close(dem, want):
                    return [(f"history {done}: RoundTrip: demodulating the frame emitted by call {pos} again, after later modulate "
                             f"calls, no longer returns its symbols followed by zeros (demodulate must depend on its argument only)",
                             None)], okc, k
                okc += 1
            continue
        acc = st["call"]["out"]["accepted"]
        before = None if o is None else (o.fft_size, o.cp_size, o.num_used_subcarriers)
        T = ptype(st["call"]["out"].get("pt", "int"))     # each configuration call with its own integer scalar type
        args = [T(v) for v in (c[1:3] if c[3] == -1 else c[1:])]   # used = -1: the two-argument call form
        try:
            if o is None:
                o = OFDM(*args)
                raised = False
                from pyphysim.modulators.ofdm import OfdmOneTapEqualizer
                ledger.eqz = OfdmOneTapEqualizer(o)    # ONE equaliser object for the whole history (it must follow set_parameters)
                ledger.chans = {}
            else:
                try:
                    o.set_parameters(*args)
                    raised = False
                except ValueError:
                    raised = True
        except Exception as ex:
            return [(f"history {done}: call raised {type(ex).__name__}: {ex}", None)], okc, k
        if raised == acc:
            return [(f"history {done}: set_parameters{tuple(c[1:])} {'rejected' if raised else 'accepted'}, specified "
                     f"{'accepted' if acc else 'rejected (ValueError)'}", None)], okc, k
        got = [int(o.fft_size), int(o.cp_size), int(o.num_used_subcarriers)]
        if got != st["call"]["out"]["want"]:
            return [(f"history {done}: object holds (fft, cp, used) = {got}, the history demands {st['call']['out']['want']}"
                     + ("" if acc else " (RejectedChangesNothing: a rejected set_parameters must leave the object unchanged)"),
                     None)], okc, k
        if not acc and before is not None and list(before) != got:
            return [(f"history {done}: RejectedChangesNothing: parameters changed by a rejected call", None)], okc, k
    try:
        ledger.verify()
    except Bad as b:
        return [(f"history {done}: {b.what}", None)], okc, len(h["steps"]) - 1
    return [], okc, -1


def check_scalecase(e):
    """(rel) sizes too large for a chain, parameters of the emitted integer scalar type: one data symbol 1 on the first used
    bin k (emitted index map) -> every body sample is sqrt(ps)/N * exp(2 pi i k n / N) (first principles), prefix = tail,
    round trip returns [1, 0, ...]."""
    from pyphysim.modulators.ofdm import OFDM
    N, cp, u = e["id"][:3]
    T = ptype(e["pt"])
    what = f"scale case fft={N} cp={cp} used={u} parameters as {e['pt']}: "
    try:
        with np.errstate(all="ignore"):
            o = OFDM(T(N), T(cp), T(u))
            idx = [int(i) for i in o.get_used_subcarrier_indexes()]
            if idx != e["out"]["idx"]:
                return what + f"index map {idx[:4]}.. differs from the specified {e['out']['idx'][:4]}.."
            tx = np.asarray(o.modulate(np.array([1.0 + 0j])))
            if tx.shape != (N + cp,):
                return what + f"modulate returned {tx.shape}, specified {N + cp} samples"
            body = (e["ps"][0] / math.sqrt(e["ps"][1])) / N * np.exp(2j * np.pi * idx[0] * np.arange(N) / N)
            if not close(tx[cp:], body) or not close(tx[:cp], body[N - cp:]):
                return what + "emitted symbol differs from sqrt(ps)/N * exp(2 pi i k n / N) (power scale formed in a narrow type?)"
            dem = np.asarray(o.demodulate(tx.copy()))
            if not close(dem, gint(e["out"]["padded"])):
                return what + "round trip does not return [1, 0, ...]"
    except Exception as ex:
        return what + f"raised {type(ex).__name__}: {ex}"
    return None


def check_longcase(e):
    """(rel) ONE very long input (random complex symbols): emitted length, round trip = symbols followed by the specified number
    of zeros, through a two-tap channel of full memory and the equaliser as well; arguments unchanged."""
    from pyphysim.modulators.ofdm import OFDM, OfdmOneTapEqualizer
    N, cp, u, L = e["id"][:4]
    what = f"long input fft={N} cp={cp} used={u} length={L}: "
    rng = np.random.RandomState(L % 100003)
    x = rng.uniform(-1, 1, L) + 1j * rng.uniform(-1, 1, L)
    want = np.concatenate([x, np.zeros(e["out"]["pad"])])
    o = OFDM(N, cp, u)
    try:
        tx = call("modulate", o.modulate, [x.copy()], ("RepeatableCall",))
        if tx.shape != (e["out"]["txlen"],):
            return what + f"LenLaw: modulate returned {tx.shape} samples, specified {e['out']['txlen']} = {e['out']['ns']} symbols x (fft+cp)"
        dem = call("demodulate", o.demodulate, [tx.copy()], ())
        if not close(dem, want):
            j = int(np.argmax(np.abs(dem - want) > 1e-9)) if dem.shape == want.shape else -1
            return what + f"RoundTrip: demodulate(modulate(x)) is not x followed by {e['out']['pad']} zeros (first difference at element {j})"
        chan, _, _ = make_channel([[0, [3, 0]], [cp, [0, 1]]] if cp else [[0, [1, 1]]], N + cp, False)   # dominant first tap: no spectral null
        rx = call("corrupt_data", chan.corrupt_data, [tx.copy()], ())[:len(tx)].copy()
        eq = call("equalize_data", OfdmOneTapEqualizer(o).equalize_data, [np.asarray(o.demodulate(rx)), chan.get_last_impulse_response()], ())
        if not close(eq, want):
            return what + "OneTapExact: equalised symbols are not the transmitted symbols followed by zeros"
    except Bad as b:
        return what + b.what
    return None


def check_star(e):
    """comparisons are total: whatever the code under test raises while a star case is evaluated is a verdict"""
    try:
        return _check_star(e)
    except Exception as ex:
        return f"star case {e['step']} {e['id'][:4]}: the code under test raised {type(ex).__name__}: {ex}"


def _check_star(e):
    from pyphysim.modulators.ofdm import OFDM
    if e["step"] == "longcase":
        return check_longcase(e)
    N, cp, u = e["id"][0], e["id"][1], e["id"][2]
    if e["step"] == "mapcase":
        got = [int(i) for i in OFDM(N, 0, u).get_used_subcarrier_indexes()]
        if got != e["out"]["idx"]:
            return f"index map fft={N} used={u}: get_used_subcarrier_indexes() = {got}, specified {e['out']['idx']}"
        return None
    if e["step"] == "scalecase":
        return check_scalecase(e)
    try:
        o = OFDM(N, cp) if u == -1 else OFDM(N, cp, u)       # u = -1: the two-argument form, used defaults to fft
        ok = (o.fft_size, o.cp_size, o.num_used_subcarriers) == (N, cp, N if u == -1 else u)
    except ValueError:
        ok = False
    if ok != e["out"]["valid"]:
        return f"parameters (fft={N}, cp={cp}, used={u}): accepted={ok}, specified valid={e['out']['valid']}"
    return None


# ------------------------------------------------------------------ one partition: TLC + replay
def chains(emitted):
    """-> (chains of fresh objects, star cases, histories of live objects)"""
    mods, rcvs, stars, calls = {}, {}, [], {}
    for e in emitted:
        st = e["step"]
        if st in ("mapcase", "param", "scalecase", "longcase"):
            stars.append(e)
            continue
        if st == "call":
            calls[tlc.json.dumps(e["hist"])] = e
            continue
        key = tlc.json.dumps([e["hist"], e["id"], e.get("pt", "int")])
        if st in ("input", "pad", "map", "ifft", "cp"):
            mods.setdefault(key, {})[st] = e
        else:
            rcvs.setdefault(key, {}).setdefault(tlc.json.dumps(e["ch"], sort_keys=True), {})[st] = e
    out, live = [], {}
    for key, m in mods.items():
        if len(m) != 5:
            raise tlc.TlcError(f"incomplete modulator chain emitted for {key}: {sorted(m)}")
        # loopback first, then the channels in a fixed order
        c = {"mod": m, "rcv": [d for _, d in sorted(rcvs.get(key, {}).items(),
                                                    key=lambda kv: (bool(kv[1]["rx"]["ch"]["taps"]), kv[0]))]}
        if m["input"]["hist"]:
            live.setdefault(tlc.json.dumps(m["input"]["hist"]), []).append(c)
        else:
            out.append(c)
    # a history = a maximal sequence of calls (no emitted history extends it); every prefix has its own call edge and,
    # when it ends with a use, its own chain
    allh = {tuple(tlc.json.dumps(x) for x in e["hist"]) for e in calls.values()}
    inner = {h[:-1] for h in allh}
    hists = []
    for k, e in sorted(calls.items()):
        if tuple(tlc.json.dumps(x) for x in e["hist"]) in inner:
            continue
        steps = []
        for n in range(1, len(e["hist"]) + 1):
            pk = tlc.json.dumps(e["hist"][:n])
            isuse = e["hist"][n - 1][0] == "use"
            normal = [c for c in live.get(pk, ()) if not c["mod"]["input"].get("re", 0)]
            if pk not in calls or (isuse and len(normal) != 1):
                raise tlc.TlcError(f"history prefix {pk} was not emitted completely")
            steps.append({"call": calls[pk], "chains": normal if isuse else [],
                          "redemod": [c for c in live.get(pk, ()) if c["mod"]["input"].get("re", 0)] if isuse else []})
        hists.append({"steps": steps})
    return out, stars, hists


def _tlc_cached(cfg, defs, timeout):
    """TLC's output does not depend on the implementation under test.  VERIF_C02_TLC_CACHE=<dir> (a builder's aid for
    mutation testing, never set by the registered commands) re-uses it across runs of the same specification."""
    cache = os.environ.get("VERIF_C02_TLC_CACHE")
    path = None
    if cache:
        import hashlib
        import pickle
        h = hashlib.md5()
        import re
        for f in (os.path.join(tlc.SPEC, MODULE), os.path.join(tlc.SPEC, "lib", "Cyc2.tla"), os.path.join(tlc.SPEC, "lib", "Emit.tla")):
            txt = re.sub(r"\\\*.*", "", re.sub(r"\(\*.*?\*\)", "", open(f).read(), flags=re.S))   # comments do not matter
            h.update(re.sub(r"\s+", " ", txt).encode())
        h.update(cfg.encode())
        h.update(tlc.json.dumps(defs, sort_keys=True).encode())
        path = os.path.join(cache, h.hexdigest() + ".pkl")
        if os.path.exists(path):
            return pickle.load(open(path, "rb"))
    r = tlc.run(MODULE, cfg, defs=defs, workers=1, coverage=True, timeout=timeout, env=JVM_ENV)
    if path:
        os.makedirs(cache, exist_ok=True)
        r.out = ""
        with open(path + ".tmp%d" % os.getpid(), "wb") as f:
            pickle.dump(r, f)
        os.replace(path + ".tmp%d" % os.getpid(), path)
    return r


def partition(job):
    """runs in a worker process: returns a picklable summary"""
    kw = dict(job["model"])
    SHAPE_OBS.clear()
    LIB_SKIPPED[0] = LIB_SKIPPED[1] = 0
    cfg, defs = model(**kw)
    r = _tlc_cached(cfg, defs, job.get("timeout", 1700))
    res = {"label": job["label"], "generated": r.generated, "distinct": r.distinct, "depth": r.depth,
           "violated": r.violated, "trace_text": r.trace_text[:3000], "coverage": r.coverage, "wall": r.wall,
           "viol": [], "ok": 0, "chains": 0, "keys": [], "sample": None, "excluded": 0}
    if r.violated:
        return res
    cs, stars, hists = chains(r.emitted)
    for e in stars:
        w = check_star(e)
        if w:
            res["viol"].append((w, None, {"star": e}))
        else:
            res["ok"] += 1
            res["keys"].append(f"{e['step']}{e['id'][:4]}")
    for c in cs:
        c["seed"] = kw.get("seed", 0)
        bad, okc = check_chain(c)
        res["chains"] += 1 + len(c["rcv"])
        res["ok"] += okc
        ident = tlc.json.dumps([c["mod"]["input"]["id"], c["mod"]["input"].get("pt", "int")])
        res["keys"].append(ident)
        res["keys"] += [ident + tlc.json.dumps(d["rx"]["ch"], sort_keys=True) for d in c["rcv"]]
        res["excluded"] += sum(1 for d in c["rcv"] if d["rx"]["ch"]["taps"] and "eq" not in d)
        for what, fid, i in bad[:2]:
            slim = {"mod": c["mod"], "rcv": [c["rcv"][i]] if i >= 0 else [], "seed": c["seed"]}
            res["viol"].append((what, fid, slim))
        if res["sample"] is None and c["rcv"]:
            d = c["rcv"][-1]
            res["sample"] = {"id": c["mod"]["input"]["id"], "data": c["mod"]["input"]["out"]["data"],
                             "channel": d["rx"]["ch"], "steps": sorted(list(c["mod"]) + list(d)),
                             "ps": c["mod"]["cp"]["ps"],
                             "tx_first_samples_cyc2": c["mod"]["cp"]["out"]["tx"][:3]}
    for h in hists:
        h["seed"] = kw.get("seed", 0)
        bad, okc, k = check_history(h)
        calls_ = [tuple(st["call"]["out"]["call"][:3 if st["call"]["out"]["call"][0] == "use" else 4]) for st in h["steps"]]
        res["histories"] = res.get("histories", 0) + 1
        res["chains"] += sum(1 + len(c["rcv"]) for st in h["steps"] for c in st["chains"])
        res["ok"] += okc
        res["keys"].append("history" + repr(calls_))
        for what, fid in bad[:1]:
            res["viol"].append((what, fid, {"history": {"steps": h["steps"][:k + 1], "seed": h["seed"]}}))
        if bad == [] and res["sample"] is None:
            res["sample"] = {"history": calls_, "accepted": [st["call"]["out"]["accepted"] for st in h["steps"]],
                             "demanded_parameters_after_each_call": [st["call"]["out"]["want"] for st in h["steps"]],
                             "frame_laws_per_call": [st["call"]["req"] for st in h["steps"]]}
    res["shape_obs"] = dict(SHAPE_OBS)
    res["lib"] = list(LIB_SKIPPED)
    # chains whose parameters are passed as a PENDING (unsigned) type: counted, not judged (see PENDING_PTYPES)
    pend = [v for v in res["viol"] if "mod" in v[2] and v[2]["mod"]["input"].get("pt") in PENDING_PTYPES]
    if pend:
        res["pending"] = len(pend)
        res["pending_example"] = pend[0][2]["mod"]["input"]["pt"] + " parameters: " + pend[0][0]
        res["viol"] = [v for v in res["viol"] if v not in pend]
    return res


def dev_job(job):
    dev, configs, allowed = job
    if dev == "ModulateInBlocks":
        cfg, defs = model(longcases=configs, dev=[dev], emit=False)
    elif dev in HIST_DEVS:
        cfg, defs = model(histvalid=configs, histbad=HIST_BAD[:2], histmax=1 if dev in ("EqMemoByIdentity", "DemodZeroesLastPadding", "PadKeepsOldData") else 3, usemax=2,
                          lenmode="pair", patmode="dense", laymode=HIST_DEVS[dev], dev=[dev], emit=False, ownreal=True)
    else:
        cfg, defs = model(configs=configs, mapffts=[4, 8], lenmode="two", patmode="dense", laymode="three", dev=[dev],
                          emit=False, ptypes=["int", "int8", "uint8"] if dev == "ScaleWrapsNarrowInt" else ["int"],
                          gains=GAINS if dev == "EqSkipsTinyResponse" else [0],
                          routes=["arrays"] if dev == "MergeNeighboursOnly" else ["int"], orders=ORDERS)
    r = tlc.run(MODULE, cfg, defs=defs, workers=2, env=JVM_ENV)
    return dev, r.violated, r.generated, r.distinct, sorted(allowed)


# ------------------------------------------------------------------ the check
def configs_of(ffts, cps=None, us=None):
    return [(N, cp, u) for N in ffts for cp in (range(N + 1) if cps is None else cps(N))
            for u in (range(2, N + 1, 2) if us is None else us(N))]


def cost(c):
    N, cp, u = c
    return (N + cp) * (2 * u + 1) * max(N, 4)


def split(configs, parts, costfn=cost):
    """disjoint partitions of roughly equal cost"""
    bins = [[] for _ in range(max(1, min(parts, len(configs))))]
    load = [0] * len(bins)
    for c in sorted(configs, key=costfn, reverse=True):
        i = load.index(min(load))
        bins[i].append(c)
        load[i] += costfn(c)
    return [b for b in bins if b]


def cost_basis(c):      # one chain per unit tap: 2 (cp + 1) + 3 layouts
    return cost(c) * (2 * c[1] + 5)


def cost_all3(c):       # one chain per delay subset of size <= 3
    m = c[1] + 1
    return cost(c) * (m + m * (m - 1) // 2 + m * (m - 1) * (m - 2) // 6 + 3)


# one very long input each: lengths just above 2^12 .. 2^17, used counts that do not divide the power of two (and one that does)
LONG_CASES = [(6, 1, 4, 4097), (12, 3, 10, 32769), (8, 2, 6, 65537), (64, 16, 52, 70001), (16, 4, 10, 131075), (4, 0, 2, 65539)]
LONG_MORE = [(64, 0, 64, 65601), (60, 7, 52, 16411), (8, 8, 6, 262147), (16, 16, 14, 196613), (10, 1, 6, 8195), (64, 16, 52, 131073)]


def plan(tier, seed):
    jobs = []

    def add(label, configs, parts, weight=1.0, costfn=cost, **kw):
        for i, p in enumerate(split(configs, parts, costfn)):
            jobs.append({"label": f"{label}/{i}", "w": weight * sum(costfn(c) for c in p),
                         "model": dict(configs=p, seed=seed, **kw)})
    pow2 = configs_of([2, 4, 8])
    # odd fft sizes (used < fft always, fft // 2 rounding, cp = fft odd) go through full chains too
    odd = [(3, 1, 2), (3, 3, 2), (5, 2, 4), (7, 7, 6), (9, 4, 8)]
    np2 = (odd + configs_of([6]) + configs_of([12], cps=lambda N: [0, 1, 5, 12], us=lambda N: [2, 6, 10, 12])
           + configs_of([60], cps=lambda N: [0, 7, 60], us=lambda N: [2, 52, 60]))
    # sizes at which fft^2 leaves the 16 / 32-bit range, parameters in every (judged) type wide enough for the sizes
    big = [(182, 10, 100), (256, 64, 200), (46342, 2, 4), (65536, 0, 2)]
    pmax = {"int": 2 ** 62, "int8": 127, "uint8": 255, "int16": 32767, "uint16": 65535, "int32": 2 ** 31 - 1, "uint32": 2 ** 32 - 1,
            "int64": 2 ** 63 - 1, "uint64": 2 ** 64 - 1}
    # (the specification's Fits with L = 1: every size the API exposes is representable in the type)
    scalecases = [c + (t,) for c in big for t in JUDGED_PTYPES if max(c[0] + c[1], c[2]) <= pmax[t]]
    jobs.append({"label": "stars", "w": 1e12, "model": dict(mapffts=list(range(2, 65)), paramffts=[2, 3, 4, 6, 8], seed=seed,
                                                             scalecases=scalecases, longcases=LONG_CASES if tier == "quick" else LONG_CASES + LONG_MORE)})
    # parameter scalar types: full chains for sizes at the 8-bit thresholds of fft^2 (12, 16), small and non-pow2 sizes
    tcfg = [(4, 1, 4), (8, 2, 4), (8, 8, 8), (12, 5, 10), (16, 4, 10), (16, 16, 16), (60, 7, 52), (6, 0, 2)]
    jobs.append({"label": "ptypes", "w": 7e10, "model": dict(configs=tcfg, ptypes=PTYPES, seed=seed, lenmode="isi",
                                                              patmode="dense", ndense=1, laymode="one")})
    # every static realisation: each layout at the overall gains 1e-7 .. 1e7
    jobs.append({"label": "gains", "w": 5e10, "model": dict(configs=configs_of([2, 4, 8]) if tier == "quick" else configs_of([2, 4, 8, 16]),
                                                             gains=GAINS if tier != "quick" else [-7, -6, -4, -1, 0, 3, 7], seed=seed, lenmode="isi", patmode="dense", ndense=1,
                                                             laymode="one", block=(tier != "quick"))})
    if tier == "quick":
        # every length and the complete unit basis of the data, loopback (the product with the tap basis is in the thorough tier)
        add("data-sweep", pow2, 4, 2.0, lenmode="all", patmode="basis", ndense=1, laymode="none", block=False)
        # the complete unit basis of the taps (+ the three layouts), static and block-static, two lengths
        add("tap-sweep", pow2, 3, 1.0, cost_basis, lenmode="two", patmode="dense", ndense=1, laymode="basis", block=True)
        add("non-pow2", np2, 1, 1e6, lenmode="two", patmode="dense", ndense=1, laymode="three", block=True)
        # ONE live object: every history of 3 calls over 5 valid + 4 invalid parameter sets, full chain after every call
        # raw (quarter-sample) profiles with Ts # 1 through the three construction routes + a static library generator
        jobs.append({"label": "profiles", "w": 4e10, "model": dict(
            configs=[(8, 3, 6), (8, 8, 8), (4, 2, 4), (16, 5, 10), (6, 3, 4), (12, 5, 10), (5, 2, 4)], routes=ROUTES, orders=ORDERS, seed=seed,
            lenmode="isi", patmode="dense", ndense=1, laymode="three")})
        # five OFDM symbols per call (block-static rotation i^s has period 4)
        jobs.append({"label": "long", "w": 3e10, "model": dict(configs=configs_of([2, 4]), seed=seed, lenmode="long",
                                                                patmode="dense", ndense=1, laymode="one", block=True)})
        jobs.append({"label": "history", "w": 1e11, "model": dict(histvalid=HIST_VALID, histbad=HIST_BAD, histmax=3, usemax=1, seed=seed,
                                                                   lenmode="isi", patmode="dense", ndense=1, laymode="one")})
        # repeated modulate ... equalize chains on one object: every sequence of 3 uses over the lengths {u-1, u+1, 2u}
        # (one / two symbols, full and partial, same symbol count) for every configuration of fft <= 4 and four of fft 8
        jobs.append({"label": "uses", "w": 9e10, "model": dict(
            histfirst=configs_of([2, 4]) + [(8, 2, 4), (8, 3, 8), (8, 0, 6), (8, 8, 2)], histmax=1, usemax=3, seed=seed,
            lenmode="uses", patmode="dense", ndense=1, laymode="one", ownreal=True)})
        # uses before and after a (possibly rejected) reconfiguration: 2 uses {2u, u+1}, call, 2 uses
        jobs.append({"label": "reuse", "w": 8e10, "model": dict(
            histfirst=HIST_VALID, histvalid=[(8, 2, 4), (4, 1, 4)], histbad=[(8, 1, 3)], histmax=2, usemax=2, seed=seed,
            lenmode="pair", patmode="dense", ndense=1, laymode="none")})
    else:
        p16 = configs_of([16])
        # fft 16: every length, complete data basis; every tap layout of <= 3 taps; complete tap basis, block-static
        add("data-sweep16", p16, 12, 6.0, lenmode="all", patmode="basis", ndense=1, laymode="one", block=False)
        add("layouts16", p16, 16, 1.0, cost_all3, lenmode="isi", patmode="dense", ndense=1, laymode="all3", block=False)
        add("tap-sweep16", p16, 6, 2.0, cost_basis, lenmode="two", patmode="dense", ndense=1, laymode="basis", block=True)
        # fft <= 8: the complete product (data basis x all lengths) x (tap basis) x {static, block-static}; all layouts
        add("product8", pow2, 14, 3.0, cost_basis, lenmode="all", patmode="basis", ndense=1, laymode="basis", block=True)
        add("layouts8", pow2, 6, 2.0, cost_all3, lenmode="two", patmode="dense", ndense=2, laymode="all3", block=True)
        np2t = np2 + configs_of([12]) + configs_of([10, 15, 24], cps=lambda N: [0, 1, N // 2, N],
                                                    us=lambda N: [2, N // 2 // 2 * 2, N - N % 2])
        add("non-pow2", sorted(set(np2t)), 3, 1e3, lenmode="three", patmode="dense", ndense=2, laymode="three", block=True)
        add("profiles", configs_of([4, 8]) + [(16, 5, 10), (6, 3, 4), (12, 5, 10), (5, 2, 4), (7, 7, 6)], 4, 1e3, lenmode="two",
            patmode="dense", ndense=1, laymode="three", routes=ROUTES, orders=ORDERS, block=True)
        add("long", configs_of([2, 4, 8]), 2, 1e3, lenmode="long", patmode="dense", ndense=1, laymode="three", block=True)
        # ONE live object: every pair of calls over all 49 configurations of fft <= 8 (+ 8 rejected parameter sets), and every
        # history of 4 calls over the quick alphabet; full chain after every call
        bad8 = HIST_BAD + [(4, 1, 5), (8, 0, 10), (4, -1, 2), (2, 0, 1)]
        for i, first in enumerate(split(pow2, 5)):
            jobs.append({"label": f"history2/{i}", "w": 1e10, "model": dict(
                histfirst=first, histvalid=pow2, histbad=bad8, histmax=2, usemax=1, seed=seed, lenmode="isi", patmode="dense", ndense=1, laymode="one")})
        for i, c in enumerate(HIST_VALID):
            jobs.append({"label": f"history4/{i}", "w": 1e10, "model": dict(
                histfirst=[c], histvalid=HIST_VALID, histbad=HIST_BAD, histmax=4, usemax=1, seed=seed, lenmode="isi", patmode="dense", ndense=1, laymode="none")})
        for i, first in enumerate(split(pow2, 4)):   # every sequence of 3 uses for every configuration of fft <= 8
            jobs.append({"label": f"uses/{i}", "w": 1e10, "model": dict(
                histfirst=first, histmax=1, usemax=3, seed=seed, lenmode="uses", patmode="dense", ndense=1, laymode="one", ownreal=True)})
        for i, c in enumerate(HIST_VALID):           # 2 uses, call, 2 uses, call, 2 uses
            jobs.append({"label": f"reuse/{i}", "w": 1e10, "model": dict(
                histfirst=[c], histvalid=HIST_VALID[:3], histbad=HIST_BAD[:2], histmax=3, usemax=2, seed=seed,
                lenmode="pair", patmode="dense", ndense=1, laymode="none")})
    jobs.sort(key=lambda j: -j["w"])
    return jobs


def report(ctx, what, fid, case, label):
    if fid:
        ctx.finding(fid, what, case)
    else:
        ctx.violation(f"{label}: {what}", case)


def run(ctx):
    ctx.rule = ("TLC enumerates configurations x data lengths x data patterns x tap layouts of Ofdm.tla and checks the laws on "
                "every state; distinct = (configuration, length, pattern[, channel]) chains executed step by step on the real "
                "OFDM / TdlChannel / OfdmOneTapEqualizer and compared with the exact Cyc2 values TLC emitted")
    ctx.assumptions += ["harness evaluates a Cyc2 vector as sum_j c_j exp(2 pi i j / M) and the scale sqrt(ps)^e / div in floats",
                        "comparison tolerance 1e-9 relative to max(1,|expected|)",
                        "laws for all Gaussian-integer data follow from the unit patterns by linearity (stated in Ofdm.tla)",
                        "tap layouts whose response vanishes on a used bin are replaced by a dominant-first-tap layout in the spec",
                        "fft sizes that are not powers of two: index layer exact, intermediate numerics evaluated in Python (rel)",
                        "every replayed chain is repeated with random complex data / taps (same delays, dominant first tap) against "
                        "the property's own expectation 'symbols followed by zeros' (rel)",
                        "the user crops the channel output to the emitted length before demodulating (required by _remove_CP)"]
    jobs = plan(ctx.tier, ctx.seed)
    devs = [(dev, sorted(cfgs), allowed) for dev, (cfgs, allowed) in DEV_REFUTED_BY.items()]
    todo = [("dev", j) for j in devs] + [("part", j) for j in jobs]
    todo.sort(key=lambda t: 0 if t[0] == "part" else 1)
    results = pool_map(_dispatch, todo)
    nchains = 0
    for (kind, _), res in zip(todo, results):
        if kind == "dev":
            dev, violated, gen, dist, allowed = res
            if violated not in allowed:
                raise tlc.TlcError(f"deviation {dev} is not refuted by the laws of Ofdm.tla (TLC reported {violated})")
            ctx.notes.setdefault("deviations_refuted_by_model", {})[dev] = violated
            continue
        r = tlc.TlcResult()
        r.generated, r.distinct, r.depth, r.violated, r.trace_text, r.coverage, r.wall = (
            res["generated"], res["distinct"], res["depth"], res["violated"], res["trace_text"], res["coverage"], res["wall"])
        ctx.account(r, MODULE, res["label"])
        ctx.ok(n=res["ok"])
        ctx.distinct.update(res["keys"])
        ctx.trace_done(res["chains"])
        nchains += res["chains"]
        ctx.notes["layouts_not_equalised"] = ctx.notes.get("layouts_not_equalised", 0) + res["excluded"]
        if "pending" in res:
            ctx.notes["pending_unsigned_parameter_cases"] = {"mismatches": res["pending"], "example": res["pending_example"]}
        if res.get("lib", [0, 0])[1]:
            lib = ctx.notes.setdefault("static_library_channel_runs", {"run": 0, "skipped_ill_conditioned": 0})
            lib["run"] += res["lib"][1]
            lib["skipped_ill_conditioned"] += res["lib"][0]
        ctx.notes["histories_replayed"] = ctx.notes.get("histories_replayed", 0) + res.get("histories", 0)
        for k, v in res.get("shape_obs", {}).items():   # observation, not a verdict: the call changed the SHAPE of its argument
            obs = ctx.notes.setdefault("calls_that_reshaped_their_argument", {})
            obs[k] = obs.get(k, 0) + v
        if res["sample"]:
            ctx.sample(res["sample"], limit=3)
        for what, fid, case in res["viol"]:
            report(ctx, what, fid, case, res["label"])
    ctx.require_actions(ACTIONS)
    ctx.exhaustive = True
    ctx.notes["chains_replayed"] = nchains
    ctx.notes["partitions"] = len(jobs)


def _dispatch(t):
    return dev_job(t[1]) if t[0] == "dev" else partition(t[1])


def replay(ctx, data):
    c = data["case"]
    if "history" in c:
        bad, okc, _ = check_history(c["history"])
        ctx.ok(n=okc)
        for what, fid in bad:
            report(ctx, what, fid, c, "replay")
        return
    if "star" in c:
        w = check_star(c["star"])
        if w:
            ctx.violation(w, c)
        else:
            ctx.ok("star")
        return
    bad, okc = check_chain(c)
    ctx.ok(n=okc)
    for what, fid, _ in bad:
        report(ctx, what, fid, c, "replay")
