"""C03 stage T (exact part): random call sequences RECORDED on the real channel classes, validated by TLC against
the actions of Tdl.tla (spec/chan/Trace_Tdl.tla, one batched run).

The recorder decides nothing.  The real Jakes / Rayleigh generators are wrapped by a logging subclass (every
generate / skip call and the running position are logged); for every public call the recorder logs integers only:
length of the returned signal, number of samples and tap indexes of the response reported afterwards, the number
of carriers numpy selects with the selection object, the generator calls made, the position afterwards.  Whether
these are what the call sequence demands (block size = |selection| for ARBITRARY slices over fft sizes 2..64,
one generated + fft-1 skipped samples per block, n per time-domain call, length n + memory with the memory of the
nearest-even discretisation of a RANDOM quarter-sample profile) is decided by the specification."""
import json
import os
import tempfile

import numpy as np
import warnings

# a tap of power 0 is -inf dB: the library's linear2dB warns (and is right to return -inf)
warnings.filterwarnings("ignore", message="divide by zero encountered in log10")

from .. import tlc
from ..core import pool_map

TRACE_MODULE = "chan/Trace_Tdl.tla"
NONE = 99


def _logging(base):
    class Logged(base):
        """the real generator; every call the channel makes on it is logged"""

        def __init__(self, *a, **kw):
            self.vlog = []
            self.vpos = 0
            self.registry = None
            super().__init__(*a, **kw)

        def generate_more_samples(self, num_samples=None):
            n = 1 if num_samples is None else int(num_samples)
            self.vlog.append(["g", n])
            self.vpos += n
            return super().generate_more_samples(num_samples)

        def skip_samples_for_next_generation(self, num_samples):
            self.vlog.append(["s", int(num_samples)])
            self.vpos += int(num_samples)
            return super().skip_samples_for_next_generation(num_samples)

        def get_similar_fading_generator(self):
            g = super().get_similar_fading_generator()      # the library's own sibling construction
            g.__class__ = type(self)
            g.vlog, g.vpos, g.registry = [], 0, self.registry
            if self.registry is not None:
                self.registry.append(g)
            return g

    return Logged


def _rand_slice(rng, fft):
    vals = [None] + list(range(-fft - 2, fft + 3))
    while True:
        a, b = vals[rng.randint(len(vals))], vals[rng.randint(len(vals))]
        c = [None, 1, 2, 3, 4, 5, 6, 7, -1, -2, -3, -4, -5, -7][rng.randint(14)]
        if len(range(*slice(a, b, c).indices(fft))) > 0:
            return [NONE if v is None else int(v) for v in (a, b, c)]


def record_one(job):
    from pyphysim.channels import fading, fading_generators, singleuser, multiuser
    seed = job["seed"]
    rng = np.random.RandomState(seed)
    np.random.seed(seed % (2 ** 31))
    kind = ["tdl", "tdl", "su", "mu"][rng.randint(4)]
    ant = [(0, 0), (0, 0), (2, 1), (1, 2), (2, 3), (3, 2), (1, 1)][rng.randint(7)]
    users = (1, 1) if kind != "mu" else [(2, 2), (1, 2), (2, 3), (3, 1)][rng.randint(4)]
    ntap = rng.randint(1, 7)
    qd = rng.randint(0, 41, size=ntap)
    if rng.rand() < 0.4:
        qd[rng.randint(ntap)] = 4 * rng.randint(0, 10) + 2            # a half-sample tie
    pw = [[int(rng.randint(1, 10)), int(rng.randint(1, 10))] for _ in range(ntap)]
    if ntap > 1 and rng.rand() < 0.2:
        pw[rng.randint(ntap)] = [0, 1]                                  # a tap of power 0 (-inf dB)
    prof = [[int(q), p] for q, p in zip(qd, pw)]
    ts = 2.0 ** -int([0, 10, 20, 25][rng.randint(4)])
    dB = np.array([10 * np.log10(p[0] / p[1]) if p[0] else -np.inf for p in pw])
    delays = qd / 4.0 * ts
    nr, nt = ant
    shape = None if nr == 0 else (nr, nt)
    jakes = rng.rand() < 0.5
    if jakes:
        gen = _logging(fading_generators.JakesSampleGenerator)(Fd=float(rng.uniform(1, 200)), Ts=ts, L=int(rng.randint(2, 10)), shape=shape)
    else:
        gen = _logging(fading_generators.RayleighSampleGenerator)(shape=shape)
    registry = []
    gen.registry = registry
    # amplitudes 1/2 everywhere; identity (cross links blocked: path loss exactly 0; a single link: 0)
    pls = [[[[1, 2] for _ in range(users[1])] for _ in range(users[0])],
           [[[1, 1] if (r == t and users != (1, 1)) else [0, 1] for t in range(users[1])] for r in range(users[0])]]
    try:
        if kind == "tdl":
            ch = fading.TdlChannel(gen, tap_powers_dB=dB, tap_delays=delays, Ts=ts)
        elif kind == "su":
            ch = singleuser.SuChannel(gen, tap_powers_dB=dB, tap_delays=delays, Ts=ts)
            if nr:
                ch.set_num_antennas(nr, nt)
        elif nr:
            ch = multiuser.MuMimoChannel(users, nr, nt, gen, tap_powers_dB=dB, tap_delays=delays, Ts=ts)
        else:
            ch = multiuser.MuChannel(users, gen, tap_powers_dB=dB, tap_delays=delays, Ts=ts)
    except ValueError as ex:
        if "math domain error" in str(ex) and len(set(qd.tolist())) == 1:
            return {"id": job["id"], "seed": seed, "skipped": "ProfileRmsSqrtDomain", "exc": f"ValueError: {ex}", "prof": prof, "ts": ts}
        raise
    gens = registry if kind == "mu" else [gen]
    for g in gens:
        g.vlog, g.vpos = [], 0
    mem = int(ch.channel_profile.tap_delays[-1])
    ffts = [2, 4, 8, 16, 32, 64]
    ops, ev = [], []
    switched, pl = False, 0
    kr, kt = users
    ants = [list(ant)] + ([[2, 2] if tuple(ant) != (2, 2) else [0, 0], [0, 0] if nr else [1, 2]] if kind in ("tdl", "su") else [])
    ai = 1
    for step in range(rng.randint(3, 9)):
        r = rng.rand()
        o = None
        if r < 0.35:
            o = dict(k="T", s=1, n=int(rng.randint(0, 60)), fft=0, sk="none", sel=[])       # 0 = empty input
        elif r < 0.75 and ffts:
            fft = int(ffts[rng.randint(len(ffts))])
            sk = ["none", "slice", "slice", "slice", "array", "list"][rng.randint(6)]
            if sk == "slice":
                sel = _rand_slice(rng, fft)
            elif sk == "none":
                sel = []
            else:
                sel = rng.randint(-fft, fft, size=rng.randint(1, 12)).tolist()
            o = dict(k="F", s=1, n=int(rng.randint(1, 4)), fft=fft, sk=sk, sel=sel)
        elif r < 0.85:
            o = dict(k="Dir", s=0, n=int(not switched), fft=0, sk="none", sel=[])
        elif r < 0.93 and kind in ("su", "mu"):
            o = dict(k="PL", s=0, n=int([x for x in (0, 1, 2) if x != pl][rng.randint(2)]), fft=0, sk="none", sel=[])
        elif kind == "tdl" and r < 0.97:
            o = dict(k="Gen", s=0, n=int(rng.randint(1, 30)), fft=0, sk="none", sel=[])
        elif kind in ("tdl", "su"):
            o = dict(k="Ant", s=0, n=int([x for x in (1, 2, 3) if x != ai][rng.randint(2)]), fft=0, sk="none", sel=[])
        if o is None:
            continue
        for g in gens:
            g.vlog = []
        e = dict(raised=False, outlen=0, nsamp=0, cnt=0, calls=[], same=True, pos=0, delays=[], dir=False)
        try:
            inu, ina = (kr, nr) if switched else (kt, nt)
            if o["k"] in ("T", "F"):
                if o["k"] == "F":
                    selobj = (None if o["sk"] == "none" else slice(*[None if v == NONE else v for v in o["sel"]]) if o["sk"] == "slice"
                              else list(o["sel"]) if o["sk"] == "list" else np.array(o["sel"], dtype=int))
                    e["cnt"] = int(o["fft"] if selobj is None else len(np.arange(o["fft"])[selobj]))
                    n = o["n"] * e["cnt"]
                else:
                    n = o["n"]
                shp = ((inu,) if kind == "mu" else ()) + ((ina,) if nr else ()) + (n,)
                x = rng.randn(*shp) + 1j * rng.randn(*shp)
                y = ch.corrupt_data(x) if o["k"] == "T" else ch.corrupt_data_in_freq_domain(x, o["fft"], selobj)
                if kind == "mu":
                    lens = {int(np.shape(v)[-1]) for v in y}
                    e["outlen"] = lens.pop() if len(lens) == 1 else -1
                else:
                    e["outlen"] = int(np.shape(y)[-1])
                ir = ch.get_last_impulse_response(0, 0) if kind == "mu" else ch.get_last_impulse_response()
                e["nsamp"] = int(ir.num_samples)
                e["delays"] = [int(v) for v in ir.tap_indexes_sparse]
            elif o["k"] == "Gen":
                ch.generate_impulse_response(o["n"])
                e["nsamp"] = int(ch.get_last_impulse_response().num_samples)
            elif o["k"] == "Dir":
                ch.switched_direction = bool(o["n"])
                switched = bool(o["n"])
            elif o["k"] == "Ant":
                nr, nt = ants[o["n"] - 1]
                if nr:
                    ch.set_num_antennas(nr, nt)
                else:
                    ch.set_num_antennas(None, None)
                ai = o["n"]
            else:
                if o["n"] == 0:
                    ch.set_pathloss(None)
                elif kind == "su":
                    ch.set_pathloss(float((pls[o["n"] - 1][0][0][0] / pls[o["n"] - 1][0][0][1]) ** 2))
                else:
                    ch.set_pathloss(np.array([[(a[0] / a[1]) ** 2 for a in row] for row in pls[o["n"] - 1]]))
                pl = o["n"]
        except Exception as ex:
            e["raised"] = True
            e["exc"] = f"{type(ex).__name__}: {ex}"
        e["calls"] = [list(c) for c in gens[0].vlog]
        e["same"] = all(g.vlog == gens[0].vlog for g in gens)
        e["pos"] = int(gens[0].vpos)
        e["dir"] = bool(ch.switched_direction)
        ops.append(o)
        ev.append(e)
        if e["raised"]:
            break
    cfg = dict(id=job["id"], kind=kind, prof=prof, ant=list(ant), ants=ants, users=list(users), pls=pls if kind != "tdl" else [], ops=ops,
               maxpos=10 ** 6, ntaps=0)
    return {"id": job["id"], "seed": seed, "cfg": cfg, "ev": ev, "gen": "jakes" if jakes else "rayleigh", "ts": ts}


def record(ctx):
    n = 4000 if ctx.tier == "thorough" else 200
    jobs = [{"id": i + 1, "seed": (ctx.seed * 999983 + i * 13 + 5) % (2 ** 31)} for i in range(n)]
    return pool_map(record_one, jobs, chunksize=max(1, n // 64))


def _cfg():
    from . import c03
    dummy_sig = [[[[[0, 0]] * 256]]] * 2
    defs = {"Configs": "TraceConfigs", "Table": "<<>>", "Signals": tlc.tla(dummy_sig), "Dev": tlc.tla({k: False for k in c03.DEVS})}
    cfg = tlc.cfg_text(constants={"MaxPos": str(10 ** 6)}, defs=defs, init="TInit", next_="TNext",
                       invariants=["Conforms", "TypeOK"], properties=["DiscLaw", "BlockLaw", "PosLaw", "SetLaw"])
    return cfg, defs


def _tlc_view(t):
    keep = ("raised", "outlen", "nsamp", "cnt", "calls", "same", "pos", "delays", "dir")
    return {"cfg": t["cfg"], "ev": [{k: e[k] for k in keep} for e in t["ev"]]}


def is_slice_defect(o):
    if o["k"] != "F" or o["sk"] != "slice":
        return False
    a, b, c = slice(*[None if v == NONE else v for v in o["sel"]]).indices(o["fft"])
    return (b - a) // c != len(range(a, b, c))


def validate(ctx, traces):
    skipped = [t for t in traces if "skipped" in t]
    for t in skipped:
        ctx.finding(t["skipped"], f"(recorded) TdlChannelProfile for taps {t['prof']} (Ts {t['ts']:g}) raised {t['exc']}",
                    {"kind": "trace", "job": {"id": t["id"], "seed": t["seed"]}})
    traces = [t for t in traces if "skipped" not in t and t["ev"]]
    from concurrent.futures import ThreadPoolExecutor
    from . import c03
    chunk = 500
    chunks = [traces[q:q + chunk] for q in range(0, len(traces), chunk)]

    def one(ts):
        fd, path = tempfile.mkstemp(prefix="c03-traces-", suffix=".json", dir=tlc.WORK if os.path.isdir(tlc.WORK) else None)
        with os.fdopen(fd, "w") as f:
            json.dump([_tlc_view(t) for t in ts], f)
        try:
            cfg, defs = _cfg()
            return tlc.run(TRACE_MODULE, cfg, defs=defs, env={"TRACE_FILE": path}, continue_=True, workers=1, heap="1500m")
        finally:
            os.unlink(path)
    with ThreadPoolExecutor(max(1, min(c03.TLC_PAR, len(chunks)))) as ex:
        runs = list(ex.map(one, chunks))
    bad = {}
    for ci, (ts, r) in enumerate(zip(chunks, runs)):
        if r.violated not in (None, "Conforms"):
            raise tlc.TlcError(f"Trace_Tdl: the specification's own law {r.violated} fails on a recorded trace:\n{r.trace_text[:2000]}")
        ctx.account(r, TRACE_MODULE, "recorded traces", expect_violation=r.violated)
        want_states = sum(len(t["ev"]) + 1 for t in ts)
        b = {}
        for m in r.emitted:
            b.setdefault(int(m["tid"]), m)
        if r.violated and not b:
            raise tlc.TlcError("Trace_Tdl: Conforms violated but no mismatch was emitted")
        if not b and r.distinct < want_states:
            raise tlc.TlcError(f"Trace_Tdl explored {r.distinct} states, the traces have {want_states}")
        for tid, m in b.items():
            bad[ci * chunk + tid] = m
    nev = 0
    seen = set()
    for i, t in enumerate(traces):
        m = bad.get(i + 1)
        if m is None:
            ctx.trace_done()
            ctx.ok(f"T|{t['seed']}", n=len(t["ev"]))
            nev += len(t["ev"])
            continue
        j = int(m["ev"]) - 1
        o, e = t["cfg"]["ops"][j], t["ev"][j]
        what = (f"recorded trace {t['id']} ({t['cfg']['kind']}, ant {t['cfg']['ant']}, users {t['cfg']['users']}, taps {t['cfg']['prof']}, "
                f"{t['gen']}): call {j + 1} {o} observed {e} does not conform to Tdl.tla in field '{m['field']}'")
        case = {"kind": "trace", "job": {"id": t["id"], "seed": t["seed"]}, "mismatch": m}
        ctx.ok(n=j)
        exc = e.get("exc", "")
        sig = json.dumps([o, t["cfg"]["kind"]], sort_keys=True)
        if m["field"] == "raised" and is_slice_defect(o) and exc.split(":")[0] in ("ValueError", "ZeroDivisionError"):
            if sig not in seen:
                ctx.finding("SliceBlockSizeFloorDiv", what, case)
        elif m["field"] == "raised" and o["k"] == "PL" and o["n"] == 0 and t["cfg"]["kind"] == "mu" and exc.startswith("TypeError"):
            if sig not in seen:
                ctx.finding("MuSetPathlossNoneRaises", what, case)
        else:
            ctx.violation(what, case)
        seen.add(sig)
    ctx.notes["traces_recorded"] = len(traces)
    ctx.notes["trace_events_validated"] = nev
    if traces:
        t = traces[len(traces) // 2]
        ctx.sample({"recorded_trace": {"cfg": {k: t["cfg"][k] for k in ("kind", "prof", "ant", "users")}, "calls": t["cfg"]["ops"][:3],
                                       "observed": t["ev"][:3]}}, limit=6)
    return [t for i, t in enumerate(traces) if (i + 1) not in bad]


def negative_control(ctx, conforming):
    """liveness of the binding: ONE logged value of ONE conforming recorded trace is corrupted (the generator position
    after a transmission, +1 - a value the trace specification computes from the whole history, not a length) and the
    shortened trace is validated by the same Trace_Tdl.tla in a separate small TLC run, which must reject it"""
    pick = None
    for t in conforming:
        for j, o in enumerate(t["cfg"]["ops"][:4]):
            if o["k"] in ("T", "F") and not t["ev"][j]["raised"]:
                pick = (t, j)
                break
        if pick:
            break
    if pick is None:
        raise tlc.TlcError("no conforming recorded trace with a transmission for the negative control")
    t, j = pick
    probe = json.loads(json.dumps({"cfg": t["cfg"], "ev": t["ev"][:j + 1]}))
    probe["cfg"]["ops"] = probe["cfg"]["ops"][:j + 1]
    probe["ev"][j]["pos"] += 1
    fd, path = tempfile.mkstemp(prefix="c03-probe-", suffix=".json", dir=tlc.WORK if os.path.isdir(tlc.WORK) else None)
    with os.fdopen(fd, "w") as f:
        json.dump([_tlc_view(probe)], f)
    try:
        cfg, defs = _cfg()
        r = tlc.run(TRACE_MODULE, cfg, defs=defs, env={"TRACE_FILE": path}, continue_=True, workers=1, heap="1g")
    finally:
        os.unlink(path)
    hit = [m for m in r.emitted if int(m["tid"]) == 1 and int(m["ev"]) == j + 1 and m["field"] == "pos"]
    if r.violated != "Conforms" or not hit:
        raise tlc.TlcError("trace validation did not report a corrupted generator position (binding not live)")
    ctx.account(r, TRACE_MODULE, "negative control", expect_violation="Conforms")
    ctx.notes["trace_negative_control"] = (f"generator position after call {j + 1} ({t['cfg']['ops'][j]['k']}) of recorded trace {t['id']} "
                                           f"corrupted by +1: rejected (field 'pos')")


def run(ctx):
    negative_control(ctx, validate(ctx, record(ctx)))


def replay(ctx, c):
    validate(ctx, [record_one(c["job"])])
