"""C05 - the Monte-Carlo runner runs exactly the requested repetitions per variation.

Stage M: spec/sim/Runner.tla over a family of grids x repetition limits x stop rules x skip
patterns x modes (all chosen in Init): step invariants and the action property hold; each
deviation flag is refuted.  spec/sim/Params.tla: row-major order and lookup by fixed values.
Stage R: every behaviour TLC produced is executed by a real SimulationRunner subclass whose
`_run_simulation` / `_keep_going` are driven by the emitted plan; compared: the sequence of calls
(variation, attempt, ok/skip), the arguments `_keep_going` saw, runned_reps, and every stored
result decoded back into the SET of merged attempts.
Stage T: the same runs are logged as traces (call / skip / keep_going / var_end events) and
validated by TLC against Runner's actions (spec/sim/Trace_Runner.tla)."""
import os
import shutil
import tempfile
from concurrent.futures import ThreadPoolExecutor

import numpy as np

from .. import tlc
from ..core import pool_map
from . import params_common as pc

MODULE = "sim/Runner.tla"
DEVS = ["FirstRepSkipEscapes", "SkipCounted", "GuardLE", "OrderByInsertion"]
INVS = ["RepIsMergedCount", "NoSkipMerged", "NoOverrun", "AttemptsAccounted", "StopReason", "NoEscape", "Complete", "CallOrder", "HookOrder"]


def model(gridlens, repmaxes, kgkinds, skipsets, modes, maxsim=1, exhaustive=2, dev=(), emit=True, errat=()):
    d = {k: (k in dev) for k in DEVS}
    defs = {"GridLens": "{" + ", ".join(tlc.tla(list(g)) for g in gridlens) + "}",
            "RepMaxes": "{" + ", ".join(str(r) for r in repmaxes) + "}",
            "KGKinds": "{" + ", ".join(tlc.tla(list(k)) for k in kgkinds) + "}",
            "SkipSets": "{" + ", ".join("{" + ", ".join(str(x) for x in s) + "}" for s in skipsets) + "}",
            "Modes": "{" + ", ".join(tlc.tla(list(m)) for m in modes) + "}",
            "ErrAt": "{" + ", ".join(tlc.tla(list(e)) for e in errat) + "}",
            "Dev": tlc.tla(d)}
    cfg = tlc.cfg_text(constants={"MaxSim": str(maxsim), "Exhaustive": str(exhaustive)}, defs=defs, invariants=INVS,
                       properties=["BodyOnlyAfterPositiveTest"], action_constraints=["Emit"] if emit else [])
    return cfg, defs


# ---------------------------------------------------------------------------- the real runner
def build_runner(case, log, workdir=None):
    from pyphysim.simulations.runner import SimulationRunner, SkipThisOne
    from pyphysim.simulations.results import Result, SimulationResults
    cfg = case["cfg"]
    grid = case["grid"]
    combos = [tuple(c) for c in case["combos"]]
    plans = cfg["plan"]

    # the Python values behind the value ids and the fixed parameters: the user may assign new ones between two simulate() calls
    state = {"values": pc.VALUES, "fixed": dict(pc.FIXED)}

    def var_of(params):
        vals = []
        for p in range(len(grid)):
            x = params[pc.NAMES[p]]
            ids = [k for k, val in state["values"][p].items() if pc.same_value(x, val)]
            if not ids:
                log.append(["bad", 0, f"the iteration was handed {pc.NAMES[p]} = {x!r}, which is not a value of the current grid"])
                return 1
            vals.append(ids[0])
        return combos.index(tuple(vals)) + 1 if grid else 1

    class Runner(SimulationRunner):
        def __init__(self):
            super().__init__(read_command_line_args=False)
            self.rep_max = cfg["repmax"]
            self.update_progress_function_style = None
            # parameters are added in an order different from the sorted one
            for p in pc.ADD_ORDER:
                if p < len(grid):
                    vals = [pc.VALUES[p][x] for x in grid[p]]
                    self.params.add(pc.NAMES[p], np.array(vals) if p == 2 else vals)
            for k, val in pc.FIXED.items():
                self.params.add(k, val)
            for p in reversed(range(len(grid))):
                self.params.set_unpack_parameter(pc.NAMES[p])
            self.attempt = {}
            self.buf = np.zeros(2)

        def _run_simulation(self, current_params):
            v = var_of(current_params)
            # what the iteration is handed: the variation's own index, the fixed parameters, the size of the grid
            if grid and (current_params.unpack_index != v - 1 or current_params.get_num_unpacked_variations() != len(combos)):
                log.append(["bad", v, f"unpack_index {current_params.unpack_index} / {current_params.get_num_unpacked_variations()} variations "
                                      f"for combination {v} of {len(combos)}"])
            for k, val in state["fixed"].items():
                if current_params[k] != val:
                    log.append(["bad", v, f"fixed parameter {k} is {current_params[k]!r} in the variation"])
            a = self.attempt.get(v, 0) + 1
            self.attempt[v] = a
            if [v, a] in case.get("errat", []):
                log.append(["call", v, a, "raise"])
                raise (ZeroDivisionError, FloatingPointError, OverflowError)[(v + a) % 3]("planned error of the user's iteration")
            if a in plans[v - 1]["skip"]:
                log.append(["call", v, a, "skip"])
                raise SkipThisOne("planned skip")
            log.append(["call", v, a, "ok"])
            r = SimulationResults()
            # an array-valued result reported from a work buffer that the iteration reuses for every call
            self.buf[:] = [2 ** (a - 1), 1]
            r.add_new_result("vec", Result.SUMTYPE, self.buf)
            r.add_new_result("tok", Result.SUMTYPE, 2 ** (a - 1))
            r.add_new_result("num", Result.RATIOTYPE, 2 ** (a - 1), 2 ** 20)
            r.add_new_result("cho", Result.CHOICETYPE, a % 3, 3)
            r.add_new_result("mis", Result.MISCTYPE, a)
            # a result that only some combinations ever update (an event counter): the others keep a never-updated result,
            # which still is that combination's stored result
            evt = Result("evt", Result.SUMTYPE)
            if v % 2 == 0:
                evt.update(1)
            r.add_result(evt)
            return r

        def _keep_going(self, current_params, current_sim_results, current_rep):
            v = var_of(current_params)
            sk = int(current_sim_results["num_skipped_reps"][-1].get_result())
            # what the predicate is handed must be the merge of the successful attempts so far (not a stale or partial object)
            tokr = current_sim_results["tok"][-1]
            seen = decode(tokr.get_result())
            if tokr.num_updates != len(seen):
                log.append(["bad", v, f"_keep_going was handed results with update count {tokr.num_updates} for merged attempts {seen}"])
            log.append(["test", v, int(current_rep), sk, seen])
            kg = plans[v - 1]["kg"]
            if kg[0] == "always":
                ans = True
            elif kg[0] == "stopAt":
                ans = current_rep < kg[1]
            else:
                ans = sk == 0
            # a user predicate may answer with any truthy / falsy value
            return (bool(ans), np.bool_(ans), int(ans))[v % 3]

        def _on_simulate_current_params_start(self, current_params):
            self.attempt[var_of(current_params)] = 0
            log.append(["call", var_of(current_params), 0, "start"])

        def _on_simulate_current_params_finish(self, current_params, current_params_sim_results=None):
            log.append(["call", var_of(current_params), 0, "finish"])

        def _on_simulate_start(self):
            log.append(["call", 0, 0, "simstart"])

        def _on_simulate_finish(self):
            log.append(["call", 0, 0, "simfinish"])

    # the stop rule and the iteration may be inherited from an intermediate class (as the simulators under apps/ do)
    class Derived(Runner):
        pass

    r = Derived() if len(case["calls"]) % 2 else Runner()
    r.state = state
    return r


def decode(tokval):
    n = int(round(tokval))
    return sorted(i + 1 for i in range(n.bit_length()) if (n >> i) & 1)


def check_results(lst_of, stored, what):
    """lst_of(name) -> list of Result objects (one per stored entry)"""
    for name in ("tok", "num", "cho", "mis", "evt", "num_skipped_reps"):
        lst = lst_of(name)
        if len(lst) != len(stored):
            return f"{what}: {len(lst)} stored results for {name}, expected {len(stored)}"
    for i, st in enumerate(stored):
        m = sorted(st["merged"])
        try:
            vec = lst_of("vec")[i].get_result()
            if list(np.asarray(vec, dtype=float)) != [float(sum(2 ** (a - 1) for a in m)), float(len(m))]:
                return f"{what}: variation {st['v']}: array-valued result {vec} is not the sum over attempts {m} (reported from a reused buffer)"
        except KeyError:
            pass
        tok = lst_of("tok")[i]
        got = decode(tok.get_result())
        if got != m:
            return f"{what}: variation {st['v']}: stored result is the merge of attempts {got}, expected {m}"
        if tok.num_updates != len(m):
            return f"{what}: variation {st['v']}: update count {tok.num_updates} != {len(m)}"
        rat = lst_of("num")[i]
        if rat.get_result() != sum(2 ** (a - 1) for a in m) / (len(m) * 2 ** 20):
            return f"{what}: variation {st['v']}: ratio result is not the merge of attempts {m}"
        cho = lst_of("cho")[i]
        want = [sum(1 for a in m if a % 3 == c) / len(m) for c in range(3)]
        if not np.allclose(cho.get_result(), want, atol=1e-12):
            return f"{what}: variation {st['v']}: choice result {cho.get_result()} != {want}"
        mis = lst_of("mis")[i]
        if mis.get_result() != max(m):
            return f"{what}: variation {st['v']}: misc result {mis.get_result()} is not the last merged attempt {max(m)}"
        evt = lst_of("evt")[i]
        want_evt = len(m) if st["v"] % 2 == 0 else 0
        if evt.num_updates != want_evt or (want_evt and evt.get_result() != want_evt):
            return f"{what}: variation {st['v']}: the event counter holds {evt.num_updates} updates, expected {want_evt}"
        sk = lst_of("num_skipped_reps")[i]
        if int(sk.get_result()) != st["skips"]:
            return f"{what}: variation {st['v']}: num_skipped_reps {sk.get_result()} != {st['skips']}"
    return None


def run_case(case):
    """-> (None | description, fid, trace)"""
    log = []
    cfg = case["cfg"]
    single = cfg["mode"][0] == "single"
    wd = None
    try:
        r = build_runner(case, log)
        if single:
            os.makedirs(tlc.WORK, exist_ok=True)
            wd = tempfile.mkdtemp(prefix="c05-", dir=tlc.WORK)
            r.set_results_filename(os.path.join(wd, "res"))
            r.partial_results_folder = os.path.join(wd, "partial")
        d = None
        sim = case["nsim"] - 1          # the emitted summary describes the LAST simulate() call of the chain
        earlier = None
        # the single-variation index as the int or (command-line route, documented) as a string
        as_str = single and (len(case["calls"]) + cfg["repmax"]) % 2 == 1
        sidx = (str(cfg["mode"][1] - 1) if as_str else cfg["mode"][1] - 1) if single else None
        for k in range(sim):              # earlier calls on the same runner (their own summaries are separate cases)
            r.rep_max = cfg["repmax"]
            if single and k % 2 == 0:
                r.simulate(sidx)          # the same single variation twice on one runner (and single -> all -> single)
            else:
                r.simulate()
            if not single:
                # what the user keeps from the earlier call is a value: the next simulate() must not change it
                earlier = (r.results, [x.get_result() for x in r.results["tok"]], list(r.results.runned_reps))
        r.rep_max = cfg["repmax"] if sim == 0 else cfg["repmax2"]
        if sim >= 1 and not single and (len(case["calls"]) // 2) % 2 == 0:
            # between two simulate() calls the user assigns other values (item syntax) to the unpacked parameters - same
            # lengths - and to a fixed one: the next run works on the NEW grid
            newvals = [{k: (v + 100.0 if not isinstance(v, str) else v + "x") for k, v in d.items()} for d in pc.VALUES]
            for p in range(len(case["grid"])):
                vals = [newvals[p][x] for x in case["grid"][p]]
                r.params[pc.NAMES[p]] = np.array(vals) if p == 2 else vals
            r.params["zz_scalar"] = 8
            r.state["values"] = newvals
            r.state["fixed"]["zz_scalar"] = 8
        for sim in [sim]:
            del log[:]
            try:
                if single:
                    for dp, _, fs in os.walk(wd):
                        for f in fs:
                            os.remove(os.path.join(dp, f))
                    r.simulate(sidx)
                else:
                    r.simulate()
            except Exception as ex:
                from pyphysim.simulations.runner import SkipThisOne
                if isinstance(ex, ArithmeticError) and "planned error" in str(ex):
                    if case["outcome"] != "raised":
                        return f"simulate() raised {type(ex).__name__} although no iteration was planned to fail", None, log
                    calls = [[e[1], e[2], e[3]] for e in log if e[0] == "call"]
                    if calls != case["calls"]:
                        return (f"an error raised by the user's iteration came out of simulate() after the calls {calls[-3:]}, "
                                f"expected {case['calls'][-3:]}"), None, log
                    return None, None, log
                if isinstance(ex, SkipThisOne):
                    return "SkipThisOne raised by the first repetition of a variation escaped simulate()", "FirstRepSkipEscapes", log
                return f"simulate() raised {type(ex).__name__}: {ex}", None, log
            if case["outcome"] == "raised":
                return ("an (arithmetic) error raised by the user's iteration was swallowed: simulate() returned normally "
                        f"(runned_reps {getattr(r, 'runned_reps', None)})"), None, log
            if earlier is not None:
                res0, vals0, reps0 = earlier
                if [x.get_result() for x in res0["tok"]] != vals0 or list(res0.runned_reps) != reps0:
                    return "the results object of the EARLIER simulate() call was changed by the later call", None, log
            bad = [e for e in log if e[0] == "bad"]
            if bad:
                return f"variation {bad[0][1]}: {bad[0][2]}", None, log
            calls = [[e[1], e[2], e[3]] for e in log if e[0] == "call"]
            tests = [[e[1], e[2], e[3], e[4]] for e in log if e[0] == "test"]
            if calls != case["calls"]:
                k = next((i for i, (a, b) in enumerate(zip(calls, case["calls"])) if a != b), min(len(calls), len(case["calls"])))
                return (f"simulate #{sim + 1}: call sequence differs at position {k}: got {calls[k] if k < len(calls) else 'end'}, "
                        f"expected {case['calls'][k] if k < len(case['calls']) else 'end'}"), None, log
            if tests != case["tests"]:
                k = next((i for i, (a, b) in enumerate(zip(tests, case["tests"])) if a != b), min(len(tests), len(case["tests"])))
                return (f"simulate #{sim + 1}: _keep_going consulted with (variation, rep, skips, merged attempts seen) = {tests[k] if k < len(tests) else 'end'}, "
                        f"expected {case['tests'][k] if k < len(case['tests']) else 'end'}"), None, log
            if single:
                if r.runned_reps != case["runned"][0]:
                    return f"runned_reps {r.runned_reps} != {case['runned'][0]}", None, log
                from pyphysim.simulations.results import SimulationResults
                files = [os.path.join(dp, f) for dp, _, fs in os.walk(wd) for f in fs if "_unpack_" in f]
                if len(files) != 1:
                    return f"single-variation run left {len(files)} partial files", None, log
                part = SimulationResults.load_from_file(files[0])
                d = check_results(lambda n: part[n], case["stored"], "partial file")
                if not d and part.current_rep != case["runned"][0]:
                    d = f"partial file current_rep {part.current_rep} != {case['runned'][0]}"
            else:
                if list(r.runned_reps) != case["runned"]:
                    return f"simulate #{sim + 1}: runned_reps {list(r.runned_reps)} != {case['runned']}", None, log
                if list(r.results.runned_reps) != case["runned"]:
                    return f"results.runned_reps {r.results.runned_reps} != {case['runned']}", None, log
                d = check_results(lambda n: r.results[n], case["stored"], f"simulate #{sim + 1}")
                if not d:
                    # lookups on the runner's own results (after the first and after a later simulate()): every partial
                    # assignment of the unpacked parameters (0 = not fixed), also none fixed / nothing unpacked
                    import itertools
                    g = case["grid"]
                    for fx in itertools.product(*[[0] + list(vals) for vals in g]):
                        fixed = {pc.NAMES[p]: r.state["values"][p][x] for p, x in enumerate(fx) if x}
                        idx = [i for i, c in enumerate(case["combos"]) if all(x == 0 or c[p] == x for p, x in enumerate(fx))]
                        got = r.results.get_result_values_list("tok", fixed_params=fixed)
                        exp = [float(sum(2 ** (a - 1) for a in case["stored"][i]["merged"])) for i in idx]
                        if [float(z) for z in got] != exp:
                            d = f"get_result_values_list(tok, {fixed}) returned {got}, expected the results of variations {[i + 1 for i in idx]}"
                            break
            if d:
                return d, None, log
        return None, None, log
    except Exception as ex:          # noqa - raised while the run's results were being examined: a verdict, not a harness error
        return f"the outcome of simulate() cannot be examined: {type(ex).__name__}: {ex}", None, log
    finally:
        if wd:
            shutil.rmtree(wd, ignore_errors=True)


# an iteration that raises an error of its own (not SkipThisOne): simulate() lets it out, at the planned place
ERR_FAMILIES = [dict(gridlens=[[2], [3], [2, 2]], repmaxes=[2, 3], kgkinds=[["always"]], skipsets=[[], [1]], modes=[["all"]], maxsim=1,
                     exhaustive=0, errat=[e]) for e in ([2, 1], [1, 2], [2, 3])]
# far more skipped attempts than repetitions asked for: none of them counts, none of them ends the combination early
SKIP_FAMILY = dict(gridlens=[[2]], repmaxes=[1, 2], kgkinds=[["always"]], skipsets=[[], list(range(1, 12)), list(range(2, 25))],
                   modes=[["all"], ["single", 1]], maxsim=1, exhaustive=2)
FAMILIES = {
    "quick": [
        dict(gridlens=[[], [2], [1, 2]], repmaxes=[1, 2, 3], kgkinds=[["always"], ["stopAt", 1], ["stopAt", 2], ["noSkip"]],
             skipsets=[[], [1], [2], [1, 2], [2, 3], [3]], modes=[["all"], ["single", 1], ["single", 2]], maxsim=1, exhaustive=2),
        dict(gridlens=[[2, 2], [3], [2, 1, 2]], repmaxes=[2, 3], kgkinds=[["always"], ["stopAt", 2], ["noSkip"]],
             skipsets=[[], [1], [2], [1, 3]], modes=[["all"], ["single", 3]], maxsim=2, exhaustive=0),
    ],
    "thorough": [
        dict(gridlens=[[], [2], [1, 2], [2, 1]], repmaxes=[1, 2, 3, 4], kgkinds=[["always"], ["stopAt", 1], ["stopAt", 2], ["stopAt", 3], ["noSkip"]],
             skipsets=[[], [1], [2], [1, 2], [2, 3], [3], [1, 2, 3], [2, 4], [1, 3, 5]], modes=[["all"], ["single", 1], ["single", 2]], maxsim=1, exhaustive=2),
        dict(gridlens=[[2, 2], [3], [2, 1, 2], [2, 3], [3, 2, 2]], repmaxes=[2, 3, 4], kgkinds=[["always"], ["stopAt", 2], ["stopAt", 3], ["noSkip"]],
             skipsets=[[], [1], [2], [1, 3], [2, 3, 4]], modes=[["all"], ["single", 3], ["single", 6]], maxsim=2, exhaustive=0),
    ],
}


def model_devs(ctx):
    fam = dict(FAMILIES["quick"][0], gridlens=[[2]], repmaxes=[2], modes=[["all"]])
    for dev in ("FirstRepSkipEscapes", "SkipCounted", "GuardLE"):
        cfg, defs = model(dev=[dev], emit=False, **fam)
        r = tlc.run(MODULE, cfg, defs=defs)
        if not r.violated:
            raise tlc.TlcError(f"deviation {dev} is not detected by the properties of Runner.tla")
        ctx.notes.setdefault("deviations_refuted_by_model", {})[dev] = r.violated


def run(ctx):
    ctx.rule = ("one behaviour per (grid, rep_max, per-variation stop rule and skip pattern, mode, number of simulate() calls) chosen by TLC in Init; "
                "distinct = distinct configurations executed on a real SimulationRunner")
    ctx.assumptions += ["the user's iteration and stop rule are deterministic functions of (variation, attempt) and (rep, skips)",
                        "simulate_in_parallel (ipyparallel) is not covered"]
    fams = FAMILIES[ctx.tier] + ERR_FAMILIES + [SKIP_FAMILY]
    with ThreadPoolExecutor(4) as ex:
        futs = [ex.submit(lambda f=f: tlc.run(MODULE, model(**f)[0], defs=model(**f)[1], coverage=True, timeout=3000, heap="3g")) for f in fams]
        devf = ex.submit(model_devs, ctx)
        runs = [f.result() for f in futs]
        devf.result()
    traces = []
    for k, r in enumerate(runs):
        ctx.account(r, MODULE, f"family{k}")
        cases = r.emitted
        for c in cases:
            c["errat"] = [list(e) for e in fams[k].get("errat", [])]
        res = pool_map(run_case, cases, chunksize=max(1, len(cases) // 128))
        for c, (d, fid, log) in zip(cases, res):
            ctx.ok(("run", tlc.tla(c["cfg"]["lens"]), str(c["cfg"])))
            ctx.trace_done()
            if d:
                if fid:
                    ctx.finding(fid, d, {"kind": "run", "case": c})
                else:
                    ctx.violation(d + f"  [cfg {c['cfg']}]", {"kind": "run", "case": c})
            else:
                traces.append((c, log))
        if cases:
            c = cases[len(cases) // 2]
            ctx.sample({"cfg": c["cfg"], "calls": c["calls"], "runned": c["runned"]})
    ctx.require_actions(["SimStart", "FirstRep", "Test", "Body", "VarEnd"])
    # parameter grid algebra: order and lookup (Params.tla)
    for universe, maxlen, label in ([([], [], "lookup/0params"), ([[1, 2, 3], [1, 2]], [2, 2], "lookup/2params"), ([[1, 2, 3, 4]], [3], "lookup/1param")] +
                                   ([([[1, 2, 3], [1, 2, 3], [1, 2]], [2, 2, 2], "lookup/3params")] if ctx.tier == "thorough"
                                    else [([[1, 2], [1, 2], [1, 2]], [2, 2, 2], "lookup/3params")])):
        r = pc.run_tlc(ctx, "lookup", universe, maxlen, label)
        res = pool_map(pc.run_case, r.emitted, chunksize=max(1, len(r.emitted) // 64))
        for c, d in zip(r.emitted, res):
            ctx.ok(("lookup", str(c["g"]), str(c["fx"])))
            if d:
                ctx.violation(f"{label}: {d}", {"kind": "lookup", "case": c})
    from . import c05_trace
    c05_trace.run(ctx, traces)


def replay(ctx, data):
    c = data["case"]
    if c["kind"] == "lookup":
        d, fid = pc.run_case(c["case"]), None
    else:
        d, fid, _ = run_case(c["case"])
    ctx.ok()
    if d:
        if fid:
            ctx.finding(fid, d, c)
        else:
            ctx.violation(d, c)
