"""Stage T for C05: runs of real SimulationRunner objects with RANDOM stop rules / skip patterns (and the
runs replayed in stage R) are recorded as event traces and validated by TLC (spec/sim/Trace_Runner.tla)."""
import json
import os
import random
import tempfile

from .. import tlc
from ..core import pool_map

MODULE = "sim/Trace_Runner.tla"


def record(job):
    """one random run -> trace dict (or a description of an exception)"""
    seed, = job
    rng = random.Random(seed)
    from pyphysim.simulations.runner import SimulationRunner, SkipThisOne
    from pyphysim.simulations.results import Result, SimulationResults
    nv = rng.choice([1, 2, 3, 4])
    repmax = rng.choice([1, 2, 3, 5, 8])
    pskip = rng.choice([0.0, 0.2, 0.5])
    # an arbitrary stop rule: a random boolean table of (rep, skips), per variation
    table = {(v, r, s): rng.random() < 0.8 for v in range(1, nv + 1) for r in range(0, 12) for s in range(0, 40)}
    events = []

    class Runner(SimulationRunner):
        def __init__(self):
            super().__init__(read_command_line_args=False)
            self.rep_max = repmax
            self.update_progress_function_style = None
            self.params.add("p", list(range(10, 10 + nv)))
            self.params.set_unpack_parameter("p")
            self.att = {}

        def _run_simulation(self, current_params):
            v = current_params["p"] - 9
            a = self.att.get(v, 0) + 1
            self.att[v] = a
            if rng.random() < pskip and self.att[v] < 30:
                events.append({"e": "call", "v": v, "a": a, "ok": False})
                raise SkipThisOne("random skip")
            events.append({"e": "call", "v": v, "a": a, "ok": True})
            r = SimulationResults()
            r.add_new_result("one", Result.SUMTYPE, 1)
            return r

        def _keep_going(self, current_params, current_sim_results, current_rep):
            v = current_params["p"] - 9
            sk = int(current_sim_results["num_skipped_reps"][-1].get_result())
            ret = table.get((v, int(current_rep), sk), True)
            events.append({"e": "test", "v": v, "r": int(current_rep), "s": sk, "ret": bool(ret)})
            return ret

        def _on_simulate_current_params_finish(self, current_params, current_params_sim_results=None):
            v = current_params["p"] - 9
            res = current_params_sim_results
            events.append({"e": "varend", "v": v, "r": int(res["one"][-1].num_updates), "m": int(res["one"][-1].get_result()),
                           "s": int(res["num_skipped_reps"][-1].get_result())})

    r = Runner()
    try:
        r.simulate()
    except Exception as ex:
        return {"error": f"simulate() raised {type(ex).__name__}: {ex}", "seed": seed}
    # the repetition count of a variation as the runner reports it
    for k, e in enumerate([e for e in events if e["e"] == "varend"]):
        e["r"] = int(r.runned_reps[k])
    events.append({"e": "simend", "runned": [int(x) for x in r.runned_reps]})
    return {"repmax": repmax, "nv": nv, "events": events, "seed": seed}


def record_repo_runner(job):
    """the repository's OWN test runners (tests/simulations_package_test.py) run under recording wrappers: their
    assertions are weak, the trace specification is not"""
    name, = job
    import importlib
    import sys
    repo = [p for p in sys.path if p.rstrip("/").endswith("repo") or os.path.isdir(os.path.join(p, "tests"))]
    for r in repo:
        if os.path.isdir(os.path.join(r, "tests")) and r not in sys.path[:1]:
            sys.path.insert(0, r)
            break
    try:
        mod = importlib.import_module("tests.simulations_package_test")
    except Exception as ex:     # the test module is not importable: nothing to record (not a verdict)
        return {"skip": f"{type(ex).__name__}: {ex}"}
    cls = getattr(mod, name, None)
    if cls is None:
        return {"skip": f"{name} not found"}
    from pyphysim.simulations.runner import SkipThisOne
    events = []
    runner = cls()
    att = {}
    orig_run, orig_kg = runner._run_simulation, runner._keep_going

    def run(current_params):
        v = current_params.unpack_index + 1 if current_params.unpack_index >= 0 else 1
        a = att.get(v, 0) + 1
        att[v] = a
        try:
            r = orig_run(current_params)
        except SkipThisOne:
            events.append({"e": "call", "v": v, "a": a, "ok": False})
            raise
        events.append({"e": "call", "v": v, "a": a, "ok": True})
        return r

    def kg(current_params, current_sim_results, current_rep):
        v = current_params.unpack_index + 1 if current_params.unpack_index >= 0 else 1
        ret = orig_kg(current_params, current_sim_results, current_rep)
        events.append({"e": "test", "v": v, "r": int(current_rep), "s": int(current_sim_results["num_skipped_reps"][-1].get_result()),
                       "ret": bool(ret)})
        return ret

    def fin(current_params, current_params_sim_results=None):
        v = current_params.unpack_index + 1 if current_params.unpack_index >= 0 else 1
        res = current_params_sim_results
        first = [n for n in res.get_result_names() if n not in ("elapsed_time", "num_skipped_reps")][0]
        events.append({"e": "varend", "v": v, "r": int(res[first][-1].num_updates), "m": int(res[first][-1].num_updates),
                       "s": int(res["num_skipped_reps"][-1].get_result())})

    runner._run_simulation = run
    runner._keep_going = kg
    runner._on_simulate_current_params_finish = fin
    try:
        runner.simulate()
    except Exception as ex:
        return {"error": f"{name}.simulate() raised {type(ex).__name__}: {ex}", "seed": name}
    for k, e in enumerate([e for e in events if e["e"] == "varend"]):
        e["r"] = int(runner.runned_reps[k])
    events.append({"e": "simend", "runned": [int(x) for x in runner.runned_reps]})
    return {"repmax": int(runner.rep_max), "nv": int(runner.params.get_num_unpacked_variations()), "events": events, "seed": name}


def from_replay(case, log):
    """a stage-R run (plan-driven) as a trace; `test` return values recomputed from the plan"""
    cfg = case["cfg"]
    if cfg["mode"][0] != "all" or case["nsim"] != 1:
        return None
    ev = []
    plans = cfg["plan"]
    cur = {"v": 0}
    merged = {}
    skips = {}
    for e in log:
        if e[0] == "call":
            if e[3] in ("ok", "skip"):        # (the hooks are logged as calls with attempt number 0: not trace events)
                ev.append({"e": "call", "v": e[1], "a": e[2], "ok": e[3] == "ok"})
        elif e[0] == "test":
            kg = plans[e[1] - 1]["kg"]
            ret = True if kg[0] == "always" else (e[2] < kg[1] if kg[0] == "stopAt" else e[3] == 0)
            ev.append({"e": "test", "v": e[1], "r": e[2], "s": e[3], "ret": ret})
    # variation ends are not logged by stage R: insert them from the observed results
    out = []
    for k, e in enumerate(ev):
        out.append(e)
        nxt = ev[k + 1] if k + 1 < len(ev) else None
        if e["e"] == "test" and (nxt is None or nxt["v"] != e["v"]):
            st = case["stored"][e["v"] - 1]
            out.append({"e": "varend", "v": e["v"], "r": case["runned"][e["v"] - 1], "m": len(st["merged"]), "s": st["skips"]})
    out.append({"e": "simend", "runned": case["runned"]})
    return {"repmax": cfg["repmax"], "nv": len(plans), "events": out, "seed": -1}


def validate(ctx, traces, label):
    os.makedirs(tlc.WORK, exist_ok=True)
    fd, path = tempfile.mkstemp(prefix="c05-traces-", suffix=".json", dir=tlc.WORK)
    try:
        with os.fdopen(fd, "w") as f:
            json.dump(traces, f)
        cfg = tlc.cfg_text(invariants=["Conforms", "RepIsMergedCount", "NoOverrun", "AttemptsAccounted", "Finished"])
        r = tlc.run(MODULE, cfg, env={"TRACE_FILE": path}, workers=4, timeout=1800)
        ctx.account(r, MODULE, label, expect_violation="any")
        if r.violated:
            import re
            m = re.search(r"mismatch = <<(\d+), (\d+), \"([^\"]*)\">>", r.trace_text)
            if m:
                t = traces[int(m.group(1)) - 1]
                ctx.violation(f"{label}: recorded run rejected by Trace_Runner at event {m.group(2)}: {m.group(3)}",
                              {"kind": "trace", "trace": t, "event_index": int(m.group(2)), "reason": m.group(3)})
            else:
                ctx.violation(f"{label}: recorded run violates {r.violated} of Trace_Runner", {"kind": "trace", "text": r.trace_text[:3000]})
        ctx.trace_done(len(traces))
    finally:
        os.remove(path)


def run(ctx, replayed):
    n = 400 if ctx.tier == "quick" else 5000
    recs = pool_map(record, [(ctx.seed * 1000003 + k,) for k in range(n)], chunksize=max(1, n // 64))
    good = []
    for t in recs:
        if "error" in t:
            ctx.violation("random run: " + t["error"], {"kind": "trace-error", "seed": t["seed"]})
        else:
            good.append(t)
    ctx.sample({"recorded_trace": good[0]["events"][:8]} if good else {})
    validate(ctx, good, "random-runs")
    own = [t for t in pool_map(record_repo_runner, [("_DummyRunner",), ("_DummyRunnerWithSkip",), ("_DummyRunnerRandom",)], procs=3)]
    for t in own:
        if "error" in t:
            ctx.violation("repository test runner: " + t["error"], {"kind": "trace-error", "seed": t["seed"]})
    own = [t for t in own if "events" in t]
    ctx.notes["repo_test_runners_validated"] = [t["seed"] for t in own]
    if own:
        validate(ctx, own, "repository-test-runners")
    rt = [x for x in (from_replay(c, log) for c, log in replayed[:3000]) if x]
    if rt:
        validate(ctx, rt, "replayed-runs")
    # self-test of the binding: one corrupted field must be rejected
    if good:
        bad = json.loads(json.dumps(good[0]))
        for e in bad["events"]:
            if e["e"] == "varend":
                e["m"] += 1
                break
        cfg = tlc.cfg_text(invariants=["Conforms"])
        fd, path = tempfile.mkstemp(prefix="c05-neg-", suffix=".json", dir=tlc.WORK)
        with os.fdopen(fd, "w") as f:
            json.dump([bad], f)
        try:
            r = tlc.run(MODULE, cfg, env={"TRACE_FILE": path}, timeout=600)
        finally:
            os.remove(path)
        if not r.violated:
            raise tlc.TlcError("Trace_Runner accepted a corrupted trace (binding is not live)")
        ctx.notes["trace_negative_control"] = "corrupted merged-count rejected"
