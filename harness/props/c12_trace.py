"""C12 stage T: calls of the real doWF on random rational inputs OUTSIDE the alphabet enumerated by
WaterFilling.tla are recorded, the float results are converted to exact rationals and one batched
TLC run (spec/comm/Trace_WaterFilling.tla) validates every call against the KKT conditions
(integer arithmetic in units of 1/U, see the module header).  Python computes no expected value."""
import json
import os
import uuid
from fractions import Fraction

import numpy as np

from .. import tlc

MODULE = "comm/Trace_WaterFilling.tla"
FID = "MuIgnoresEs"
MAXDEN = 10 ** 6          # true denominators are <= 12 * 10800 (inputs a/b, a,b in 1..6, n <= 4): unique recovery
RT_TOL = 1e-12
JVM_ENV = {"JAVA_TOOL_OPTIONS": "-XX:ParallelGCThreads=1 -XX:CICompilerCount=2"}


def to_rat(x):
    """float -> ([n, d], exact?) : nearest rational with denominator <= MAXDEN, round trip within RT_TOL"""
    x = float(x)
    if not np.isfinite(x):
        return [0, 1], False
    f = Fraction(x).limit_denominator(MAXDEN)
    return [f.numerator, f.denominator], abs(float(f) - x) <= RT_TOL


def rand_rat(rng):
    f = Fraction(int(rng.randint(1, 7)), int(rng.randint(1, 7)))
    return [f.numerator, f.denominator]


def gen_inputs(rng, count):
    res = []
    for _ in range(count):
        n = int(rng.randint(1, 5))
        integral = rng.randint(0, 4) == 0     # a quarter of the calls have whole-number gains (int dtypes possible)
        g = [[int(rng.randint(1, 7)), 1] for _ in range(n)] if integral else [rand_rat(rng) for _ in range(n)]
        res.append({"g": g, "p": rand_rat(rng), "n0": rand_rat(rng), "es": rand_rat(rng), "how": int(rng.randint(0, 6))})
    return res


def gen_long_inputs(rng, count):
    """vectors of 17..100 channels (beyond the lengths TLC enumerates; numpy sorts them on another code path) over
    the small alphabet a/b, a,b in 1..4 - many equal gains - with a total power between 1/4 and 4n, so that anything
    from one to all channels is active.  Denominators stay small at any length: U <= n * 576."""
    def r4():
        f = Fraction(int(rng.randint(1, 5)), int(rng.randint(1, 5)))
        return [f.numerator, f.denominator]
    res = []
    for _ in range(count):
        n = int(rng.randint(17, 101))
        p = Fraction(int(rng.randint(1, 5)), int(rng.randint(1, 5))) * int(rng.randint(1, n + 1))
        res.append({"g": [r4() for _ in range(n)], "p": [p.numerator, p.denominator], "n0": r4(), "es": r4(),
                    "how": int(rng.randint(0, 6))})
    return res


def present(gf, inp, how):
    """the gain vector in one of several exact numpy representations (chosen by the recorder's seed)"""
    integral = all(b == 1 for _, b in inp["g"])
    if how == 1 and integral:
        return gf.astype(np.int64), "int64"
    if how == 2 and integral:
        return gf.astype(np.int32), "int32"
    if how == 3:
        big = np.full(2 * len(gf) + 1, 7.0)
        big[1::2] = gf
        return big[1::2], "strided"
    if how == 4:
        return gf[::-1].copy()[::-1], "reversed"
    if how == 5:
        ro = gf.copy()
        ro.setflags(write=False)
        return ro, "readonly"
    return gf, "float64"


def record(inp):
    """one call of the real doWF, logged at its return"""
    from pyphysim.comm import waterfilling
    t = {k: inp[k] for k in ("g", "p", "n0", "es")}
    t["how"] = inp.get("how", 0)
    g, t["as"] = present(np.array([a / b for a, b in inp["g"]], dtype=float), inp, inp.get("how", 0))
    try:
        with np.errstate(all="ignore"):
            pw, mu = waterfilling.doWF(g, inp["p"][0] / inp["p"][1], inp["n0"][0] / inp["n0"][1],
                                       inp["es"][0] / inp["es"][1])
        pw = np.asarray(pw, dtype=float).ravel()
        conv = [to_rat(x) for x in pw] + [to_rat(mu)]
        t.update(outcome="ok", pw=[c[0] for c in conv[:-1]], mu=conv[-1][0], exact=all(c[1] for c in conv),
                 raw={"pw": pw.tolist(), "mu": float(mu)})
    except Exception as ex:
        t.update(outcome=f"raised:{type(ex).__name__}", pw=[], mu=[0, 1], exact=False, raw={"error": str(ex)})
    return t


def validate(ctx, traces, label):
    """one TLC run over all traces -> {tid (1-based): mismatch}"""
    os.makedirs(tlc.WORK, exist_ok=True)
    path = os.path.join(tlc.WORK, f"c12-traces-{uuid.uuid4().hex[:8]}.json")
    with open(path, "w") as f:
        json.dump([{k: v for k, v in t.items() if k not in ("raw", "as", "how")} for t in traces], f)
    try:
        env = dict(JVM_ENV, TRACE_FILE=path)
        # run 1: the conformance invariant over all traces (stops at the first mismatching call)
        r = tlc.run(MODULE, tlc.cfg_text(invariants=["Conforms"]), workers=1, env=env, heap="1g")
        bad = {}
        if r.violated == "Conforms":
            # run 2: name EVERY mismatching call (emission only; printing one counterexample per call
            # with -continue was measured at 78 s for 1 300 mismatches, this takes 3 s)
            r2 = tlc.run(MODULE, tlc.cfg_text(action_constraints=["Emit"]), workers=1, env=env, heap="1g")
            bad = {e["tid"]: e["mismatch"] for e in r2.emitted}
            if r2.distinct != len(traces) + 1 or not bad:
                raise tlc.TlcError(f"trace validation: enumeration run visited {r2.distinct - 1} of {len(traces)} "
                                   f"traces and named {len(bad)} mismatches although Conforms is violated")
        elif r.distinct != len(traces) + 1:
            raise tlc.TlcError(f"trace validation visited {r.distinct - 1} of {len(traces)} traces")
    finally:
        os.unlink(path)
    ctx.account(r, MODULE, label, expect_violation="Conforms" if bad else None)
    return bad


def describe(t, mm):
    call = (f"doWF(g={['%d/%d' % tuple(x) for x in t['g']]} as {t.get('as', 'float64')} array, P={t['p'][0]}/{t['p'][1]}, N0={t['n0'][0]}/{t['n0'][1]}, "
            f"Es={t['es'][0]}/{t['es'][1]}) returned {t['raw']}: ")
    what = {"raised": "the call raised", "shape": "wrong number of powers", "inexact": "a result is not a rational with small denominator",
            "den": "a result is not a multiple of 1/U (cannot satisfy KKT)", "nonneg": "negative power",
            "sum": "powers do not sum to P", "kkt": "p_i != max(0, mu - N0/(Es g_i)) for the returned mu",
            "MuIgnoresEs": "KKT fails for the returned mu but holds for mu - N0/g_best + N0/(Es g_best): Es is missing"}
    return call + what.get(mm[0], str(mm[0])) + f" [clause {mm}]"


def judge(ctx, traces, bad):
    order = sorted(bad, key=lambda i: (len(traces[i - 1]["g"]), i))
    for i in order:
        t, mm = traces[i - 1], bad[i]
        case = {"stage": "T", "trace": dict({k: t[k] for k in ("g", "p", "n0", "es")}, how=t.get("how", 0)), "observed": t["raw"], "mismatch": mm}
        if mm[0] == FID:
            ctx.finding(FID, describe(t, mm), case)
        else:
            ctx.violation(describe(t, mm), case)
    ctx.trace_done(len(traces))


def negative_control(ctx, traces, bad):
    """liveness of the binding: ONE logged value of one conforming recorded call is corrupted (the water level
    mu -> mu + 1/den(mu): same denominator, so the verdict has to come from the KKT clause that binds the
    value) and validated by the same Trace_WaterFilling.tla in a separate single-trace TLC run.  TLC must
    reject it; the probe is not a verdict about the tree under test."""
    idx = next((i for i, t in enumerate(traces, 1) if i not in bad and t["outcome"] == "ok"), None)
    if idx is None:            # nothing conforming recorded (grossly broken tree): the violations speak already
        ctx.notes["trace_negative_control"] = "skipped: no conforming recorded call"
        return
    t = json.loads(json.dumps({k: v for k, v in traces[idx - 1].items() if k not in ("raw", "as", "how")}))
    t["mu"] = [t["mu"][0] + 1, t["mu"][1]]
    os.makedirs(tlc.WORK, exist_ok=True)
    path = os.path.join(tlc.WORK, f"c12-probe-{uuid.uuid4().hex[:8]}.json")
    with open(path, "w") as f:
        json.dump([t], f)
    try:
        r = tlc.run(MODULE, tlc.cfg_text(invariants=["Conforms"]), workers=1, env=dict(JVM_ENV, TRACE_FILE=path), heap="1g")
    finally:
        os.unlink(path)
    if r.violated != "Conforms":
        raise tlc.TlcError("trace validation did not report a corrupted water level (binding not live)")
    ctx.account(r, MODULE, "negative control: recorded call with corrupted water level", expect_violation="Conforms")
    ctx.notes["trace_negative_control"] = (f"water level of recorded call {idx} changed from {traces[idx - 1]['mu']} "
                                           f"to {t['mu']}: rejected")


def run(ctx):
    rng = np.random.RandomState(1000003 * ctx.seed + 12)
    count = 20000 if ctx.tier == "thorough" else 1500
    nlong = count // 5
    traces = [record(i) for i in gen_inputs(rng, count) + gen_long_inputs(rng, nlong)]
    bad = validate(ctx, traces, f"{count} recorded calls, random rationals a/b (a,b in 1..6), length 1-4, and "
                                f"{nlong} calls of length 17-100 (a,b in 1..4)")
    judge(ctx, traces, bad)
    negative_control(ctx, traces, bad)
    ctx.notes["recorded_calls_validated"] = len(traces)
    ctx.notes["recorded_long_vectors"] = {"calls": nlong, "max_switched_off_in_one_call": max(
        (sum(1 for x in t["pw"] if x[0] == 0) for t in traces[count:] if t["outcome"] == "ok"), default=0)}
    ctx.assumptions.append("stage T: float results converted by Fraction.limit_denominator(1e6), round trip <= 1e-12; "
                           "true denominators divide U <= 129600 (short) / 57600 (long vectors), so the conversion is unique")
    ctx.sample({"stage": "T", "call": {k: traces[0][k] for k in ("g", "p", "n0", "es", "pw", "mu")}})


def replay(ctx, c):
    t = record(c["trace"])
    bad = validate(ctx, [t], "replay of one recorded call")
    judge(ctx, [t], bad)
