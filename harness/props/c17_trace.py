"""C17 stage T: record the real encoder/decoder and real Result objects on seeded random inputs beyond the
pools of Serialize.tla, and let TLC validate the recorded behaviours against Enc / Dec / RState
(spec/codec/Trace_Serialize.tla, one batched run, `mismatch` names trace id and failing clause)."""
import json
import math
import os
import re
import tempfile
from fractions import Fraction

import numpy as np

from .. import tlc

TRACE_MODULE = "codec/Trace_Serialize.tla"
WIDE = ["PyInt", "PyFloat", "NpInt32", "NpInt64", "NpFloat32", "NpFloat64"]
NARROW = ["NpLongDouble", "NpInt8", "NpInt16", "NpUInt8", "NpUInt16", "NpUInt32", "NpUInt64", "NpFloat16"]
DTYPES = ["int8", "int16", "int32", "int64", "uint8", "uint16", "uint32", "uint64", "float16", "float32", "float64", "bool", "float128"]
WORDS = ["", "a", "ab", "snr", "q p", "x_1", "c{snr}", "{0}", "set{{A}}", "100%s", "}{", "Ab", "caf\u00e9 \u221a2", "a\udcffb", "\U0001F600 x"]


# ------------------------------------------------------------------------------- random descriptions
def rnd_num(rng, t):
    if t in ("PyFloat", "NpFloat16", "NpFloat32", "NpFloat64", "NpLongDouble"):
        r = rng.rand()
        if r < 0.08:  # +-inf (d = 0) and -0.0 (n = 0, d = -1); NaN is outside the property
            return {"t": t, "n": [1, -1][rng.randint(2)], "d": 0, "s": ""} if r < 0.06 else {"t": t, "n": 0, "d": -1, "s": ""}
        f = Fraction(int(rng.randint(-40, 41)), int(2 ** rng.randint(0, 4)))
        return {"t": t, "n": f.numerator, "d": f.denominator, "s": ""}
    lo = 0 if t.startswith("NpUInt") else -100
    return {"t": t, "n": int(rng.randint(lo, 101)), "d": 1, "s": ""}


def rnd_scalar(rng):
    r = rng.rand()
    if r < 0.15:
        return {"t": "Str", "n": 0, "d": 1, "s": WORDS[rng.randint(len(WORDS))]}
    if r < 0.22:
        return {"t": ["PyBool", "NpBool"][rng.randint(2)], "n": int(rng.randint(2)), "d": 1, "s": ""}
    return rnd_num(rng, (WIDE + NARROW)[rng.randint(len(WIDE) + len(NARROW))])


def rnd_array(rng):
    dt = DTYPES[rng.randint(len(DTYPES))]
    nd = rng.randint(1, 4)
    shape = [int(rng.randint(0, 4)) for _ in range(nd)]
    size = int(np.prod(shape))
    if dt == "bool":
        data = [[int(rng.randint(2)), 1] for _ in range(size)]
    elif dt.startswith("float"):
        data = []
        for _ in range(size):
            f = Fraction(int(rng.randint(-40, 41)), int(2 ** rng.randint(0, 4)))
            r = rng.rand()
            data.append([1, 0] if r < 0.04 else [-1, 0] if r < 0.08 else [0, -1] if r < 0.1 else [f.numerator, f.denominator])
    else:
        lo = 0 if dt.startswith("uint") else -100
        data = [[int(rng.randint(lo, 101)), 1] for _ in range(size)]
    return {"t": "Array", "dtype": dt, "shape": shape, "data": data}


def rnd_value(rng, depth):
    r = rng.rand()
    if depth == 0 or r < 0.3:
        return rnd_scalar(rng)
    if r < 0.55:
        return {"t": "List", "items": [rnd_value(rng, depth - 1) for _ in range(rng.randint(0, 5))]}
    if r < 0.75:
        elems, seen = [], set()
        for _ in range(rng.randint(0, 4)):
            e = rnd_scalar(rng)
            k = ("s", e["s"]) if e["t"] == "Str" else ("n", (e["n"], 0) if e["d"] == 0 else Fraction(e["n"], abs(e["d"])))
            if k not in seen:  # a Python set identifies numerically equal members
                seen.add(k)
                elems.append(e)
        return {"t": "Set", "elems": elems}
    return rnd_array(rng)


def rnd_result(rng, ty=None, acc=None, depth=1):
    ty = int(rng.randint(0, 4)) if ty is None else ty
    acc = bool(rng.randint(2)) if acc is None else acc
    hist = []
    for _ in range(rng.randint(0, 6 if depth else 3)):
        if depth and rng.rand() < 0.25:  # merge another result (same name, type, accumulate) given by its own history
            hist.append({"op": "merge", "v": {"t": "None", "n": 0, "d": 1, "s": ""}, "tot": {"t": "PyInt", "n": 1, "d": 1, "s": ""},
                         "rd": [rnd_result(rng, ty, acc, 0)]})
            continue
        t = WIDE[rng.randint(len(WIDE))]
        if ty == 0:
            f = Fraction(int(rng.randint(-20, 21)), 4) if "Float" in t else Fraction(int(rng.randint(-9, 10)))
            hist.append({"v": {"t": t, "n": f.numerator, "d": f.denominator, "s": ""}, "tot": {"t": "PyInt", "n": 0, "d": 1, "s": ""}})
        elif ty == 1:
            t2 = ["PyInt", "NpInt32", "NpInt64"][rng.randint(3)]
            f = Fraction(int(rng.randint(0, 10)), 2) if "Float" in t else Fraction(int(rng.randint(0, 10)))
            hist.append({"v": {"t": t, "n": f.numerator, "d": f.denominator, "s": ""},
                         "tot": {"t": t2, "n": int(2 ** rng.randint(0, 4)), "d": 1, "s": ""}})
        elif ty == 2:
            hist.append({"v": rnd_value(rng, 1) if rng.rand() < 0.7 else rnd_scalar(rng), "tot": {"t": "PyInt", "n": 0, "d": 1, "s": ""}})
            if hist[-1]["v"]["t"] == "Array":  # Result.__eq__ has no truth value for array values: not a supported MISC value
                hist[-1]["v"] = {"t": "Str", "n": 0, "d": 1, "s": "arr"}
        else:
            t3 = ["PyInt", "NpInt32", "NpInt64"][rng.randint(3)]
            hist.append({"v": {"t": t3, "n": int(rng.randint(0, 4)), "d": 1, "s": ""}, "tot": {"t": "PyInt", "n": 0, "d": 1, "s": ""}})
    for u in hist:
        u.setdefault("op", "upd")
        u.setdefault("rd", [])
    return {"name": "r", "type": ty, "acc": acc, "nch": 4 if ty == 3 else 0, "hist": hist}


# ------------------------------------------------------------------------------- projections
def frac(x):
    x = float(x)
    if math.isinf(x):
        return (1, 0) if x > 0 else (-1, 0)
    if x == 0.0 and math.copysign(1.0, x) < 0:
        return 0, -1
    f = Fraction(x)
    return f.numerator, f.denominator


def describe(o):
    """typed description of a real object (what the decoder returned)"""
    if isinstance(o, (bool, np.bool_)):
        return {"t": "PyBool" if type(o) is bool else "NpBool", "n": int(o), "d": 1, "s": ""}
    if type(o) is int:
        return {"t": "PyInt", "n": o, "d": 1, "s": ""}
    if type(o) is float:
        n, d = frac(o)
        return {"t": "PyFloat", "n": n, "d": d, "s": ""}
    if isinstance(o, np.generic):
        name = {"int8": "NpInt8", "int16": "NpInt16", "int32": "NpInt32", "int64": "NpInt64", "uint8": "NpUInt8",
                "uint16": "NpUInt16", "uint32": "NpUInt32", "uint64": "NpUInt64", "float16": "NpFloat16",
                "float32": "NpFloat32", "float64": "NpFloat64", "float128": "NpLongDouble"}.get(str(o.dtype), "Np?" + str(o.dtype))
        n, d = (int(o), 1) if "Int" in name else frac(o)
        return {"t": name, "n": n, "d": d, "s": ""}
    if type(o) is str:
        return {"t": "Str", "n": 0, "d": 1, "s": o}
    if o is None:
        return {"t": "None", "n": 0, "d": 1, "s": ""}
    if type(o) is list:
        return {"t": "List", "items": [describe(x) for x in o]}
    if type(o) is set:
        return {"t": "Set", "elems": [describe(x) for x in o]}
    if isinstance(o, np.ndarray):
        flat = o.reshape(-1).tolist()
        return {"t": "Array", "dtype": str(o.dtype), "shape": [int(k) for k in o.shape],
                "data": [[int(x), 1] if o.dtype.kind in "iub" else list(frac(x)) for x in flat]}
    return {"t": "Other:" + type(o).__name__, "n": 0, "d": 1, "s": repr(o)[:40]}


def tree_of(p):
    """abstract tree of parsed JSON text (json.loads without hooks)"""
    if type(p) is bool:
        return {"j": "bool", "n": int(p), "d": 1, "s": ""}
    if type(p) is int:
        return {"j": "int", "n": p, "d": 1, "s": ""}
    if type(p) is float:
        n, d = frac(p)
        return {"j": "float", "n": n, "d": d, "s": ""}
    if type(p) is str:
        return {"j": "str", "n": 0, "d": 1, "s": p}
    if p is None:
        return {"j": "null", "n": 0, "d": 1, "s": ""}
    if type(p) is list:
        return {"j": "list", "items": [tree_of(x) for x in p]}
    if type(p) is dict:
        vals = []
        for k, v in p.items():
            if k == "data" and "_is_set" in p and type(v) is list:
                vals.append({"j": "bag", "elems": [tree_of(x) for x in v]})
            else:
                vals.append(tree_of(v))
        return {"j": "obj", "keys": list(p.keys()), "vals": vals}
    raise TypeError(type(p))


def tags_of(v, out=None):
    out = set() if out is None else out
    t = v["t"]
    if t == "NpBool":
        out.add("npbool")
    elif t == "NpFloat32":
        out.add("f32")
    elif t in NARROW:
        out.add("narrow")
    elif t == "List":
        for x in v["items"]:
            tags_of(x, out)
    elif t == "Set":
        for x in v["elems"]:
            tags_of(x, out)
    elif t == "Array":
        if v["dtype"] not in ("int64", "float64"):
            out.add("dtype")
        if len(v["shape"]) > 1 and 0 in v["shape"]:
            out.add("emptynd")
    return out


def record_value(x):
    from pyphysim.util.serialize import NumpyOrSetEncoder, json_numpy_or_set_obj_hook
    from . import c17
    e = {"kind": "value", "x": x, "enc": "ok", "dec": "ok", "tree": None, "back": None, "tree2": None, "tags": sorted(tags_of(x))}
    try:
        s1 = json.dumps(c17.to_py(x), cls=NumpyOrSetEncoder)
    except Exception as ex:
        e["enc"], e["why"] = "raise", f"{type(ex).__name__}: {ex}"[:120]
        return e
    e["tree"] = tree_of(json.loads(s1))
    try:
        b = json.loads(s1, object_hook=json_numpy_or_set_obj_hook)
        e["back"] = describe(b)
        e["tree2"] = tree_of(json.loads(json.dumps(b, cls=NumpyOrSetEncoder)))
    except Exception as ex:
        e["dec"], e["why"] = "raise", f"{type(ex).__name__}: {ex}"[:120]
    return e


def record_result(rd):
    from pyphysim.simulations.results import Result
    from . import c17
    tg = set()
    def walk(h):
        for u in h:
            if u["op"] == "merge":
                walk(u["rd"][0]["hist"])
            else:
                tags_of(u["v"], tg)
                tags_of(u["tot"], tg)
    walk(rd["hist"])
    if rd["type"] == 1 and not rd["hist"]:
        tg.add("ratio0")
    if rd["type"] == 3 and rd["acc"]:
        tg.add("choiceacc")
    e = {"kind": "result", "rd": rd, "enc": "ok", "dec": "ok", "tree": None, "tree2": None, "tags": sorted(tg)}
    try:
        r = c17.build_result(rd)
    except AttributeError as ex:
        if "np.int" in str(ex):
            return {"kind": "skip-npint"}
        raise
    try:
        s1 = r.to_json()
    except Exception as ex:
        e["enc"], e["why"] = "raise", f"{type(ex).__name__}: {ex}"[:120]
        return e
    e["tree"] = tree_of(json.loads(s1))
    try:
        e["tree2"] = tree_of(json.loads(Result.from_json(s1).to_json()))
    except Exception as ex:
        e["dec"], e["why"] = "raise", f"{type(ex).__name__}: {ex}"[:120]
    return e


def record(ctx):
    n = 12000 if ctx.tier == "thorough" else 400
    rng = np.random.RandomState(ctx.seed * 7919 + 17)
    evs = []
    for i in range(n):
        if i % 3 == 2:
            evs.append(record_result(rnd_result(rng)))
        else:
            evs.append(record_value(rnd_value(rng, 3)))
    return evs


CHUNK = 4000


def validate(events):
    """TLC over all recorded events (one batched run per CHUNK events); returns (TlcResult, {event index (1-based): clause})"""
    total, bad = None, {}
    for off in range(0, max(len(events), 1), CHUNK):
        r, b = validate_chunk(events[off:off + CHUNK])
        bad.update({off + i: cl for i, cl in b.items()})
        if total is None:
            total = r
        else:
            total.generated += r.generated
            total.distinct += r.distinct
            total.wall += r.wall
            total.violated = total.violated or r.violated
    return total, bad


def validate_chunk(events):
    from . import c17
    absent = {"tree": {"j": "null", "n": 0, "d": 1, "s": ""}, "tree2": {"j": "null", "n": 0, "d": 1, "s": ""},
              "back": {"t": "None", "n": 0, "d": 1, "s": ""}}  # JsonDeserialize has no null
    slim = [{k: (absent[k] if v is None and k in absent else v) for k, v in e.items() if k not in ("tags", "why")}
            for e in events]
    os.makedirs(tlc.WORK, exist_ok=True)
    fd, path = tempfile.mkstemp(prefix="c17-traces-", suffix=".json", dir=tlc.WORK)
    with os.fdopen(fd, "w") as f:
        json.dump(slim, f)
    try:
        defs = {"Dev": tlc.tla({k: False for k in c17.DEVS}), "Hyp": tlc.tla({k: False for k in c17.HYPS})}
        cfg = tlc.cfg_text(constants={"Family": '"trace"', "Tier": '"quick"', "Part": "0", "NParts": "1"}, defs=defs,
                           init="TInit", next_="TNext", invariants=["Conforms"])
        r = tlc.run(TRACE_MODULE, cfg, defs=defs, workers=2, env=dict(c17.JVM_ENV, TRACE_FILE=path), continue_=True,
                    timeout=3600)
    finally:
        os.unlink(path)
    bad = {int(a): b for a, b in re.findall(r'mismatch = <<(\d+), "([^"]*)">>', r.out)}
    if r.violated and r.violated != "Conforms":
        raise tlc.TlcError(f"Trace_Serialize: {r.violated} violated:\n{r.trace_text[:2000]}")
    return r, bad


# clause + tag of the recorded input -> finding it has the signature of
SIGNATURE = [("EncodeTotal", "npbool", "NpBoolRaises"), ("EncodeTotal", "narrow", "NarrowScalarRaises"), ("Encode", "f32", "Float32EncodedAsInt"),
             ("Decode", "dtype", "ArrayDtypeLost"), ("Decode", "emptynd", "EmptyArrayShapeLost"),
             ("DecodeTotal", "ratio0", "RatioZeroUpdatesRaises"), ("RoundTripFaithful", "choiceacc", "ChoiceAccumOrderLost"),
             ("DoubleRoundTrip", "choiceacc", "ChoiceAccumOrderLost"), ("DoubleRoundTrip", "dtype", "ArrayDtypeLost")]


def report(ctx, events, r, bad):
    r.violated = None
    ctx.account(r, TRACE_MODULE, f"{len(events)} recorded events")
    for i, e in enumerate(events, 1):
        if i not in bad:
            ctx.trace_done()
            ctx.ok(("trace", ctx.seed, i))
            continue
        cl = bad[i]
        fid = next((f for c, t, f in SIGNATURE if c == cl and t in e.get("tags", [])), None)
        what = (f"recorded {e['kind']} event {i} does not conform to the specification: clause {cl} "
                f"({e.get('why', '')}) input {json.dumps(e.get('x') or e.get('rd'))[:300]}")
        case = {"trace_event": e, "clause": cl}
        if fid:
            ctx.finding(fid, what, case)
        else:
            ctx.violation(what, case)
    ctx.notes["trace_events_recorded"] = len(events)
    if events:
        e = events[len(events) // 2]
        ctx.sample({"recorded_event": {k: e[k] for k in ("kind", "x", "rd", "enc", "dec") if k in e}})


def _corrupt_first_leaf(node):
    """change ONE logged value of an abstract tree in place: the first number leaf (+1) or string leaf; returns a description"""
    j = node.get("j")
    if j in ("int", "float") and node["d"] > 0:
        old = (node["n"], node["d"])
        node["n"] += node["d"]
        return f"number {old[0]}/{old[1]} -> {node['n']}/{node['d']}"
    if j == "list":
        for x in node["items"]:
            w = _corrupt_first_leaf(x)
            if w:
                return w
    if j == "bag":
        for x in node["elems"]:
            w = _corrupt_first_leaf(x)
            if w:
                return w
    if j == "obj":
        for k, x in zip(node["keys"], node["vals"]):
            if k in ("dtype", "shape", "_is_numpy_array", "_is_set", "name"):
                continue
            w = _corrupt_first_leaf(x)
            if w:
                return w
    return None


def negative_control(ctx, events, bad):
    """Liveness of the binding: ONE logged value of one conforming recorded event is corrupted (a number the library
    wrote into its JSON text); the same Trace_Serialize.tla must reject it in a separate small TLC run."""
    for i, e in enumerate(events, 1):
        if i in bad or e.get("enc") != "ok" or e.get("dec") != "ok" or not e.get("tree"):
            continue
        probe = json.loads(json.dumps(e))
        what = _corrupt_first_leaf(probe["tree"])
        if not what:
            continue
        r, b = validate_chunk([probe])
        if b.get(1) != "Encode":
            raise tlc.TlcError(f"trace validation did not report a corrupted logged JSON value ({what} in the text of "
                               f"recorded {e['kind']} event {i}; TLC said {b.get(1)!r}) (binding not live)")
        ctx.notes["trace_negative_control"] = (f"recorded {e['kind']} event {i}: logged JSON {what} rejected by "
                                               f"Trace_Serialize.tla (clause Encode)")
        ctx.states += r.distinct
        ctx.transitions += r.generated
        return
    raise tlc.TlcError("no conforming recorded event with a numeric value to corrupt (negative control impossible)")


def run(ctx, events, fut):
    r, bad = fut
    report(ctx, events, r, bad)


def replay(ctx, case):
    """re-record the stored input on the current tree and validate it again"""
    e = case["trace_event"]
    new = record_value(e["x"]) if e["kind"] == "value" else record_result(e["rd"])
    if new.get("kind") == "skip-npint":
        ctx.finding("ChoiceUpdateRaises", "Result.update raised AttributeError (np.int)", case)
        return
    r, bad = validate([new])
    report(ctx, [new], r, bad)
