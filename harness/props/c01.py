"""C01 - modulation is invertible and detection picks the nearest constellation symbol.

Stage M  spec/modem/Constellation.tla per modulator kind: Rejects (exactly the unsupported
         cardinalities in 0..1100 are refused), TableOK (M distinct points, unit mean energy,
         2(M-1)/3 law), RoundTrip, ModulateLaw (index >= M raises), MLLaw (the emitted nearest
         point satisfies the definition of ML detection; 0 only for genuine ties); every named
         deviation is FOUND by TLC.
Stage R  the same TLC runs emit rows of received samples on a rational grid (QAM/BPSK: all
         points with denominator D inside the hull + 1 unit, PSK: all angles of an M*D lattice at
         radii 1/2, 1, 3 and the two samples 1/1024 sector either side of every decision boundary;
         seeded rows for M > 64) with the unique nearest lattice point of each (ties excluded in the
         specification).  Expected index = the label the RECORDED table of the real object gives
         that point (recorded at construction and after every setPhaseOffset; the tables are
         validated by TLC in stage T); compared exactly with demodulate().
Stage T  recorded histories of real objects (construct - modulate index arrays of 19 shape/memory-layout combinations (0-d .. 4-d; C, Fortran, transposed, strided, reversed) incl.
         indexes >= M - demodulate(modulate(.)) - demodulate noisy python-chosen samples -
         setPhaseOffset - ... ) and the constructor outcome for every cardinality 0..1100 are judged
         by Trace_Constellation.tla."""
import math
from concurrent.futures import ThreadPoolExecutor

import numpy as np

from .. import tlc
from . import constellation_common as cc

CARE = ["Rejects", "Accepts", "WellFormed", "Bijective", "UnitEnergy", "BitsPerSymbol", "CopyIsEqual", "IndexRaises", "ModulateOk", "ModulateLaw",
        "ShapeKept", "MLDetection", "RoundTrip", "Unchecked",
        # frame laws of notes/CALL_DISCIPLINE.md
        "EarlierResultsUnchanged", "ArgumentsUnchanged", "ResultNotAliased", "RejectedChangesNothing"]
PSK_SMALL = [2, 4, 8, 16, 32, 64]
PSK_BIG = [128, 256, 512, 1024]


def histories(kind, M):
    """phase histories of the real objects the emitted samples are run through"""
    if kind == "PSK":
        return [[0.0], [0.3, math.pi / M, -1.7]]
    return [[0.0]]


def machine_jobs(ctx):
    th = ctx.tier == "thorough"
    s = ctx.seed
    jobs = []
    # exhaustive grids, M <= 64
    jobs.append(("qam4-16/grid", dict(kind="QAM", cards=[4, 16], d=8)))
    for part in range(4):
        jobs.append((f"qam64/grid/{part}", dict(kind="QAM", cards=[64], d=8, part=part, nparts=4)))
    jobs.append(("bpsk/grid", dict(kind="BPSK", cards=[2], d=32)))
    jobs.append(("psk<=64/grid", dict(kind="PSK", cards=PSK_SMALL, d=8, rowlen=64, noff=1)))
    jobs.append(("psk<=64/edge", dict(kind="PSK", cards=PSK_SMALL, d=1024, smode="edge", nrows=8, rowlen=16)))
    # seeded rows, 1/64 unit either side of the boundaries, every order
    jobs.append(("qam<=64/seeded", dict(kind="QAM", cards=[4, 16, 64], d=64, smode="seeded", nrows=16 if th else 6, rowlen=32, seed=s)))
    jobs.append(("bpsk/seeded", dict(kind="BPSK", cards=[2], d=1024, smode="seeded", nrows=8, rowlen=32, seed=s)))
    # extreme scale ratios (exact sign of a linear form): BPSK is a sign detector - any scale; the generic detector
    # compares rounded distances, so the lattice regime stays where float64 can resolve the margin (1e-7 .. 1e3 units)
    jobs.append(("bpsk/scaled", dict(kind="BPSK", cards=[2], smode="scaled", nrows=32 if th else 12, rowlen=32, seed=s,
                                     exps=(-200, -18, -9, 0, 7, 100))))
    jobs.append(("qam<=64/scaled", dict(kind="QAM", cards=[4, 16, 64], smode="scaled", nrows=16 if th else 6, rowlen=32, seed=s, exps=(-7, 0))))
    n = 64 if th else 8
    jobs.append(("qam256-1024/seeded", dict(kind="QAM", cards=[256, 1024], d=64, smode="seeded", nrows=n, rowlen=32, seed=s)))
    jobs.append(("qam4096/seeded", dict(kind="QAM", cards=[4096], d=64, smode="seeded", nrows=48 if th else 6, rowlen=32, seed=s)))
    n = 48 if th else 4
    jobs.append(("psk>=128/seeded", dict(kind="PSK", cards=PSK_BIG, d=64, smode="seeded", nrows=n, rowlen=32, seed=s, noff=1)))
    jobs.append(("psk>=128/edge", dict(kind="PSK", cards=PSK_BIG, d=1024, smode="edge", nrows=n, rowlen=32, seed=s)))
    if th:
        jobs.append(("psk<=64/grid32", dict(kind="PSK", cards=PSK_SMALL, d=32, rowlen=128)))
        for part in range(4):
            jobs.append((f"qam16/grid32/{part}", dict(kind="QAM", cards=[16], d=32, part=part, nparts=4)))
        for part in range(8):
            jobs.append((f"qam64/grid16/{part}", dict(kind="QAM", cards=[64], d=16, part=part, nparts=8)))
        jobs.append(("qam<=64/seeded2", dict(kind="QAM", cards=[4, 16, 64], d=64, smode="seeded", nrows=16, rowlen=32, seed=s + 1000)))
        jobs.append(("psk>=128/seeded2", dict(kind="PSK", cards=PSK_BIG, d=64, smode="seeded", nrows=n, rowlen=32, seed=s + 1000)))
    # every cardinality 0..1100: accepted iff supported (no samples needed)
    jobs.append(("psk/cards", dict(kind="PSK", cards=list(range(0, 1101)), noff=2, smode="seeded", nrows=1, rowlen=2, emit=False, workers=4)))
    jobs.append(("qam/cards", dict(kind="QAM", cards=list(range(0, 1101)) + [4096], smode="seeded", nrows=1, rowlen=2, emit=False, workers=4)))
    jobs.append(("bpsk/cards", dict(kind="BPSK", cards=[0, 1, 2, 3, 4], smode="seeded", nrows=1, rowlen=2, emit=False)))
    return jobs


# ------------------------------------------------------------------ stage R
class Live:
    """a real object driven along a phase history; its table is recorded after every step"""

    def __init__(self, kind, M, phases):
        self.kind, self.M, self.phases = kind, M, list(phases)
        self.obj = cc.make(kind, M, phases[0])
        self.step = 0
        self.tb = cc.Table(cc.spec_kind(kind), M, self.obj.symbols, math.pi / 4 if kind == "QPSK" else phases[0])

    def advance(self):
        self.step += 1
        ph = self.phases[self.step]
        self.obj.setPhaseOffset(ph)
        self.tb = cc.Table("PSK", self.M, self.obj.symbols, ph)


BLOCKS = [((4, 6), "F"), ((6, 4), "T"), ((2, 3, 4), "F"), ((4, 3, 2), "T"), ((8, 3), "strided"), ((3, 8), "lastaxis"),
          ((24,), "reversed"), ((2, 12), "reversed"), ((24,), "strided"), ((1, 24), "T")]
_rot = [0]
_long_done = set()


def row_samples(tb, rows):
    """emitted rows -> (complex samples, nearest coordinates, JSON-able sample descriptions, d), ties dropped"""
    d = rows[0]["d"]
    near = [c for r in rows for c in r["near"]]
    tie = -1 if tb.kind == "PSK" else [0, 0]
    keep = np.array([c != tie for c in near], dtype=bool)
    near = [c for c in near if c != tie]
    if rows[0].get("smode") == "scaled":
        ss = [x for r in rows for x in r["ss"]]
        S = np.array(ss, dtype=float)[keep]
        # exact meaning of a scaled sample (ConstellationOps): x0 + x1*10^ex, y0 + y1*10^ey lattice units
        z = tb.unit * ((S[:, 0] + S[:, 1] * 10.0 ** S[:, 2]) + 1j * (S[:, 3] + S[:, 4] * 10.0 ** S[:, 5]))
        items = [x for x, k in zip(ss, keep) if k]
    else:
        a = np.concatenate([np.asarray(r["a"], dtype=np.int64) for r in rows])[keep]
        b = np.concatenate([np.asarray(r["b"], dtype=np.int64) for r in rows])[keep]
        z = np.asarray(tb.sample(a, b, d), dtype=complex)
        items = [[int(x), int(y)] for x, y in zip(a, b)]
    return np.asarray(z, dtype=complex), near, items, d


def frame_lengths(M):
    """lengths of LONG frames: just above / around small multiples of every block size 2^k // M an implementation
    might process at a time (the whole M x N distance matrix is what bounds the memory)"""
    out = []
    for k in (18, 20, 22):
        B = max(1, 2 ** k // M)
        out += [B + 3] + ([2 * B + B // 4 + 1] if k == 20 or (k == 22 and M >= 256) else []) + ([3 * B - 1] if k == 20 and M >= 16 else [])
    return sorted(set(x for x in out if x >= 64))


def check_long(ctx, live, z, exp, near, items, label, base):
    """long frames: the emitted samples repeated up to lengths that cross internal block sizes; 1-d and 2-d"""
    if len(z) < 8:
        return 0
    for L in frame_lengths(live.M):
        rot = L % len(z)
        idx = (np.arange(L) + rot) % len(z)
        frame = z[idx]
        want = exp[idx]
        shp = (2, L // 2) if L % 2 == 0 else (L,)
        try:
            got = np.asarray(live.obj.demodulate(frame.reshape(shp)))
        except Exception as ex:
            ctx.violation(f"{label}: demodulate of a frame of {L} samples raised {type(ex).__name__}: {ex}", dict(base, s=items[:8], near=near[:8], present=None, frame=L))
            return 1
        ok_shape = got.shape == tuple(shp)
        wrong = np.nonzero(got.reshape(-1) != want)[0] if ok_shape else np.arange(L)
        if len(wrong):
            i = int(wrong[0])
            ctx.violation(f"{label}: in a frame of {L} samples (shape {shp}) position {i} (sample {items[idx[i]]}) is detected as "
                          f"{int(got.reshape(-1)[i]) if ok_shape else 'shape ' + str(got.shape)}, nearest point {near[idx[i]]} carries label {int(want[i])} "
                          f"({len(wrong)} positions wrong, the first at {i}, the last at {int(wrong[-1])})",
                          dict(base, s=items, near=near, present=None, frame=L))
            return len(wrong)
        ctx.ok((label, "frame", L), n=L)
    return 0


def check_rows(ctx, live, rows, label, present=None, frame=None):
    """rows: emitted demod cases of live's (kind, M).  Every sample is demodulated twice: in long 1-d
    chunks, and in blocks of 24 handed over as 2-d / 3-d arrays in non-contiguous memory layouts
    (Fortran order, transposed view, strided, reversed); both compared position by position.  At the first
    table of an object the samples are also sent as LONG frames (frame_lengths)."""
    tb = live.tb
    if not tb.tabok or len(tb.lookup) != live.M:
        return 0        # stage T reports the broken table; nothing can be looked up
    z, near, items, d = row_samples(tb, rows)
    exp = np.array([tb.lookup[c if tb.kind == "PSK" else tuple(c)] for c in near], dtype=np.int64)
    base = {"stage": "R", "kind": live.kind, "M": live.M, "phases": live.phases[:live.step + 1], "d": d, "smode": rows[0].get("smode")}
    nbad = 0
    if frame is not None:
        return check_long(ctx, live, z, exp, near, items, label, base)
    if present is None:
        try:
            got = cc.demod_chunked(live.obj, z)
        except Exception as ex:
            ctx.violation(f"{label}: demodulate raised {type(ex).__name__}: {ex}", dict(base, s=items[:24], near=near[:24], present=None))
            return 1
        wrong = np.nonzero(got != exp)[0]
        if len(wrong):
            i = int(wrong[0])
            ctx.violation(f"{label}: demodulate(sample {items[i]}{'' if base['smode'] == 'scaled' else ' /' + str(d)}) = {int(got[i])}, nearest point {near[i]} "
                          f"carries label {int(exp[i])} ({len(wrong)} of {len(exp)} samples of this table wrong)",
                          dict(base, s=[items[i]], near=[near[i]], present=None))
        ctx.ok(n=int(len(exp) - len(wrong)))
        nbad += len(wrong)
        for i in range(0, len(exp), max(1, len(exp) // 200)):        # a bounded number of identifying keys
            ctx.distinct.add((live.kind, live.M, live.step, d, str(items[i])))
        # the same samples in other STORAGE TYPES of the received array (the law is about values): complex64 and, for the
        # samples on the real axis, a real float64 array; and as a read-only array.  Only grid rows at D <= 8 (margin 1/8
        # unit / sector, far above float32 resolution) and moderate radii.
        if base["smode"] == "edge" and len(z):
            # PSK edge rows: one angle step 2 pi/(1024 M) from a boundary, i.e. a relative margin of 6e-6 (M = 1024) or more -
            # about 100 float32 roundings of the SAMPLE, so the complex64 copy lies on the same side and the exact oracle holds
            try:
                g2 = cc.demod_chunked(live.obj, z.astype(np.complex64))
                w2 = np.nonzero(g2 != exp)[0]
            except Exception as ex:
                g2, w2 = None, np.arange(1)
                ctx.violation(f"{label}: demodulate of a complex64 array raised {type(ex).__name__}: {ex}", dict(base, s=[items[0]], near=[near[0]], present=None, dtype="complex64"))
            if g2 is not None and len(w2):
                i = int(w2[0])
                ctx.violation(f"{label}: demodulate(sample {items[i]} /{d}) stored as complex64 = {int(g2[i])}, nearest point {near[i]} carries label "
                              f"{int(exp[i])} ({len(w2)} of {len(exp)} wrong)", dict(base, s=[items[i]], near=[near[i]], present=None, dtype="complex64"))
                nbad += len(w2)
            elif g2 is not None:
                ctx.ok((label, "dtype", "complex64 edge"), n=len(exp))
        if base["smode"] == "grid" and d <= 8 and len(z):
            mod_ok = (np.abs(z) > 0.3) & (np.abs(z) < 5)
            ro = z.copy()
            ro.setflags(write=False)
            variants = [("complex64", z[mod_ok].astype(np.complex64), np.nonzero(mod_ok)[0]),
                        ("float64 (real axis)", np.ascontiguousarray(z[z.imag == 0].real), np.nonzero(z.imag == 0)[0]),
                        ("float32 (real axis)", z[(z.imag == 0) & mod_ok].real.astype(np.float32), np.nonzero((z.imag == 0) & mod_ok)[0]),
                        ("read-only complex128", ro, np.arange(len(z)))]
            for name, arr, ix in variants:
                if not len(ix):
                    continue
                try:
                    g2 = cc.demod_chunked(live.obj, arr)
                    w2 = np.nonzero(g2 != exp[ix])[0]
                except Exception as ex:
                    ctx.violation(f"{label}: demodulate of a {name} array raised {type(ex).__name__}: {ex}",
                                  dict(base, s=[items[int(ix[0])]], near=[near[int(ix[0])]], present=None, dtype=name))
                    nbad += 1
                    continue
                if len(w2):
                    i = int(ix[w2[0]])
                    ctx.violation(f"{label}: demodulate(sample {items[i]} /{d}) stored as {name} = {int(g2[w2[0]])}, nearest point {near[i]} carries "
                                  f"label {int(exp[i])} ({len(w2)} of {len(ix)} wrong)", dict(base, s=[items[i]], near=[near[i]], present=None, dtype=name))
                    nbad += len(w2)
                else:
                    ctx.ok((label, "dtype", name), n=len(ix))
        if live.step == 0 and base["smode"] in ("grid", "seeded") and (live.kind, live.M) not in _long_done:
            _long_done.add((live.kind, live.M))         # once per modulator class and order
            nbad += check_long(ctx, live, z, exp, near, items, label, base)
    # blocks of 24 samples as non-contiguous multi-dimensional arrays
    nblk = len(z) // 24
    reported = False
    prev = [None, None]
    for k in range(nblk if present is None else 1):
        shp, lay = BLOCKS[(_rot[0] + k) % len(BLOCKS)] if present is None else (tuple(present[0]), present[1])
        sl = slice(24 * k, 24 * k + int(np.prod(shp)))
        arr = cc.as_layout(z[sl].reshape(shp), lay, fill=7 + 7j)
        case = dict(base, s=items[sl], near=near[sl], present=[list(shp), lay])
        snap = np.array(arr, copy=True)
        try:
            out = np.asarray(live.obj.demodulate(arr))
        except Exception as ex:
            ctx.violation(f"{label}: demodulate of a {lay} array of shape {shp} raised {type(ex).__name__}: {ex}", case)
            return nbad + 1
        # call discipline: the argument is an input only; the result of the previous block is still what it was
        if not np.array_equal(arr, snap):
            ctx.violation(f"{label}: demodulate modified its argument (a {lay} array of shape {shp})", case)
            return nbad + 1
        if prev[0] is not None and not np.array_equal(prev[0], prev[1]):
            ctx.violation(f"{label}: the array returned by the previous demodulate call was overwritten by this call", case)
            return nbad + 1
        prev[0], prev[1] = out, np.array(out, copy=True)
        g = out.reshape(-1) if out.shape == tuple(shp) else None
        w = np.nonzero(g != exp[sl])[0] if g is not None else np.arange(len(exp[sl]))
        if len(w):
            nbad += len(w)
            if not reported:
                reported = True
                j = int(w[0])
                ctx.violation(f"{label}: demodulate of a {lay}-layout array of shape {shp}: position {j} (sample {case['s'][j]}) = "
                              f"{'shape ' + str(out.shape) if g is None else int(g[j])}, nearest point {case['near'][j]} carries label {int(exp[sl][j])} "
                              f"({len(w)} of {len(exp[sl])} positions of the block wrong)", case)
        else:
            ctx.ok(n=len(exp[sl]))
    _rot[0] += nblk
    return nbad


def replay_rows(ctx, emitted):
    groups = {}
    for e in emitted:
        if "near" in e:
            groups.setdefault((e["kind"], e["m"]), []).append(e)
    for (kind, M), rows in sorted(groups.items()):
        byd = {}
        for r in rows:
            byd.setdefault((r["d"], r["smode"]), []).append(r)
        kinds = [kind] + (["QPSK"] if kind == "PSK" and M == 4 else [])
        for k in kinds:
            for phases in (histories(k, M) if k != "QPSK" else [[0.0, 0.2]]):
                live = Live(k, M, phases)
                while True:
                    for (d, sm), rs in byd.items():
                        check_rows(ctx, live, rs, f"{k}({M}) phase history {[round(p, 4) for p in live.phases[:live.step + 1]]} {sm} d={d}")
                    ctx.trace_done()
                    if live.step + 1 >= len(live.phases):
                        break
                    live.advance()
    return len(groups)


# ------------------------------------------------------------------ stage T
def history_specs(ctx):
    th = ctx.tier == "thorough"
    s = ctx.seed
    specs = [dict(kind="BPSK", M=2, seed=s, d=64, nsamp=400), dict(kind="QPSK", M=4, seed=s, d=64, nsamp=300, phases=[0.0, -0.4])]
    for M in cc.QAM_ORDERS:
        specs.append(dict(kind="QAM", M=M, seed=s, d=64, nsamp=(400 if th else 160) if M <= 1024 else (200 if th else 80)))
    rng = np.random.RandomState(s + 1)
    for M in cc.PSK_ORDERS:
        ph = [float(rng.choice([0.0, math.pi / M, 0.3])), float(rng.uniform(-7, 7)), float(rng.choice([0.0, math.pi / 4, 100.0]))]
        specs.append(dict(kind="PSK", M=M, seed=s, d=64, nsamp=(300 if th else 100) if M <= 256 else (160 if th else 60), phases=ph))
    # the cardinality given as a numpy integer scalar (same verdict as for the Python int), and negative cardinalities
    for kind, M, mt in (("QAM", 16, "uint8"), ("QAM", 64, "int8"), ("QAM", 256, "int64"), ("QAM", 4096, "uint16"), ("PSK", 8, "uint8"),
                        ("PSK", 128, "uint8"), ("PSK", 1024, "int16"), ("PSK", 2, "int64"), ("QAM", 8, "uint8"), ("PSK", 12, "int64"),
                        ("PSK", 255, "uint8"), ("QAM", 100, "int16")):
        specs.append(dict(kind=kind, M=M, mtype=mt, seed=s, d=64, nsamp=24) if M in (8, 16, 64) and cc.spec_kind(kind) and (kind, M) in (("QAM", 16), ("PSK", 8), ("QAM", 64))
                     else dict(kind=kind, M=M, mtype=mt, calls=False))
    # NON-INTEGER cardinalities must be rejected (the trace carries the integer part and frac = TRUE)
    for kind, Mf in (("PSK", 8.5), ("QAM", 16.5), ("QAM", 4.000001), ("PSK", 2.5), ("PSK", 4.0000001), ("QAM", 63.99), ("PSK", 1023.5), ("QAM", 4.5),
                     ("PSK", 16.25), ("QAM", 256.5)):
        specs.append(dict(kind=kind, M=int(Mf), mfloat=Mf, calls=False))
    # phase offsets a few 1e-9 away from the axes (the constellation is the ROTATED M-PSK one for every offset)
    for M in cc.PSK_ORDERS:
        k = int(math.log2(M))
        specs.append(dict(kind="PSK", M=M, calls=False, phases=[(k % 4) * math.pi / 2 + 4e-9, -6e-9, math.pi + 9e-9, 2e-8 + math.pi / 2]))
    for M in (-1, -2, -4, -16, -64):
        for kind in ("PSK", "QAM"):
            specs.append(dict(kind=kind, M=M, calls=False))
    # constructor outcome for every cardinality
    for M in list(range(0, 1101)) + [2048, 4095, 4097]:
        for kind in ("PSK", "QAM"):
            if not (cc.QAM_ORDERS.count(M) and kind == "QAM") and not (cc.PSK_ORDERS.count(M) and kind == "PSK"):
                specs.append(dict(kind=kind, M=M, calls=False))
    return specs


def run(ctx):
    ctx.rule = ("TLC computes, for every sample of the emitted rational grids, the unique nearest lattice point by integer "
                "comparison; demodulate() of the real object must return the label its recorded (TLC-validated) table gives "
                "that point; recorded histories (construction for every M in 0..1100, modulate/demodulate of arrays of 8 "
                "shapes, setPhaseOffset sequences) are judged by TLC; distinct = (class, M, table, sample) keys (subsampled) "
                "+ recorded histories")
    ctx.assumptions += ["samples are placed relative to the EMITTED constellation (recorded scale and phase offset)",
                        "PSK: Euclidean-nearest = smallest circular index distance (ConstellationOps header lemma)",
                        "ties are excluded by the specification; nearest samples are 1/1024 sector (PSK) and 1/64 lattice "
                        "unit (QAM), 1/1024 (BPSK) from a boundary",
                        "negative indexes are outside the property (documented as unchecked by modulate)"]
    jobs = machine_jobs(ctx)
    with ThreadPoolExecutor(cc.nthreads()) as ex:
        futs = [(n, ex.submit(cc.run_machine, **kw)) for n, kw in jobs]
        devf = ex.submit(cc.model_devs, ctx, ["QamAcceptsOne", "NoNormalisation", "ModulateWraps", "DetectRealOnly", "ModulateReusesBuffer",
                                              "AbsorbsTinyTerms", "BlockwiseRoundsDown"])
        specs = history_specs(ctx)
        traces = [cc.record_history(sp)[0] for sp in specs]
        runs = [(n, f.result()) for n, f in futs]
        devf.result()
    emitted = []
    for n, r in runs:
        ctx.account(r, cc.MODULE, n)
        emitted += r.emitted
    ctx.require_actions(["Construct", "SetPhaseOffsetAny", "ModulateAny", "Modulate2Any", "DemodulateAny"])
    # stage T first: the tables stage R relies on are judged here
    verdicts = cc.validate(ctx, traces, CARE, "histories")
    for tr, vd in zip(traces, verdicts):
        cc.report(ctx, tr, vd, CARE)
        ctx.trace_done()
        ctx.distinct.add(("history", tr["spec"]["kind"], tr["m"]))
    ctx.sample({"stage": "T", "history": {"kind": "PSK", "M": 8, "ops": [e["op"] for e in next(t for t in traces if t["kind"] == "PSK" and t["m"] == 8 and len(t["events"]) > 1)["events"]][:12]}})
    ngroups = replay_rows(ctx, emitted)
    row = next(e for e in emitted if "near" in e and e["kind"] == "QAM" and e["m"] == 16)
    ctx.sample({"stage": "R", "kind": "QAM", "m": 16, "d": row["d"], "row_y": row["b"][0], "x": row["a"][30:36], "nearest": row["near"][30:36]})
    ctx.exhaustive = False
    ctx.notes["bounds"] = {"qam_orders": cc.QAM_ORDERS, "psk_orders": cc.PSK_ORDERS, "exhaustive_samples_up_to_M": 64,
                           "cardinalities_tried": "0..1100", "modulators_with_emitted_rows": ngroups,
                           "histories_recorded": len(traces)}


def replay(ctx, data):
    c = data["case"]
    if c.get("stage") == "T":
        tr, _ = cc.record_history(c["spec"])
        vd = cc.validate(ctx, [tr], CARE, "replay", nparts=1)[0]
        cc.report(ctx, tr, vd, CARE)
        return
    live = Live(c["kind"], c["M"], c["phases"])
    while live.step + 1 < len(live.phases):
        live.advance()
    if "s" in c:
        sm = c.get("smode")
        row = {"d": c["d"], "near": c["near"], "smode": sm}
        if sm == "scaled":
            row["ss"] = c["s"]
        else:
            row["a"], row["b"] = [x[0] for x in c["s"]], [x[1] for x in c["s"]]
    else:       # cases stored by earlier versions
        a = c["a"] if isinstance(c["a"], list) else [c["a"]]
        b = c["b"] if isinstance(c["b"], list) else [c["b"]]
        row = {"a": a, "b": b, "d": c["d"], "near": c["near"] if isinstance(c["a"], list) else [c["near"]]}
    check_rows(ctx, live, [row], "replay", present=c.get("present"), frame=c.get("frame"))
