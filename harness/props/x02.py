"""X02 (beyond the listed properties) - range expressions: spec/sim/RangeExpr.tla.

(A) util.misc.get_mixed_range_representation / get_range_representation: array -> text (progressions include their last
    element); (B) simulations.configobjvalidation.*_check and SimulationParameters.load_from_config_file: text -> list
    (ranges are numpy.arange's: end excluded), bounds, scalar-or-array.

Stage M: TLC checks the laws of the module on every array / item list within the bounds, refutes the deviation flags and
demonstrates the named deviation ZeroStepForgetsLength (expected violation of LosslessAll).
Stage R: every case TLC enumerated is one implementation test: the text the code writes is tokenised into atoms and must
be the atoms of the specification (for every carrier: the laws are invariant under v -> k v + c, so the same case is run
on int64 / int32 / float64 arrays with several k, c); the list the code reads must be Parse(items), the verdict the
specification's, through the four check functions, the four input forms and a real configuration file."""
import os
import re

import numpy as np

from .. import tlc
from ..core import pool_map, ROOT

MODULE = "sim/RangeExpr.tla"
DEVS = ["ExclusiveEnd", "AdjustWithoutShrink"]
NOB = -99
# carriers of (A): (scale, offset, dtype); exact in binary floating point
CARRIERS = [(1, 0, np.int64), (1, 0, np.int32), (3, -4, np.int64), (-2, 5, np.int32), (0.25, 0.5, np.float64), (2.5, -1.0, np.float64),
            (1, 0, np.float64)]
# carriers of (B): (name, scale); the integer checks only read integers
WORK = os.path.join(ROOT, ".work", "x02")


def model(mode, maxlen, vals, dev=(), emit=False, inv=None):
    inv = inv or ("LawsParse" if mode == "parse" else "LawsRepr")
    defs = {"Vals": "{" + ", ".join(str(x) for x in sorted(set(vals))) + "}"}       # negative numbers cannot stand in a cfg file
    cfg = tlc.cfg_text(constants={"Mode": '"%s"' % mode, "MaxLen": str(maxlen), "Dev": tlc.tla(set(dev)) if dev else "{}"},
                       defs=defs, invariants=[inv], action_constraints=["Emit"] if emit else [])
    return cfg, defs


# --------------------------------------------------------------------------------------- (A) array -> text
_FN = re.compile(r"^(.+)_\((.+)\)_(.+)$")


def tokenize(text, filename_mode):
    """the text the code wrote -> list of atoms ("num", a) / ("rng", a, s, b) with numbers as floats, or an error string"""
    if not isinstance(text, str):
        return f"not a string: {text!r}"
    atoms = []
    for tok in text.split(","):
        try:
            if filename_mode and _FN.match(tok):
                a, s, b = _FN.match(tok).groups()
                atoms.append(("rng", float(a), float(s), float(b)))
            elif not filename_mode and ":" in tok:
                a, s, b = tok.split(":")
                atoms.append(("rng", float(a), float(s), float(b)))
            else:
                atoms.append(("num", float(tok)))
        except Exception as e:            # noqa
            return f"token {tok!r} of {text!r} is neither a number nor first:step:last ({type(e).__name__})"
    return atoms


def exp_atoms(atoms, k, c):
    out = []
    for t in atoms:
        if t["k"] == "num":
            out.append(("num", float(t["a"] * k + c)))
        elif t["k"] == "rng":
            out.append(("rng", float(t["a"] * k + c), float(t["s"] * k), float(t["b"] * k + c)))
        else:
            out.append(("none",))
    return out


def exp_text(atoms, k, c, filename_mode):
    """exact text for integer carriers"""
    out = []
    for t in atoms:
        if t["k"] == "num":
            out.append(str(t["a"] * k + c))
        else:
            f = "{0}_({1})_{2}" if filename_mode else "{0}:{1}:{2}"
            out.append(f.format(t["a"] * k + c, t["s"] * k, t["b"] * k + c))
    return ",".join(out)


def run_repr(case):
    try:
        return _run_repr(case)
    except Exception as e:      # noqa - a comparison that raises is a verdict about the code under test
        return f"{type(e).__name__}: {e}"


def _run_repr(case):
    from pyphysim.util.misc import get_mixed_range_representation, get_range_representation, replace_dict_values
    v = case["v"]
    for k, c, dt in CARRIERS:
        arr = (np.array(v) * k + c).astype(dt)
        keep = arr.copy()
        # an array of another type that holds the same bytes is formatted first: the answer depends on the values only
        other = {np.dtype(np.int64): np.int32, np.dtype(np.float64): np.int64}.get(arr.dtype,
                                                                                 np.int64 if arr.size % 2 == 0 else None)
        if other is not None:
            for fm in (False, True):
                try:
                    replace_dict_values("{v}", {"v": arr.view(other).copy()}, fm)
                except Exception:      # noqa - only the later answers are judged
                    pass
        for fm in (False, True):
            what = f"array {arr.tolist()} ({np.dtype(dt).name}), filename_mode={fm}"
            try:
                text = get_mixed_range_representation(arr, fm)
            except Exception as e:      # noqa
                return f"{what}: get_mixed_range_representation raised {type(e).__name__}: {e}"
            got = tokenize(text, fm)
            if isinstance(got, str):
                return f"{what}: {got}"
            want = exp_atoms(case["atoms"], k, c)
            if got != want:
                return f"{what}: text {text!r} = atoms {got}, the specification's segmentation gives {want}"
            if np.issubdtype(dt, np.integer) and text != exp_text(case["atoms"], k, c, fm):
                return f"{what}: text {text!r}, expected {exp_text(case['atoms'], k, c, fm)!r}"
            if not case["zero"]:
                # Lossless, evaluated on the text itself: what it denotes is the array
                den = []
                for t in got:
                    if t[0] == "num":
                        den.append(t[1])
                    else:
                        n = int(round((t[3] - t[1]) / t[2])) + 1
                        den += [t[1] + i * t[2] for i in range(n)]
                if den != [float(x) for x in arr.tolist()]:
                    return f"{what}: text {text!r} denotes {den}"
            # the one-progression function on the whole array: numbers (< 4), one progression, or None
            try:
                whole = get_range_representation(arr, fm)
            except Exception as e:      # noqa
                return f"{what}: get_range_representation raised {type(e).__name__}: {e}"
            wexp = exp_atoms(case["whole"], k, c)
            if wexp == [("none",)]:
                if whole is not None:
                    return f"{what}: get_range_representation returned {whole!r} for an array that is no progression"
            else:
                g2 = tokenize(whole, fm)
                if g2 != wexp:
                    return f"{what}: get_range_representation returned {whole!r}, expected atoms {wexp}"
            # the same text inside a name template (file names of results), next to a scalar and a string
            # ... and a second, different array (the same values backwards) whose text is judged on its own first
            rev = arr[::-1].copy()
            try:
                rtext = get_mixed_range_representation(rev, fm)
            except Exception as e:      # noqa
                return f"{what}: get_mixed_range_representation of the reversed array raised {type(e).__name__}: {e}"
            d = {"v": arr, "n": 7, "s": "abc", "w": rev}
            try:
                name = replace_dict_values("r_{v}_{n}_{s}_{w}_{v}", d, fm)
            except Exception as e:      # noqa
                return f"{what}: replace_dict_values raised {type(e).__name__}: {e}"
            if name != f"r_[{text}]_7_abc_[{rtext}]_[{text}]":
                return f"{what}: replace_dict_values gave {name!r}, expected 'r_[{text}]_7_abc_[{rtext}]_[{text}]'"
            if d["v"] is not arr or d["n"] != 7 or d["s"] != "abc" or d["w"] is not rev or len(d) != 4:
                return f"{what}: replace_dict_values changed the dictionary it was given"
            if fm:
                # the file names of results are this text (SimulationResults.get_filename_with_replaced_params)
                from pyphysim.simulations.parameters import SimulationParameters
                from pyphysim.simulations.results import SimulationResults
                try:
                    sr = SimulationResults()
                    sr.set_parameters(SimulationParameters.create({"v": arr, "n": 7, "w": rev}))
                    fname = sr.get_filename_with_replaced_params("res_{w}_{n}_{v}")
                except Exception as e:      # noqa
                    return f"{what}: get_filename_with_replaced_params raised {type(e).__name__}: {e}"
                if fname != f"res_[{rtext}]_7_[{text}]":
                    return f"{what}: results file name {fname!r}, expected 'res_[{rtext}]_7_[{text}]'"
            if not np.array_equal(arr, keep) or arr.dtype != keep.dtype:
                return f"{what}: the argument was changed"
    return None


# --------------------------------------------------------------------------------------- (B) text -> list
def num_text(x, real, style):
    if not real:
        return str(x)
    x = x * real
    if style == 0:
        return repr(float(x))
    return str(int(x)) if float(x).is_integer() else repr(float(x))     # "3" is a real number too


def item_text(it, real, style):
    n = lambda x: num_text(x, real, style)      # noqa
    if it["k"] == "num":
        return n(it["a"])
    if it["k"] == "r2":
        # a:b has step 1 in the carrier's own unit; the half-unit carrier writes it with its step
        return f"{n(it['a'])}:{n(it['b'])}" if real in (False, 1.0) else f"{n(it['a'])}:{n(1)}:{n(it['b'])}"
    return f"{n(it['a'])}:{n(it['s'])}:{n(it['b'])}"


def forms(texts):
    """the ways one value reaches the check functions"""
    out = [("list", list(texts) if len(texts) > 1 else texts[0])]
    out.append(("bracket-spaces", "[" + " ".join(texts) + "]"))
    out.append(("bracket-commas", "[" + ",".join(texts) + "]"))
    out.append(("bracket-mixed", "[ " + ", ".join(texts) + " ]"))
    out.append(("bracket-space-comma", "[" + " , ".join(texts) + "]"))
    out.append(("bracket-space-before-comma", "[" + " ,".join(texts) + "  ]"))
    if len(texts) == 1:
        out.append(("list-of-one", [texts[0]]))
    return out


def judge(what, case, real, got, exc, scalar_ok):
    import validate
    want = {"ok": None, "small": validate.VdtValueTooSmallError, "big": validate.VdtValueTooBigError,
            "type": validate.VdtTypeError}[case["verdict"]]
    if want is not None:
        if exc is None:
            return f"{what}: returned {got!r}, the specification rejects the value ({case['verdict']})"
        if type(exc) is not want:
            return f"{what}: raised {type(exc).__name__} ({exc}), expected {want.__name__}"
        return None
    if exc is not None:
        return f"{what}: raised {type(exc).__name__}: {exc}"
    sc = real if real else 1
    exp = [x * sc for x in case["vals"]]
    typ = float if real else int
    if scalar_ok:
        if isinstance(got, list) or type(got) is not typ or got != exp[0]:
            return f"{what}: returned {got!r}, expected the scalar {typ(exp[0])!r}"
        return None
    if not isinstance(got, list):
        return f"{what}: returned {type(got).__name__} {got!r}, expected a list"
    if len(got) != len(exp) or any(a != b for a, b in zip(got, exp)):
        return f"{what}: returned {got!r}, expected {exp!r} (ranges exclude their end, items in order)"
    bad = [x for x in got if type(x) is not typ]
    if bad:
        return f"{what}: element {bad[0]!r} is a {type(bad[0]).__name__}, expected {typ.__name__}"
    return None


def run_parse(arg):
    try:
        return _run_parse(*arg)
    except Exception as e:      # noqa
        return f"{type(e).__name__}: {e}"


def _run_parse(idx, case):
    from pyphysim.simulations import configobjvalidation as cv
    from pyphysim.simulations.parameters import SimulationParameters
    for real in (False, 0.5, 1.0):          # False: the integer checks; else the real checks on values real * x
        sc = real if real else 1
        kw = {}
        if case["mn"] != NOB:
            kw["min"] = case["mn"] * sc
        if case["mx"] != NOB:
            kw["max"] = case["mx"] * sc
        if idx % 3 == 0 and kw:        # bounds reach the functions as strings when they come from a configspec
            kw = {k: str(v) for k, v in kw.items()}
        fn_arr = cv.real_numpy_array_check if real else cv.integer_numpy_array_check
        fn_sc = cv.real_scalar_or_real_numpy_array_check if real else cv.integer_scalar_or_integer_numpy_array_check
        for style in ((0, 1) if real else (0,)):
            texts = [item_text(it, real, style) for it in case["items"]]
            for fname, value in forms(texts):
                for fn, is_sc in ((fn_arr, False), (fn_sc, True)):
                    arg = list(value) if isinstance(value, list) else value
                    what = f"{fn.__name__}({value!r}{''.join(f', {k}={v!r}' for k, v in kw.items())}) [{fname}]"
                    got = exc = None
                    try:
                        got = fn(arg, **kw)
                    except Exception as e:      # noqa
                        exc = e
                    d = judge(what, case, real, got, exc, is_sc and case["scalar"] and fname == "list")
                    if d:
                        return d
                    if arg != value:
                        return f"{what}: the argument was changed to {arg!r}"
        # a real configuration file (every case; two syntaxes)
        os.makedirs(WORK, exist_ok=True)
        texts = [item_text(it, real, 1) for it in case["items"]]
        for syntax, line in (("commas", ",".join(texts)), ("brackets", "[" + " ".join(texts) + "]")):
            for chk, is_sc in (("real_numpy_array" if real else "integer_numpy_array", False),
                               ("real_scalar_or_real_numpy_array_check" if real else "integer_scalar_or_integer_numpy_array_check",
                                True)):
                fn = os.path.join(WORK, f"cfg-{os.getpid()}.txt")
                # every other case asks for x to be unpacked (one variation per value read, in order)
                unpack = idx % 2 == 0 and not (is_sc and case["scalar"] and syntax == "commas") and len(case["vals"]) > 0
                args = ", ".join(f"{k}={v}" for k, v in kw.items())
                xspec = f"x = {chk}({args})" if args else f"x = {chk}"
                xline = f"x = {line}"
                up = "unpacked_parameters = x,\n" if unpack else ""
                place = (idx + (1 if is_sc else 0)) % 3        # where the checked parameter lives in the file
                with open(fn, "w") as f:
                    if place == 0:
                        f.write(f"before = 7\n{xline}\n{up}[sec]\nafter = hello\n")
                        spec = [xspec, "before = integer", "[sec]", "after = string"]
                    elif place == 1:
                        f.write(f"before = 7\n{up}[sec]\n{xline}\nafter = hello\n")
                        spec = ["before = integer", "[sec]", xspec, "after = string"]
                    else:
                        f.write(f"before = 7\n{up}[sec]\nafter = hello\n[[sub]]\n{xline}\n")
                        spec = ["before = integer", "[sec]", "after = string", "[[sub]]", xspec]
                what = f"load_from_config_file with 'x = {line}' ({('top level', 'in a section', 'in a nested section')[place]}) and spec {xspec!r}"
                params = exc = None
                try:
                    params = SimulationParameters.load_from_config_file(fn, spec)
                except Exception as e:      # noqa
                    exc = e
                finally:
                    os.unlink(fn)
                if case["verdict"] != "ok":
                    # claim: an invalid value is refused with the loader's message, which names the parameter and the reason
                    if exc is None:
                        return f"{what}: loaded x = {params['x']!r}, the specification rejects the value ({case['verdict']})"
                    reason = {"small": "too small", "big": "too big", "type": "wrong type"}[case["verdict"]]
                    if type(exc) is not Exception or "'x'" not in str(exc) or reason not in str(exc):
                        return (f"{what}: raised {type(exc).__name__}: {exc}; expected the loader's message naming 'x' and "
                                f"'{reason}'")
                    continue
                if exc is not None:
                    return f"{what}: raised {type(exc).__name__}: {exc}"
                d = judge(what, case, real, params["x"], None, is_sc and case["scalar"] and syntax == "commas")
                if d:
                    return d
                if params["before"] != 7 or params["after"] != "hello":
                    return f"{what}: the other parameters of the file were read as {params.parameters!r}"
                if unpack:
                    got = [q["x"] for q in params.get_unpacked_params_list()]
                    exp = [x * sc for x in case["vals"]]
                    if params.unpacked_parameters != ["x"] or got != exp or params.get_num_unpacked_variations() != len(exp):
                        return (f"{what} + 'unpacked_parameters = x,': unpacked {params.unpacked_parameters}, variations "
                                f"{got}, expected one per value {exp}")
                elif params.unpacked_parameters:
                    return f"{what}: parameters {params.unpacked_parameters} are unpacked though the file asks for none"
    return None


# --------------------------------------------------------------------------------------- driver
def _tlc(ctx, m, **kw):
    cfg, defs = m
    return ctx.tlc(MODULE, cfg, defs=defs, **kw)


def run(ctx):
    thorough = ctx.tier == "thorough"
    rl, rv = (7, range(0, 4)) if thorough else (5, range(0, 4))
    pl, pv = (3, range(0, 3)) if thorough else (2, range(0, 3))
    # stage M: laws, deviations, named deviation
    for dev in DEVS:
        _tlc(ctx, model("repr", 6, range(0, 4), dev=[dev]), label=f"Dev.{dev}", expect_violation="LawsRepr", workers=4)
    _tlc(ctx, model("repr", 5, range(0, 3), inv="LosslessAll"), label="ZeroStepForgetsLength (named deviation)",
            expect_violation="LosslessAll", workers=4)
    # stage R (the emission runs check the laws as well)
    r = _tlc(ctx, model("repr", rl, rv, emit=True), label=f"repr len<={rl}", coverage=True, timeout=3000)
    cases = [c for c in r.emitted if c["kind"] == "repr"]
    # arrays given by their differences: two and three adjacent long runs (up to 8 / 9 elements)
    dl, dv = (8, (-1, 0, 1, 2)) if thorough else (7, (0, 1, 2))
    r = _tlc(ctx, model("reprd", dl, dv, emit=True), label=f"repr by differences, <={dl} over {dv}", coverage=True, timeout=3000)
    cases += [c for c in r.emitted if c["kind"] == "repr"]
    if thorough:
        # a second alphabet with larger gaps (runs of runs)
        r2 = _tlc(ctx, model("repr", 9, (0, 1, 3), emit=True), label="repr len<=9 over {0,1,3}", coverage=True, timeout=3000)
        cases += [c for c in r2.emitted if c["kind"] == "repr"]
    # the specification's whole-array rendering (get_range_representation) comes with the case as `whole`
    res = pool_map(run_repr, cases, chunksize=max(1, len(cases) // 256))
    for c, d in zip(cases, res):
        ctx.ok(("repr", len(c["v"]), len(c["segs"]), tuple(t["k"] for t in c["atoms"])))
        if d:
            ctx.violation(f"repr: {d}", {"kind": "repr", "case": c})
    ctx.sample({"repr": cases[len(cases) // 2]})
    r = _tlc(ctx, model("parse", pl, pv, emit=True), label=f"parse items<={pl}", coverage=True, timeout=3000)
    pcases = [c for c in r.emitted if c["kind"] == "parse"]
    if thorough:
        r2 = _tlc(ctx, model("parse", 2, range(0, 5), emit=True), label="parse items<=2 over 0..4", coverage=True, timeout=3000)
        pcases += [c for c in r2.emitted if c["kind"] == "parse"]
    if not thorough:
        # the quick tier replays a deterministic third of the cases, chosen by the seed, and half of the rejected ones
        pcases = [c for i, c in enumerate(pcases) if c["verdict"] != "ok" and i % 2 == ctx.seed % 2 or i % 3 == ctx.seed % 3]
    res = pool_map(run_parse, list(enumerate(pcases)), chunksize=max(1, len(pcases) // 256))
    for c, d in zip(pcases, res):
        ctx.ok(("parse", tuple(i["k"] for i in c["items"]), c["verdict"], c["mn"] != NOB, c["mx"] != NOB))
        if d:
            ctx.violation(f"parse: {d}", {"kind": "parse", "case": c})
    ctx.sample({"parse": pcases[len(pcases) // 2]})
    # the binding is live: one perturbed expected answer of each language must be reported by the replay
    import copy
    ctl = copy.deepcopy(next(c for c in cases if any(t["k"] == "rng" for t in c["atoms"])))
    next(t for t in ctl["atoms"] if t["k"] == "rng")["b"] += 1
    ctl2 = copy.deepcopy(next(c for c in pcases if c["verdict"] == "ok" and len(c["vals"]) >= 2))
    ctl2["vals"] = ctl2["vals"][:-1]
    ctl3 = copy.deepcopy(next(c for c in pcases if c["verdict"] == "small"))
    ctl3["verdict"] = "big"
    for name, d in (("repr/last", run_repr(ctl)), ("parse/values", run_parse((1, ctl2))), ("parse/verdict", run_parse((1, ctl3)))):
        if not d:
            raise tlc.TlcError(f"negative control {name}: a perturbed expected answer was accepted by the replay")
        ctx.notes.setdefault("negative_controls_rejected", {})[name] = d[:160]
    ctx.require_actions(["Next"])
    ctx.exhaustive = True
    ctx.rule = ("TLC enumerates every array (A) / item list with bounds (B) within the constants of RangeExpr.tla and checks the "
                "laws on each; every enumerated case is run on the real functions (six carriers x two text modes; four check "
                "functions x five input forms x a real configuration file) and the answer compared with the specification's")
    ctx.assumptions += ["array elements are exactly representable (integers, quarters, multiples of 2.5): np.allclose's tolerance "
                        "never decides a case",
                        "an item that expands to nothing is only read without bounds",
                        "the check functions' claim for a rejected value is the validate.* exception type; the loader's is its message"]


def replay(ctx, data):
    c = data["case"]
    d = run_repr(c) if data["kind"] == "repr" else run_parse((0, c))
    ctx.ok()
    if d:
        ctx.violation(d, data)
