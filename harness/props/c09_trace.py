"""C09, stage T - recorded random configurations / call sequences of the real block-diagonalization classes,
validated by TLC against the machine of spec/comm/BlockDiag.tla (spec/comm/Trace_BlockDiag.tla).

The recorder draws configurations BEYOND the alphabet TLC enumerates (K <= 5, up to 4 antennas per user, ext. int.
rank <= 3, random powers / noise variances / ext. int. powers, four modulators, four packet lengths) and logs what
it observed on the public interface only: outcome of set_ext_int_handling_metric and metric_name, reported stream
counts, and for every solve the names of the predicates it evaluated numerically ((rel), tolerance 1e-7) with the
ones that held.  It does NOT know what is required in which state: that is decided by TLC."""
import json
import os
import uuid

import numpy as np

from .. import tlc
from ..core import pool_map
from . import c09 as R

MODULE = "comm/Trace_BlockDiag.tla"
MODS = ["PSK4", "QAM16", "BPSK", "PSK8"]
PLENS = [30, 60, 120, 240]
NAMES = ["None", "naive", "fixed", "capacity", "effective_throughput", "lala"]
EVAL_BD = ["EarlierResultsUnchanged", "EffectiveChannelBlockDiagonal", "ReturnedChannelIsChannelTimesPrecoder", "PowerLePerUser", "PowerEqPerUser",
           "PowerReachedByOne", "EffectiveStreamsOrthogonal", "WaterLevelCommonOnPoweredStreams", "InputsUntouched"]
EVAL_EXT = ["EarlierResultsUnchanged", "InterUserNullWithExtInt", "PowerEqPerUser", "StreamCountsMatchPrecoders", "ReceiveFilterInvertsOnPoweredStreams",
            "ExtIntRemovedWhenEnoughStreamsSacrificed", "InputsUntouched"]


def draw_pe(rs):
    """external interference power: none, far below the noise, moderate, dominant"""
    u = rs.rand()
    if u < 0.2:
        return 0.0
    if u < 0.3:
        return 1e-4
    if u < 0.5:
        return 1e6
    return float(np.round(10 ** rs.uniform(-0.5, 1.0), 4))


def pe_label(pe):
    return "zero" if pe == 0 else ("huge" if pe >= 1e6 else "hi")


def _edge(op, a, req=()):
    return {"ret": {"op": op, "a": a, "out": "ok"}, "post": {"metric": None, "last": {"n": 0}}, "req": list(req), "probe": {"ok": False}}


def record_trace(job):
    seed, length = job
    rs = np.random.RandomState(seed % (2 ** 31))
    drv = R.Driver(seed + 1)
    cls = ["BD", "WBD", "EBD", "EBD"][rs.randint(0, 4)]
    K = int(rs.randint(2, 6))
    p = float(np.round(10 ** rs.uniform(-1.3, 1.0), 4))
    nv = float(np.round(10 ** rs.uniform(-4.0, 0.5), 6))
    pe = draw_pe(rs)
    drv.step(_edge("Construct", {"cls": cls, "K": K, "p": [p, 1], "nv": [nv, 1], "pe": [pe, 1]}), False)
    ev = [{"op": "Construct", "cls": cls, "K": K, "pe": pe_label(pe)}]
    raw = {"cls": cls, "K": K, "p": p, "nv": nv, "pe": pe}
    acc_ns = 0          # num_streams of the last ACCEPTED call (only to stay inside the quantifier num_streams <= N)
    N = 0
    can_filter = False  # the last result is one of the plain block diagonalization
    for _ in range(length):
        ops = ["NewChannel"]
        if N:
            ops += ["SolveBD", "SolveBD"]
            if cls != "BD":
                ops += ["SolveExt", "SolveExt", "SolveExt", "CalcWhitening"]
            if can_filter:
                ops += ["CalcReceiveFilter"]
        if cls == "EBD":
            ops += ["SetMetric", "SetMetric", "SetMetric"]
        ops += ["SetAttr"]
        op = ops[rs.randint(0, len(ops))]
        cfgv = {"p": [drv.cfg["p"], 1], "nv": [drv.cfg["nv"], 1], "pe": [drv.cfg["pe"], 1]}
        if op == "SetAttr":
            # assignment to a public attribute of the live object (power sweep ...)
            attr = ["iPu", "noise_var"] + (["pe"] if cls != "BD" else [])
            attr = attr[rs.randint(0, len(attr))]
            val = {"iPu": float(np.round(10 ** rs.uniform(-1.3, 1.0), 4)), "noise_var": float(np.round(10 ** rs.uniform(-4.0, 0.5), 6)),
                   "pe": draw_pe(rs)}[attr]
            msgs = drv.step(dict(_edge("SetAttr", {"attr": attr, "value": [val, 1]}), probe={"ok": False}), False)
            rec = {"op": "SetAttr", "attr": attr, "pe": pe_label(drv.cfg["pe"])}
            if msgs:
                rec["op"] = "SetAttrBroken:" + msgs[0][1][:150]
            ev.append(rec)
            continue
        if op == "SetMetric":
            name = NAMES[rs.randint(0, len(NAMES))]
            a = {"ns": 0, "mod": "none", "plen": 0}
            want = {"naive": "n", "fixed": "n", "effective_throughput": "mp"}.get(name, "")
            # mostly the right keys, sometimes a missing or a superfluous one
            keys = set(want)
            if rs.rand() < 0.3:
                keys ^= {"nmp"[rs.randint(0, 3)]}
            if "n" in keys:
                a["ns"] = int(rs.randint(1, max(N, 1) + 1))
            if "m" in keys:
                a["mod"] = MODS[rs.randint(0, len(MODS))]
            if "p" in keys:
                a["plen"] = PLENS[rs.randint(0, len(PLENS))]
            m, d = R.metric_call_args(name, a, variant=rs.randint(0, 2))
            try:
                drv.o.set_ext_int_handling_metric(m, d) if (d or rs.rand() < 0.5) else drv.o.set_ext_int_handling_metric(m)
                out = "ok"
                acc_ns = a["ns"] if name in ("naive", "fixed") else 0
            except AttributeError:
                out = "rejected"
            ev.append(dict(op="SetMetric", name=name, out=out, name_after=drv.o.metric_name, **a))
            continue
        if op == "NewChannel":
            N = int(rs.randint(max(1, acc_ns), 5))
            if K * N > 12:
                N = max(1, acc_ns, 12 // K)
            rE = 0 if cls == "BD" else int(rs.randint(1, 4))
            sc = int([-7, -3, 0, 0, 4, 7][rs.randint(0, 6)])      # channel-scale regime (path loss / units)
            src = 0 if rE == 0 else (2 if rE >= 2 and rs.rand() < 0.5 else 1)      # several external interference sources
            nte = [rE] if src <= 1 else [rE // 2, rE - rE // 2]
            drv.step(_edge("NewChannel", {"N": N, "rE": rE, "sc": sc, "nte": nte}), False)
            ev.append({"op": "NewChannel", "N": N, "rE": rE, "sc": sc, "src": src})
            continue
        rec = {"op": op, "raised": "", "ns": [], "evaluated": [], "holds": []}
        if op == "SolveBD":
            which = ["bd_wf", "mod_bd_wf"] + (["bd_nowf"] if cls == "BD" else [])
            rec["which"] = which[rs.randint(0, len(which))]
            msgs = [b for _, b in drv.step(_edge("SolveBD", {"op": rec["which"], "cfg": cfgv}, EVAL_BD), False)]
            evaluated = EVAL_BD
            can_filter = not any(" raised " in m for m in msgs)
        elif op == "SolveExt":
            if acc_ns > N:
                continue
            msgs = [b for _, b in drv.step(_edge("SolveExt", {"cfg": cfgv}, EVAL_EXT), False)]
            evaluated = EVAL_EXT
            can_filter = False
            if drv.res is not None and drv.res[0] == "ext" and not any("raised" in m for m in msgs):
                try:
                    rec["ns"] = [int(x) for x in drv.res[3]]
                except Exception:
                    rec["ns"] = []
        elif op == "CalcWhitening":
            msgs = [b for _, b in drv.step(_edge("CalcWhitening", {"cfg": cfgv}, ["WhiteningFiltersWhitenExtIntPlusNoise", "InputsUntouched"]), False)]
            evaluated = ["WhiteningFiltersWhitenExtIntPlusNoise", "InputsUntouched", "EarlierResultsUnchanged"]
            can_filter = False
        else:
            msgs = [b for _, b in drv.step(_edge("CalcReceiveFilter", {"how": ["static", "module"][rs.randint(0, 2)]},
                                                 EVAL_BD + ["ReceiveFilterInvertsOnPoweredStreams"]), False)]
            evaluated = EVAL_BD + ["ReceiveFilterInvertsOnPoweredStreams"]
        raised = [m for m in msgs if " raised " in m and not m.split(":", 1)[0] in evaluated]
        if raised:
            rec["raised"] = raised[0][:200]
        else:
            failed = R.failed_predicates(msgs)
            rec["evaluated"] = list(evaluated)
            rec["holds"] = [] if "Malformed" in failed else [x for x in evaluated if x not in failed]
            rec["detail"] = msgs[:3]
        ev.append(rec)
    return {"events": ev, "raw": raw, "seed": seed, "length": length}


def validate(ctx, traces, label, verdict_only=False):
    """one TLC run over all traces -> {tid (1-based): (pos, mismatch)}  (verdict_only: no second run naming the traces)"""
    os.makedirs(tlc.WORK, exist_ok=True)
    path = os.path.join(tlc.WORK, f"c09-traces-{uuid.uuid4().hex[:8]}.json")
    with open(path, "w") as f:
        json.dump([[{k: v for k, v in e.items() if k != "detail"} for e in t["events"]] for t in traces], f)
    try:
        cfg, defs = R.model(["BD"], [2], [1], [1], ["hi"], ["lo"], ["hi"], [1], ["PSK4"], [120], emit=False)
        base = dict(constants={"Extras": "FALSE", "Sweep": "FALSE"}, defs=defs, init="TInit", next_="TNext", view="tview")
        env = dict(R.JVM_ENV, TRACE_FILE=path)
        r = tlc.run(MODULE, tlc.cfg_text(invariants=["Conforms", "TraceLaws"], **base), defs=defs, workers=1, env=env, heap="1g", timeout=1800)
        bad = {}
        if r.violated and verdict_only:
            bad = {0: (0, [r.violated])}
        elif r.violated:
            r2 = tlc.run(MODULE, tlc.cfg_text(action_constraints=["TEmit"], **base), defs=defs, workers=1, env=env, heap="1g", timeout=1800)
            bad = {e["tid"]: (e["pos"], e["mismatch"]) for e in r2.emitted}
            if not bad:
                raise tlc.TlcError(f"trace validation: {r.violated} violated but no mismatching trace was named")
        else:
            want = sum(len(t["events"]) for t in traces) + len(traces)
            if r.distinct != want:
                raise tlc.TlcError(f"trace validation visited {r.distinct} states, expected {want} (every event of every trace)")
    finally:
        os.unlink(path)
    ctx.account(r, MODULE, label, expect_violation="any")
    return bad


def judge(ctx, traces, bad):
    for tid in sorted(bad):
        pos, mm = bad[tid]
        t = traces[tid - 1]
        e = t["events"][pos - 1]
        if mm and mm[0] == "not enabled":
            raise tlc.TlcError(f"the recorder made a call the machine does not allow: {e} in {t['raw']}")
        what = (f"recorded {t['raw']['cls']} K={t['raw']['K']} trace, call {pos} ({e['op']} {dict((k, v) for k, v in e.items() if k in ('name', 'ns', 'mod', 'plen', 'out', 'name_after', 'which'))}): "
                f"{mm}; {'; '.join(e.get('detail', []))[:300]}")
        case = {"kind": "trace", "seed": t["seed"], "length": t["length"], "mismatch": mm, "pos": pos}
        fid = "RejectedMetricCommitted" if (mm[0] == "metric_name" and e.get("out") == "rejected") else None
        if fid:
            ctx.finding(fid, what, case)
        else:
            ctx.violation(what, case)
    ctx.trace_done(len(traces))
    ctx.ok(n=sum(len(t["events"]) for t in traces))


def negative_control(ctx, traces, bad):
    """liveness of the binding: ONE logged field of one conforming trace is corrupted - a power predicate the specification requires
    after that solve is taken out of the logged `holds` - and the same trace specification must reject it"""
    for tid, t in enumerate(traces, 1):
        if tid in bad:
            continue
        for i, e in enumerate(t["events"]):
            if e["op"] in ("SolveExt", "SolveBD") and not e["raised"]:
                name = "PowerEqPerUser" if e["op"] == "SolveExt" or e.get("which") == "bd_nowf" else "PowerLePerUser"
                if name not in e["holds"]:
                    continue
                probe = json.loads(json.dumps({"events": t["events"][:i + 1]}))
                probe["events"][i]["holds"].remove(name)
                if not validate(ctx, [probe], "negative control: one corrupted trace", verdict_only=True):
                    raise tlc.TlcError(f"trace validation did not report a corrupted {e['op']} log ({name} removed from `holds`) (binding not live)")
                ctx.notes["trace_negative_control"] = f"{name} removed from the logged `holds` of a {e['op']} event (trace {tid}, call {i + 1}): rejected"
                return
    if not bad:
        raise tlc.TlcError("negative control: no conforming trace with a solve was recorded")
    ctx.notes["trace_negative_control"] = "skipped: no conforming trace with a solve (the run reports violations)"


def run(ctx):
    count = 4000 if ctx.tier == "thorough" else 150
    jobs = [(ctx.seed * 1000003 + 17 * i + 5, 12) for i in range(count)]
    traces = pool_map(record_trace, jobs, chunksize=max(1, count // 48))
    bad = validate(ctx, traces, f"{count} recorded random call sequences")
    judge(ctx, traces, bad)
    negative_control(ctx, traces, bad)
    solves = sum(1 for t in traces for e in t["events"] if e["op"] in ("SolveBD", "SolveExt", "CalcWhitening", "CalcReceiveFilter"))
    ctx.notes["recorded_traces_validated"] = {"traces": count, "events": sum(len(t["events"]) for t in traces), "solves": solves,
                                              "rejected_metric_calls": sum(1 for t in traces for e in t["events"] if e.get("out") == "rejected")}
    ctx.sample({"stage": "T", "trace": [{k: v for k, v in e.items() if k not in ("detail", "evaluated")} for e in traces[0]["events"][:6]]})


def replay(ctx, c):
    t = record_trace((c["seed"], c["length"]))
    bad = validate(ctx, [t], "replay of one recorded trace")
    judge(ctx, [t], bad)
