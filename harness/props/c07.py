"""C07 - a simulation stopped at any point resumes without losing or double-counting work.

Stage M: spec/sim/Persist.tla (runner + files + Crash/Restart, crash enabled in every state incl. between
the two steps of every save): RestartNeverFails, NoDoubleCount, DiskSound, ResumeExact, MismatchRefused
hold for the intended (write-then-rename) design; each deviation flag is refuted.
Stage R: every terminal behaviour TLC emitted (a sequence of crash points, one per incarnation) is
executed on real SimulationRunner objects: the crash is injected as a BaseException raised at the
corresponding hook / repetition / file operation (a fault-injecting `open` installed in
pyphysim.simulations.results), the runner is discarded, a new one is started on the same files.
Repetitions of incarnation i are worth 1000^(i-1), so the stored value shows how many repetitions of
each incarnation it holds.  Model repetition counts are mapped to the code's 500-repetition save
period by r -> (r div 3)*500 + (0,1,499)[r mod 3]."""
import builtins
import os
import random
import shutil
import tempfile
from concurrent.futures import ThreadPoolExecutor

from .. import tlc
from ..core import pool_map

MODULE = "sim/Persist.tla"
DEVS = ["NonAtomicWrite", "SaveBeforeIncrement", "LoadedMergedTwice", "NoParamGuard", "TornAccepted"]
INVS = ["RestartNeverFails", "NoDoubleCount", "DiskSound", "ResumeExact", "MismatchRefused"]
PERIOD = 3


def f_real(r):
    return (r // PERIOD) * 500 + (0, 1, 499)[r % PERIOD]


def timers_of(nv, repmax):
    """model points (variation, rep) where the five-minute timer fires"""
    t = []
    if repmax >= 4:
        t.append([1, 2])
        if nv >= 2:
            t.append([2, 4])
    return t


def model(nv, repmax, maxinc, delete, mismatch, dev=(), emit=True, rerun=False):
    """repmax: one number (every incarnation) or the list of the incarnations' rep_max"""
    d = {k: (k in dev) for k in DEVS}
    rms = list(repmax) if isinstance(repmax, (list, tuple)) else [repmax] * maxinc
    defs = {"Dev": tlc.tla(d), "TimerAt": "{" + ", ".join(tlc.tla(x) for x in timers_of(nv, max(rms))) + "}", "RepMaxSeq": tlc.tla(rms)}
    cfg = tlc.cfg_text(constants={"NV": str(nv), "SavePeriod": str(PERIOD), "MaxInc": str(maxinc), "AllowRerun": tlc.tla(bool(rerun)),
                                  "DeletePartials": tlc.tla(bool(delete)), "AllowMismatch": tlc.tla(bool(mismatch))},
                       defs=defs, invariants=INVS, action_constraints=["Emit"] if emit else [])
    return cfg, defs


class Crash(BaseException):
    """the process dies here"""


class FaultyOpen:
    """stands in for `open` inside pyphysim.simulations.results: the (n+1)-th SUCCESSFUL opening for writing of the
    file selected by `match` either raises before touching it ("wbegin"), writes half of the data and then raises
    ("wcommit"), or lets the data be written completely and raises at the rename that would publish it ("wrename":
    a whole temporary file next to the old target - durably the same as "wbegin").  An opening that fails by itself
    (the partial_results folder does not exist yet: the code then creates it and tries again) is not counted."""

    def __init__(self, match, skip, mode):
        self.match, self.skip, self.mode, self.seen = match, skip, mode, 0
        self.fired = False
        self.armed = None

    def __call__(self, name, mode="r", *a, **kw):
        if "w" in mode and self.match(str(name)) and not self.fired:
            if self.seen == self.skip:
                if not os.path.isdir(os.path.dirname(os.path.abspath(str(name)))):
                    return builtins.open(name, mode, *a, **kw)           # raises: the folder is missing
                if self.mode == "wbegin":
                    self.fired = True
                    raise Crash()
                f = builtins.open(name, mode, *a, **kw)
                self.fired = True
                if self.mode == "wrename":
                    self.armed = str(name)
                    return f
                return _HalfFile(f)
            f = builtins.open(name, mode, *a, **kw)
            self.seen += 1
            return f
        return builtins.open(name, mode, *a, **kw)

    def replace(self, real_replace):
        def _replace(src, dst, *a, **kw):
            if self.armed is not None and str(src) == self.armed:
                self.armed = None
                raise Crash()
            return real_replace(src, dst, *a, **kw)
        return _replace


class _HalfFile:
    def __init__(self, f):
        self.f = f

    def write(self, data):
        self.f.write(data[: max(1, len(data) // 2)])
        self.f.flush()
        self.f.close()
        raise Crash()

    def __enter__(self):
        return self

    def __exit__(self, *a):
        try:
            self.f.close()
        except Exception:
            pass
        return False

    def __getattr__(self, n):
        return getattr(self.f, n)


def make_runner(case, inc, pid, wd, ext, fault, seen, clock, rel=False):
    from pyphysim.simulations.runner import SimulationRunner
    from pyphysim.simulations.results import Result, SimulationResults
    nv = case["nv"]

    class Runner(SimulationRunner):
        def __init__(self):
            super().__init__(read_command_line_args=False)
            self.rep_max = f_real(case["rms"][inc - 1])
            self.update_progress_function_style = None
            if nv == 1 and case.get("nounpack"):
                self.params.add("p", 1)                      # a simulation WITHOUT unpacked parameters (one combination)
            else:
                self.params.add("p", list(range(1, nv + 1)))
                self.params.set_unpack_parameter("p")
            # "other parameters" (pid 2), by the case: a tiny change of a fixed scalar, one element of a fixed list, an extra key
            kind = (len(case["hist"]) + nv) % 3 if pid != 1 else -1
            self.params.add("noise", 4e-9 if kind == 0 else 1e-9)
            self.params.add("lst", [1, 2, 4] if kind == 1 else [1, 2, 3])
            if kind == 2:
                self.params.add("extra", 1)
            if case.get("progress_file"):
                # progress written to files next to the results (a crash leaves such a file behind)
                self.update_progress_function_style = "text2"
                self.progress_output_type = "file"
            self.delete_partial_results_bool = bool(case["delete"])
            # an absolute name keeps the partial files next to the results; a relative one (the process works in wd)
            # puts them into the partial_results folder, which the first save has to create
            self.set_results_filename(("res" + ext) if rel else os.path.join(wd, "res" + ext))
            self.known = {}
            # what changes from one incarnation to the next when the SAME runner object is started again
            self.ctl = {"token": 1000 ** (inc - 1), "fault": fault, "seen": seen, "clock": clock}

        def _hit(self, kind, v, rep=None):
            fault = self.ctl["fault"]
            if fault and fault["kind"] == kind and fault["v"] == v and (rep is None or fault["rep"] == rep) and not fault.get("done"):
                fault["done"] = True
                raise Crash()

        def _on_simulate_current_params_start(self, current_params):
            v = current_params["p"]
            self.known[v] = 0
            self._hit("start", v)

        def _run_simulation(self, current_params):
            v = current_params["p"]
            self._hit("body", v, self.known.get(v, 0))
            if [v, self.known.get(v, 0) + 1] in [[tv, f_real(tr)] for tv, tr in timers_of(nv, max(case["rms"]))]:
                self.ctl["clock"][0] += 0.0 if os.environ.get("VERIF_C07_NOTIMER") else 301.0          # "more than five minutes" since the last save
            token = self.ctl["token"]
            r = SimulationResults()
            r.add_new_result("tok", Result.SUMTYPE, token)
            r.add_new_result("rat", Result.RATIOTYPE, token, 2 ** 10)
            # results whose own update count says nothing about the repetitions run: the last observation, a choice
            r.add_new_result("mis", Result.MISCTYPE, token)
            r.add_new_result("cho", Result.CHOICETYPE, 1, 3)
            return r

        def _keep_going(self, current_params, current_sim_results, current_rep):
            v = current_params["p"]
            seen = self.ctl["seen"]
            if v not in seen:
                seen[v] = int(current_rep)      # the first count this incarnation works with
            self.known[v] = int(current_rep)
            self._hit("test", v, int(current_rep))
            return True

        def _on_simulate_current_params_finish(self, current_params, current_params_sim_results=None):
            self._hit("finish", current_params["p"])

        def _on_simulate_finish(self):
            self._hit("simfinish", 0)

    return Runner()


REAL_REPLACE = os.replace


def _publish_probe(inner, published):
    """os.replace as the simulation sees it: remembers what the source file holds ON THE DISK when it is renamed into place"""
    def _replace(src, dst, *a, **kw):
        try:
            with builtins.open(src, "rb") as fh:
                data = fh.read()
        except OSError:
            data = None
        r = inner(src, dst, *a, **kw)
        published[os.path.abspath(str(dst))] = data
        return r
    return _replace


def _disk(wd):
    """content of every result file under wd (progress files excluded)"""
    out = {}
    for dp, _, fs in os.walk(wd):
        for f in fs:
            if "res" in f and "progress" not in f.lower():
                with builtins.open(os.path.join(dp, f), "rb") as fh:
                    out[os.path.relpath(os.path.join(dp, f), wd)] = fh.read()
    return out


def fault_of(h, case):
    """crash record of the model -> where to inject it in the real run"""
    ph, v, rep = h["crash"], h["v"], f_real(h["rep"])
    nv = case["nv"]
    if ph == "rerun":
        return None                      # no crash: the completed simulation is simply started again
    if ph == "load":
        return {"kind": "start", "v": v}
    if ph == "first":
        return {"kind": "body", "v": v, "rep": 0}
    if ph == "test":
        return {"kind": "test", "v": v, "rep": rep}
    if ph == "body":
        return {"kind": "body", "v": v, "rep": rep}
    if ph == "vsave":
        return {"kind": "finish", "v": v}
    if ph == "append":
        return {"kind": "start", "v": v + 1} if v < nv else {"kind": "simfinish", "v": 0}
    if ph in ("wbegin", "wcommit"):
        return {"kind": "write", "mode": ph, "file": h["wf"], "skip": h["nw"]}
    if ph == "delete":
        return {"kind": "remove"}
    raise ValueError(ph)


def run_case(job):
    """-> (None | description, finding id | None)"""
    case, ext = job[0], job[1]
    reuse = len(job) > 2 and job[2]       # restart on the SAME runner object (interrupted in-process) instead of a new one
    rel = len(job) > 3 and job[3]         # relative results file name: partial files live in ./partial_results
    rename = len(job) > 4 and job[4]      # the model's crash before a save is injected at the rename instead of at the open
    import pyphysim.simulations.results as resmod
    from pyphysim.simulations.results import SimulationResults
    os.makedirs(tlc.WORK, exist_ok=True)
    wd = tempfile.mkdtemp(prefix="c07-", dir=tlc.WORK)
    cwd = os.getcwd()
    try:
        os.chdir(wd)
        crashes = [h for h in case["hist"] if "crash" in h]
        nv, incs = case["nv"], case["incs"]
        pids = [1] * (incs - 1) + [case["pid"]]
        loaded = {(l[0], l[1]): l[2] for l in case["loaded"]}
        runner = None
        clock_prev = None
        for inc in range(1, incs + 1):
            last = inc == incs
            fault = None if last else fault_of(crashes[inc - 1], case)
            seen = {}
            published = {}
            os.replace = _publish_probe(REAL_REPLACE, published)
            # virtual wall clock; a restarted (same) runner object goes on with the clock it had, so that the
            # five-minute timer does not fire merely because a new incarnation started
            clock = clock_prev if (reuse and runner is not None) else [1000.0]
            clock_prev = clock
            import pyphysim.simulations.runner as runmod
            real_time = runmod.time
            runmod.time = lambda: clock[0]
            if reuse and runner is not None:
                runner.ctl = {"token": 1000 ** (inc - 1), "fault": fault, "seen": seen, "clock": clock}
                runner.known = {}
                runner.rep_max = f_real(case["rms"][inc - 1])
                if pids[inc - 1] != pids[inc - 2]:
                    runner.params["noise"] = 4e-9          # item syntax on the live parameters object
            else:
                runner = make_runner(case, inc, pids[inc - 1], wd, ext, fault, seen, clock, rel)
            real_remove = os.remove
            if fault and fault["kind"] == "write":
                target = fault["file"]
                if target == 0:
                    match = lambda n: "_unpack_" not in os.path.basename(n)
                else:
                    def match(n, t=target):
                        import re
                        m = re.search(r"_unpack_(-?\d+)\.", os.path.basename(n))
                        # (a simulation without unpacked parameters numbers its only combination -1)
                        return bool(m) and (int(m.group(1)) == t - 1 or (nv == 1 and int(m.group(1)) == -1))
                fo = FaultyOpen(match, fault["skip"], "wrename" if (rename and fault["mode"] == "wbegin") else fault["mode"])
                resmod.open = fo
                os.replace = _publish_probe(fo.replace(REAL_REPLACE), published)
            if fault and fault["kind"] == "remove" and case["delete"]:
                def bad_remove(path, *a, **k):
                    if "_unpack_" in os.path.basename(str(path)):      # the deletion of the partial-results files
                        raise Crash()
                    return real_remove(path, *a, **k)
                os.remove = bad_remove
            disk_before = _disk(wd) if (last and case["outcome"] == "refused") else None

            try:
                try:
                    runner.simulate()
                    crashed = False
                except Crash:
                    crashed = True
                except BaseException as ex:  # noqa
                    if last and case["outcome"] == "refused" and isinstance(ex, ValueError):
                        # refused rather than merged: what was on the disk stays as it was
                        if disk_before is not None and _disk(wd) != disk_before:
                            return "partial results of other parameters were refused, but the files on the disk were changed", None
                        return None, None
                    fid = None
                    if inc > 1 and type(ex).__name__ in ("UnpicklingError", "EOFError", "JSONDecodeError", "AttributeError", "ValueError", "IndexError", "KeyError") \
                            and any(c["crash"] == "wcommit" for c in crashes[: inc - 1]) and case["outcome"] != "refused":
                        fid = "NonAtomicWrite"
                    return (f"incarnation {inc} failed with {type(ex).__name__}: {ex} (crash history {[(c['crash'], c['v'], c['rep']) for c in crashes]})", fid)
            finally:
                if hasattr(resmod, "open"):
                    try:
                        del resmod.open
                    except AttributeError:
                        pass
                os.remove = real_remove
                os.replace = REAL_REPLACE
                runmod.time = real_time
            # a file is published (renamed into place) only when its content is completely written: what the name holds now
            # is what the temporary file held on the disk at the moment of the rename (a process death right after the rename
            # loses whatever was still buffered)
            for dst, data in published.items():
                if data is not None and os.path.exists(dst):
                    with builtins.open(dst, "rb") as fh:
                        if fh.read() != data:
                            return (f"incarnation {inc}: {os.path.basename(dst)} was renamed into place before its content was completely "
                                    "written (a crash right after the rename would have left a truncated file)"), None
            if not last:
                if fault is None:
                    if crashed:
                        return f"incarnation {inc}: crashed although it was to complete", None
                elif not crashed and not (fault["kind"] == "remove" and not case["delete"]):
                    return f"incarnation {inc}: the crash point {fault} was never reached", None
                # what this incarnation loaded must be what the model says was durably saved
                for v, r0 in seen.items():
                    exp = f_real(loaded.get((inc, v), 0))
                    # (with nothing to load the first count the stop rule sees is 1: the first repetition of this incarnation)
                    if r0 != (exp if exp else 1):
                        return f"incarnation {inc} resumed variation {v} from {r0} repetitions, the file held {exp}", None
                continue
            if case["outcome"] == "refused":
                return "partial results saved for other parameters were NOT refused", None
            if case["outcome"] != "done":
                return f"unexpected model outcome {case['outcome']}", None
            for v, r0 in seen.items():
                exp = f_real(loaded.get((inc, v), 0))
                if r0 != (exp if exp else 1):
                    return f"incarnation {inc} resumed variation {v} from {r0} repetitions, the file held {exp}", None
            # the completed simulation
            ends = {h["v"]: h["cnt"] for h in case["hist"] if "cnt" in h and h["inc"] == incs}
            # (a combination that already held more than this run's rep_max keeps what it has)
            wantR = [f_real(sum(ends[v])) for v in range(1, nv + 1)]
            if list(runner.runned_reps) != wantR:
                return f"runned_reps {list(runner.runned_reps)} != {wantR} (rep_max of the incarnations: {[f_real(x) for x in case['rms']]})", None
            for v in range(1, nv + 1):
                cnt = ends[v]
                R = wantR[v - 1]
                cum, prev, want = 0, 0, 0
                parts = []
                for j, c in enumerate(cnt):
                    cum += c
                    real = f_real(cum) - prev
                    prev = f_real(cum)
                    parts.append(real)
                    want += real * 1000 ** j
                res = runner.results["tok"][v - 1]
                if res.num_updates != R or res.get_result() != want:
                    return (f"variation {v}: stored value {res.get_result()} with {res.num_updates} updates; expected {want} = "
                            f"repetitions per incarnation {parts} (each counted once, total {R})"), None
                cho = runner.results["cho"][v - 1]
                if cho.num_updates != R or list(cho.get_result()) != [0.0, 1.0, 0.0]:
                    return f"variation {v}: the choice result has {cho.num_updates} updates / shares {list(cho.get_result())}, expected {R} / [0, 1, 0]", None
                rat = runner.results["rat"][v - 1]
                if rat.get_result() != want / (R * 2 ** 10):
                    return f"variation {v}: ratio result inconsistent with {parts}", None
            fn = os.path.join(wd, "res" + (ext if ext else ".pickle"))
            if not os.path.exists(fn):
                return f"no results file {fn}", None
            back = SimulationResults.load_from_file(fn)
            if [r.get_result() for r in back["tok"]] != [r.get_result() for r in runner.results["tok"]]:
                return "results file differs from the results in memory", None
            left = [f for f in os.listdir(wd) if "_unpack_" in f] + \
                   ([f for f in os.listdir(os.path.join(wd, "partial_results"))] if os.path.isdir(os.path.join(wd, "partial_results")) else [])
            if case["delete"] and [f for f in left if not f.endswith(".tmp")]:
                return f"partial files left behind: {left}", None
        return None, None
    except Exception as ex:          # noqa - raised while the restarted run's results / files were being examined: a verdict
        return f"the outcome of the restarted simulation cannot be examined: {type(ex).__name__}: {ex}", None
    finally:
        os.chdir(cwd)
        shutil.rmtree(wd, ignore_errors=True)


def model_devs(ctx):
    for dev in ("NonAtomicWrite", "SaveBeforeIncrement", "LoadedMergedTwice", "NoParamGuard"):
        cfg, defs = model(2, 4, 2, True, True, dev=[dev], emit=False)
        r = tlc.run(MODULE, cfg, defs=defs)
        if not r.violated:
            raise tlc.TlcError(f"deviation {dev} is not detected by the properties of Persist.tla")
        ctx.notes.setdefault("deviations_refuted_by_model", {})[dev] = r.violated


def run(ctx):
    ctx.rule = ("TLC enumerates every placement of up to MaxInc-1 crashes over all steps of simulate() incl. between SaveBegin and SaveCommit "
                "of every partial/final save, followed by a restart with the same or other parameters; distinct = crash histories executed")
    ctx.assumptions += ["a crash is emulated in-process by a BaseException at the corresponding hook / file operation and discarding the runner",
                        "model save period 3 is mapped to the code's 500 (r -> (r div 3)*500 + (0,1,499)[r mod 3])",
                        "stop rule 'always', no skips (those are C05)",
                        "half of the histories restart the SAME runner object (interrupted in-process), the other half a new object"]
    thorough = ctx.tier == "thorough"
    # (nv, repmax(model), maxinc, delete, mismatch, sample)
    cfgs = [(2, 2, 2, True, True, None), (2, 3, 2, False, True, None), (2, 4, 2, True, True, None), (1, 7, 2, True, True, None),
            (2, 4, 3, True, False, 250 if not thorough else 3000), (2, 7, 2, False, True, None if thorough else 120),
            (11, 2, 2, True, False, 60 if not thorough else 600),      # two-digit variation indexes in the partial file names
            (3, 1, 2, True, True, None), (2, 1, 3, True, False, None),  # rep_max 1 (the default): only the first-repetition path runs
            # the user asks for fewer, then again for more repetitions (rep_max is not a parameter): completed runs started again
            # on kept partial results, and crashes in between
            (2, [4, 2, 4], 3, False, False, 400 if not thorough else 4000, True), (1, [2, 4, 3], 3, False, False, None, True)]
    if thorough:
        cfgs += [(3, 4, 2, True, True, None), (2, 7, 3, True, False, 3000), (2, 10, 2, True, True, None)]
    with ThreadPoolExecutor(4) as ex:
        futs = [ex.submit(lambda c=c: tlc.run(MODULE, model(*c[:5], rerun=(len(c) > 6 and c[6]))[0], defs=model(*c[:5], rerun=(len(c) > 6 and c[6]))[1],
                                              coverage=True, timeout=3000, heap="3g")) for c in cfgs]
        devf = ex.submit(model_devs, ctx)
        runs = [f.result() for f in futs]
        devf.result()
    rng = random.Random(ctx.seed)
    for c, r in zip(cfgs, runs):
        label = (f"nv{c[0]}-rep{c[1]}({f_real(c[1])})-inc{c[2]}" if not isinstance(c[1], list)
                 else f"nv{c[0]}-reps{'-'.join(str(f_real(x)) for x in c[1])}-inc{c[2]}")
        ctx.account(r, MODULE, label)
        cases = r.emitted
        if c[5] and len(cases) > c[5]:
            cases = rng.sample(cases, c[5])
        # same-object restarts only where no timer point exists: after a save that crashed, the five-minute timer of a live
        # object stays expired and fires again at the next opportunity - correct, but outside the TimerAt abstraction
        for i, cs in enumerate(cases):
            if c[0] == 1 and i % 2 == 0:
                cs["nounpack"] = True
            if i % 5 == 3:
                cs["progress_file"] = True
        jobs = [(cs, (".pickle", ".json", "")[i % 3], (i // 3) % 2 == 1 and not timers_of(c[0], max(c[1]) if isinstance(c[1], list) else c[1]), (i // 2) % 2 == 1, (i // 5) % 2 == 1)
                for i, cs in enumerate(cases)]
        res = pool_map(run_case, jobs, chunksize=max(1, len(jobs) // 64))
        for (cs, ext, reuse, rel, rename), (d, fid) in zip(jobs, res):
            ctx.ok((label, str([(h.get("crash"), h["v"], h["rep"], h.get("wf"), h.get("nw")) for h in cs["hist"] if "crash" in h]), cs["pid"]))
            ctx.trace_done()
            if d:
                if fid:
                    ctx.finding(fid, d, {"case": cs, "ext": ext, "reuse": reuse, "rel": rel, "rename": rename})
                else:
                    ctx.violation(f"{label}{ext}{' (same runner object restarted)' if reuse else ''}{' (relative file name)' if rel else ''}: {d}",
                                  {"case": cs, "ext": ext, "reuse": reuse, "rel": rel, "rename": rename})
        if cases:
            cs = cases[len(cases) // 2]
            ctx.sample({"config": label, "crashes": [{k: h[k] for k in ("inc", "crash", "v", "rep", "wf", "nw")} for h in cs["hist"] if "crash" in h],
                        "outcome": cs["outcome"]})
    ctx.require_actions(["Load", "First", "Test", "Body", "VarSave", "SaveBegin", "SaveCommit", "AppendVar", "Delete", "Crash", "Restart"])
    ctx.exhaustive = True


def replay(ctx, data):
    c = data["case"]
    d, fid = run_case((c["case"], c["ext"], c.get("reuse", False), c.get("rel", False), c.get("rename", False)))
    ctx.ok()
    if d:
        if fid:
            ctx.finding(fid, d, c)
        else:
            ctx.violation(d, c)
