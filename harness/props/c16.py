"""C16 - theoretical error-rate curves are consistent with the emitted constellation.

Stage M  spec/modem/Constellation.tla, every cardinality: `Lemmas` - from the table the machine derives
         the parameters of the error-rate forms (ConstellationOps.SerParams: neighbour count per
         dimension a, b = dmin^2/2 in emitted units, dims, bits k) and TLC checks the composition laws
         on exact rationals (0 <= BER <= SER <= k BER <= ..., PER = 1-(1-BER)^L between BER and L BER,
         SE = k(1-PER) in [0,k], monotone in the Q value, 0 at Q = 0); Dev.BerNotPerBit is found.
Stage T  the table of every REAL modulator (BPSK, QPSK, PSK 2..1024 incl. after setPhaseOffset, QAM
         4..4096) is recorded and TLC (Trace_Constellation.tla) derives (a, b, dims, k) FROM THE
         RECORDED TABLE AND ITS RECORDED SCALE.
Stage R  (rel) Python evaluates  a*Q(sqrt(b*snr))  etc. with scipy's erfc for SNR = -30..60 dB and
         compares with calcTheoreticalSER / BER / PER / SpectralEfficiency of the same object (scalars,
         1-d and 2-d arrays, packet lengths 1..10^4), and checks range, monotonicity, the limit at
         very high SNR, BER <= SER <= k*BER and, for PSK, exact <= bound <= 2*exact against the exact
         AWGN symbol error rate (Craig's integral, scipy quad).  erfc and quad are trusted.
Stage H  HISTORIES of queries on one modulator object: spec/modem/ErrQuery.tla enumerates every history of
         {query fn in SER/BER/PER/SE/SE0 with the caller's SNR buffer itself / a copy / a view / a list / a
         float / an int, advance the buffer IN PLACE}; PureFunction (a query returns the curve at the CURRENT
         contents) holds, Dev.CachesByIdentity is found.  The emitted state graph is covered transition by
         transition (plus random walks) on a fresh real object per path, for every modulator class/order;
         each query is compared with the forms evaluated at Base + (the shift TLC emitted) and the buffer
         must not be modified by a query."""
import math
from concurrent.futures import ThreadPoolExecutor

import numpy as np

from .. import tlc, graph
from . import constellation_common as cc

ERRQ = "modem/ErrQuery.tla"
BASE = np.array([3.0, -30.0, 12.0, -17.0, -4.0])       # the caller's SNR buffer before any shift (dB, integers, NOT sorted)
STEPS, MAXSHIFT = [12, 36], 48                          # in-place increments; Base + 48 reaches 60 dB
FNS = ["SER", "BER", "PER", "SE", "SE0"]
HOWS = ["buffer", "copy", "view", "list", "scalar", "int", "intarray", "0d", "strided", "2d", "uint"]
REFUSALS = ["setConstellation3", "setConstellation2d", "setConstellationEmpty", "modulateM", "perBadLength", "serBadType"]

CARE = ["WellFormed", "Bijective", "Unchecked", "Accepts", "CopyIsEqual",
        # the EMITTED constellation (modulate of every label, every integer storage type) is the recorded table
        "ModulateLaw", "ModulateOk", "ShapeKept", "ArgumentsUnchanged", "ResultNotAliased"]
SNR_DB = np.arange(-30, 61, dtype=float)          # quick: 91 integer points (thorough: 364 points, see run)
PACKETS = [1, 2, 3, 7, 10, 100, 1000, 10000, 10 ** 6]


def typed_len(L, turn):
    """the packet length as int / np.int64 / np.uint8 (when it fits) / np.int32, rotating"""
    forms_ = [int, np.int64, np.int32] + ([np.uint8] if L <= 255 else [])
    return forms_[turn % len(forms_)](L)
REL = 1e-9


def qf(x):
    from scipy.special import erfc
    return 0.5 * erfc(np.asarray(x, dtype=float) / math.sqrt(2.0))


def forms(pr, snr_db):
    """evaluate the forms whose parameters TLC derived from the recorded table"""
    snr = 10.0 ** (np.asarray(snr_db, dtype=float) / 10.0)
    a, k, dims = cc.rat(pr["a"]), pr["k"], pr["dims"]
    if pr["form"] == "product":
        b = cc.rat(pr["b"])
        psc = a * qf(np.sqrt(b * snr))
        # 1 - (1 - psc)^dims without cancellation (dims is 1 or 2)
        ser = psc if dims == 1 else psc * (2.0 - psc)
        ber = dims * psc / k
    else:
        b = 2.0 * cc.rat(pr["b"]) * math.sin(math.pi * cc.rat(pr["sep"])) ** 2
        ser = a * qf(np.sqrt(b * snr))
        ber = ser / k
    return ser, ber


def psk_exact(M, snr_db):
    """exact AWGN symbol error rate of M-PSK (Craig): 1/pi * int_0^{pi(M-1)/M} exp(-snr sin^2(pi/M)/sin^2 t) dt"""
    from scipy.integrate import quad
    out = []
    s2 = math.sin(math.pi / M) ** 2
    for x in np.atleast_1d(snr_db):
        snr = 10.0 ** (x / 10.0)
        v, _ = quad(lambda t: math.exp(-snr * s2 / math.sin(t) ** 2) if t > 0 else 0.0, 0.0, math.pi * (M - 1) / M,
                    epsabs=0, epsrel=1e-11, limit=400)
        out.append(v / math.pi)
    return np.array(out)


def per_of(ber, L):
    """1 - (1 - ber)^L without cancellation"""
    return -np.expm1(L * np.log1p(-np.asarray(ber, dtype=float)))


# Absolute slack: expressions of the shape 1 - (1 - p)^n, which the property itself prescribes, cannot be
# evaluated in floating point to better than a few ulps of 1 per factor; that noise is not a deviation.
ULP1 = 4e-16


def close(got, exp, atol=1e-300):
    got = np.asarray(got, dtype=float)
    exp = np.asarray(exp, dtype=float)
    return got.shape == exp.shape and bool(np.all(np.abs(got - exp) <= REL * np.abs(exp) + atol))


def first_bad(got, exp, atol=1e-300):
    got = np.asarray(got, dtype=float).ravel()
    exp = np.asarray(exp, dtype=float).ravel()
    if got.shape != exp.shape:
        return 0
    return int(np.argmax(np.abs(got - exp) > REL * np.abs(exp) + atol))


def judge(ctx, name, spec, step, obj, pr, exact=True):
    """all comparisons for one live object whose table gave the parameters pr"""
    M, k = spec["M"], pr["k"]
    base = {"stage": "R", "spec": spec, "step": step, "params": pr}

    def bad(q, what, **kw):
        ctx.violation(f"{name}: {what}", dict(base, quantity=q, **kw))

    ser, ber = forms(pr, SNR_DB)
    calls = {"SER": (obj.calcTheoreticalSER, ser, ULP1 if pr["form"] == "product" else 1e-300),
             "BER": (obj.calcTheoreticalBER, ber, 1e-300)}
    vals = {}
    for q, (fn, exp, at) in calls.items():
        try:
            got = np.asarray(fn(SNR_DB), dtype=float)
            vals[q] = got
            g2 = np.asarray(fn(SNR_DB.reshape(7, -1)), dtype=float)
            gs = np.array([float(fn(float(x))) for x in SNR_DB[::6]])
            gi = float(fn(10))
        except Exception as ex:
            bad(q, f"calcTheoretical{q} raised {type(ex).__name__}: {ex}")
            continue
        if not close(got, exp, at):
            i = first_bad(got, exp, at)
            bad(q, f"calcTheoretical{q}({SNR_DB[i]:g} dB) = {got.ravel()[i] if got.size > i else got!r}, the constellation emitted implies {exp[i]!r} "
                   f"(a={pr['a']}, b={pr['b']}, sep={pr['sep']}, dims={pr['dims']}, k={k})", snr_db=float(SNR_DB[i]), exp=float(exp[i]))
        elif not close(g2, exp.reshape(7, -1), at):
            bad(q, f"calcTheoretical{q} of a 2-d SNR array differs from the element-wise values", snr_db="2d")
        elif not close(gs, exp[::6], at) or not close(gi, forms(pr, 10.0)[0 if q == "SER" else 1], at):
            bad(q, f"calcTheoretical{q} of a scalar SNR differs from the array value", snr_db="scalar")
        else:
            ctx.ok((name, q), n=len(SNR_DB) * 2 + len(gs) + 1)
    if len(vals) < 2:
        return
    S, B = vals["SER"], vals["BER"]
    # range, monotonicity, limit, BER <= SER <= k BER
    for q, v in vals.items():
        if not (np.all(v >= 0) and np.all(v <= 1)):
            bad(q, f"{q} leaves [0,1]: min {v.min()}, max {v.max()}")
        elif not np.all(np.diff(v) <= 1e-12 * v[:-1] + 1e-17):
            i = int(np.argmax(np.diff(v) > 1e-12 * v[:-1] + 1e-17))
            bad(q, f"{q} increases with SNR between {SNR_DB[i]:g} and {SNR_DB[i + 1]:g} dB", snr_db=float(SNR_DB[i]))
        else:
            ctx.ok((name, q, "range+monotone"), n=2 * len(v))
    try:
        lim = [float(obj.calcTheoreticalSER(x)) for x in (150.0, 300.0)] + [float(obj.calcTheoreticalBER(300.0))]
        if not all(0 <= x <= 1e-12 for x in lim) or lim[1] != 0.0:
            bad("SER", f"SER/BER do not tend to 0: values at 150/300 dB {lim}")
        else:
            ctx.ok((name, "limit"), n=3)
    except Exception as ex:
        bad("SER", f"evaluation at very high SNR raised {type(ex).__name__}: {ex}")
    # PER and spectral efficiency at very high SNR: 0 resp. exactly log2(M)
    try:
        for L in (1, 100, 10000):
            for x in (150.0, 300.0):
                pv, sv = float(obj.calcTheoreticalPER(x, L)), float(obj.calcTheoreticalSpectralEfficiency(x, L))
                if not (0 <= pv <= 1e-9 and abs(sv - k) <= 1e-9 * k) or (x == 300.0 and (pv != 0.0 or sv != k)):
                    bad("PER", f"PER(L={L}) / SE at {x:g} dB are {pv} / {sv}, expected 0 / {k}", L=L, snr_db=x)
                    raise StopIteration
        ctx.ok((name, "limit PER/SE"), n=12)
    except StopIteration:
        pass
    except Exception as ex:
        bad("PER", f"PER / SE at very high SNR raised {type(ex).__name__}: {ex}")
    # other FORMS of the SNR argument (the curve is a function of the values): integer dtype, 0-d array, strided view,
    # empty array, and 50 seeded non-grid values (float32 SNR values are not judged: the Q argument then carries float32
    # rounding, amplified by x^2 in erfc - no exact expectation exists)
    rs = np.random.RandomState(M * 7 + step)
    rnd = np.sort(rs.uniform(-30, 60, size=50))
    ints = np.arange(-30, 61)
    big = np.full(2 * len(ints) + 1, 999.0)
    big[1::2] = ints
    for q, fn, col in (("SER", obj.calcTheoreticalSER, 0), ("BER", obj.calcTheoreticalBER, 1)):
        at = ULP1 if (q == "SER" and pr["form"] == "product") else 1e-300
        trials = [("int64 array", ints.astype(np.int64), ints), ("int8 array", ints.astype(np.int8), ints), ("strided view", big[1::2], ints),
                  ("0-d array", np.array(7.5), 7.5), ("random values", rnd, rnd), ("column of a 2-d array", np.stack([ints, ints + 1.0], axis=1)[:, 1], ints + 1.0),
                  ("empty array", np.zeros(0), np.zeros(0))]
        for tn, arg, vals in trials:
            snap = np.array(arg, copy=True)
            try:
                got = np.asarray(fn(arg), dtype=float)
            except Exception as ex:
                bad(q, f"calcTheoretical{q} of an SNR argument given as {tn} raised {type(ex).__name__}: {ex}", snr_db=tn)
                continue
            want = forms(pr, vals)[col]
            if got.shape != np.shape(vals) or not close(got, want, at) or not np.array_equal(arg, snap):
                bad(q, f"calcTheoretical{q} of an SNR argument given as {tn} differs from the curve at its values (or modified / reshaped it)", snr_db=tn)
            elif tn == "random values" and not np.all(np.diff(got) <= 1e-12 * got[:-1] + 1e-17):
                bad(q, f"calcTheoretical{q} increases between two of the seeded SNR values", snr_db=tn)
            else:
                ctx.ok((name, q, tn), n=max(1, int(np.size(vals))))
    # ALL FOUR functions: an array result is the element-wise curve whatever the ORDER of the values (descending,
    # shuffled, 2-d with unsorted rows) and whatever the integer STORAGE (unsigned types for values >= 0, numpy scalars)
    nn = np.arange(0, 61, 3)
    perm = rs.permutation(91)
    order_trials = [("descending array", ints[::-1].astype(float)), ("shuffled array", ints[perm].astype(float)),
                    ("2-d array with unsorted rows", ints[perm][:90].reshape(9, 10).astype(float)),
                    ("uint8 array", nn.astype(np.uint8)), ("uint16 array", nn[::-1].astype(np.uint16)), ("uint32 array", nn.astype(np.uint32)),
                    ("uint64 array", nn.astype(np.uint64)), ("np.uint8 scalar", np.uint8(12)), ("np.uint64 scalar", np.uint64(33)),
                    ("np.int16 scalar", np.int16(-7))]
    for fn in FNS:
        Lq = 100
        call = {"SER": lambda a: obj.calcTheoreticalSER(a), "BER": lambda a: obj.calcTheoreticalBER(a),
                "PER": lambda a: obj.calcTheoreticalPER(a, Lq), "SE": lambda a: obj.calcTheoreticalSpectralEfficiency(a, Lq),
                "SE0": lambda a: obj.calcTheoreticalSpectralEfficiency(a)}[fn]
        for tn, arg in order_trials:
            vals = np.asarray(arg, dtype=float)
            want, at = expected_query(pr, fn, vals, Lq)
            try:
                got = np.asarray(call(arg), dtype=float)
                okq = got.shape == np.shape(vals) and close(got, want, at)
            except Exception as ex:
                got, okq = f"raised {type(ex).__name__}: {ex}"[:120], False
            if okq:
                ctx.ok((name, fn, tn), n=max(1, int(np.size(vals))))
            else:
                i = first_bad(got, want, at) if not isinstance(got, str) and np.shape(got) == np.shape(vals) else 0
                bad(fn, f"{fn} of an SNR argument given as {tn} is not the curve at its values: at position {i} ({np.ravel(vals)[i]:g} dB) "
                        f"{'got ' + repr(np.ravel(got)[i]) if not isinstance(got, str) and np.size(got) > i else got}, expected {np.ravel(want)[i]!r}", snr_db=tn)
    # copies: a pickled / deep-copied modulator gives the same curves
    import copy
    import pickle
    for how, mk in (("pickle", lambda: pickle.loads(pickle.dumps(obj))), ("copy.deepcopy", lambda: copy.deepcopy(obj)), ("copy.copy", lambda: copy.copy(obj))):
        try:
            cp = mk()
            same = all(np.array_equal(np.asarray(f(cp)), np.asarray(f(obj))) for f in
                       (lambda o: o.calcTheoreticalSER(SNR_DB), lambda o: o.calcTheoreticalBER(SNR_DB), lambda o: o.calcTheoreticalPER(SNR_DB, 10),
                        lambda o: o.calcTheoreticalSpectralEfficiency(SNR_DB, 10)))
        except Exception as ex:
            same = False
            how += f" (raised {type(ex).__name__}: {ex})"[:120]
        if same:
            ctx.ok((name, "copy", how), n=4 * len(SNR_DB))
        else:
            bad("SER", f"CopyIsEqual: the error-rate curves of a {how} copy differ from those of the original", snr_db=how)
    tol = 1e-12
    if not (np.all(B <= S * (1 + tol) + ULP1) and np.all(S <= k * B * (1 + tol) + ULP1)):
        i = int(np.argmax((B > S * (1 + tol) + ULP1) | (S > k * B * (1 + tol) + ULP1)))
        bad("BER", f"BER <= SER <= log2(M) BER fails at {SNR_DB[i]:g} dB: BER {B[i]}, SER {S[i]}, k {k}", snr_db=float(SNR_DB[i]))
    else:
        ctx.ok((name, "order"), n=len(S))
    # PER and spectral efficiency: composition of what calcTheoreticalBER returns
    try:
        se0 = np.asarray(obj.calcTheoreticalSpectralEfficiency(SNR_DB), dtype=float)
        if not close(se0, k * (1.0 - B), ULP1 * k) or not close(se0, k * (1.0 - ber), ULP1 * k):
            i = first_bad(se0, k * (1.0 - ber), ULP1 * k)
            bad("SE", f"spectral efficiency without packet length at {SNR_DB[i]:g} dB is {se0.ravel()[i]}, log2(M)(1-BER) = {k * (1 - ber[i])}",
                snr_db=float(SNR_DB[i]), L=None)
        else:
            ctx.ok((name, "SE"), n=len(se0))
        for li, L in enumerate(PACKETS):
            Lt = typed_len(L, li + M)
            per = np.asarray(obj.calcTheoreticalPER(SNR_DB, Lt), dtype=float)
            se = np.asarray(obj.calcTheoreticalSpectralEfficiency(SNR_DB, Lt), dtype=float)
            pe = per_of(ber, L)
            at = ULP1 * (L + 1)
            ok = close(per, pe, at) and close(per, per_of(B, L), at)
            if not ok:
                i = first_bad(per, pe, at)
                bad("PER", f"PER(L={L}) at {SNR_DB[i]:g} dB is {per.ravel()[i]}, 1-(1-BER)^L = {pe[i]}", snr_db=float(SNR_DB[i]), L=L)
                continue
            if not close(se, k * (1.0 - pe), k * at):
                i = first_bad(se, k * (1.0 - pe), k * at)
                bad("SE", f"spectral efficiency (L={L}) at {SNR_DB[i]:g} dB is {se.ravel()[i]}, log2(M)(1-PER) = {k * (1 - pe[i])}",
                    snr_db=float(SNR_DB[i]), L=L)
                continue
            if not (np.all(per >= 0) and np.all(per <= 1) and np.all(np.diff(per) <= at) and np.all(se >= 0) and np.all(se <= k * (1 + 1e-15))
                    and np.all(per >= B * (1 - 1e-9) - at) and np.all(per <= L * B * (1 + 1e-9) + at)):
                bad("PER", f"PER(L={L}) leaves [BER, L*BER] / [0,1] or increases with SNR, or SE leaves [0, log2 M]", L=L)
                continue
            s1 = float(obj.calcTheoreticalPER(7.0, L))
            if not close(s1, per_of(forms(pr, 7.0)[1], L), at):
                bad("PER", f"PER(L={L}) of a scalar SNR differs from the array value", L=L, snr_db="scalar")
                continue
            ctx.ok((name, "PER/SE", L), n=4 * len(per))
    except Exception as ex:
        bad("PER", f"PER / spectral efficiency raised {type(ex).__name__}: {ex}")
    # PSK: the formula is the two-nearest-neighbour bound: exact <= bound <= 2 exact   (rel)
    if pr["form"] == "psk" and exact:
        step = 3 if len(SNR_DB) < 100 else 8
        pts = SNR_DB[::step]
        ex_ = psk_exact(M, pts)
        bnd = S[::step]
        use = ex_ > 1e-250
        lo = ex_[use] <= bnd[use] * (1 + 1e-7)
        hi = bnd[use] <= 2 * ex_[use] * (1 + 1e-7)
        if not (np.all(lo) and np.all(hi)):
            i = int(np.argmax(~(lo & hi)))
            bad("SER", f"PSK bound {bnd[use][i]} is not between the exact AWGN SER {ex_[use][i]} and twice it at {pts[use][i]:g} dB",
                snr_db=float(pts[use][i]))
        else:
            ctx.ok((name, "exact<=bound<=2exact"), n=int(use.sum()))


# ------------------------------------------------------------------ stage H: query histories
ERRQ_DEVS = {"CachesByIdentity": "PureFunction", "QueryTouchesTable": "QueryIsPure", "QueryWritesArgument": "ArgumentsUnchanged",
             "ResultBufferReused": "EarlierResultsUnchanged", "RefusedCallHalfUpdates": "RejectedChangesNothing",
             "MonotoneEnvelope": "PureFunction"}


def errq_cfg(dev=None, emit=True):
    dev = "CachesByIdentity" if dev is True else dev
    defs = {"Dev": tlc.tla({k: (k == dev) for k in ERRQ_DEVS})}
    cfg = tlc.cfg_text(constants={"Steps": tlc.tla(set(STEPS)), "MaxShift": str(MAXSHIFT), "Fns": tlc.tla(set(FNS)),
                                  "Hows": tlc.tla(set(HOWS)), "Refusals": tlc.tla(set(REFUSALS))},
                       defs=defs, invariants=["TypeOK", "PureFunction", "QueryIsPure", "ArgumentsUnchanged", "EarlierResultsUnchanged", "RejectedChangesNothing"], view="View",
                       action_constraints=["Emit"] if emit else [])
    return cfg, defs


def expected_query(pr, fn, values, L):
    ser, ber = forms(pr, values)
    k = pr["k"]
    if fn == "SER":
        return ser, (ULP1 if pr["form"] == "product" else 1e-300)
    if fn == "BER":
        return ber, 1e-300
    if fn == "PER":
        return per_of(ber, L), ULP1 * (L + 1)
    if fn == "SE":
        return k * (1.0 - per_of(ber, L)), k * ULP1 * (L + 1)
    return k * (1.0 - ber), k * ULP1


def observe(o, probe_snr):
    """everything a caller can see of a modulator (comparisons are total: an exception is an observation too)"""
    out = []
    for f in (lambda: np.array(o.symbols, copy=True).tolist(), lambda: (o.M, float(o.K), o.name),
              lambda: np.asarray(o.calcTheoreticalSER(probe_snr)).tolist(), lambda: np.asarray(o.calcTheoreticalBER(probe_snr)).tolist(),
              lambda: np.asarray(o.calcTheoreticalSpectralEfficiency(probe_snr, 10)).tolist(),
              lambda: np.asarray(o.demodulate(np.asarray(o.modulate(np.arange(min(o.M, 8)))).astype(complex))).tolist()):
        try:
            out.append(repr(f()))
        except Exception as ex:
            out.append(f"raised {type(ex).__name__}")
    return out


def refused_step(obj, which, buf):
    """RejectedChangesNothing: the call is made on a deep copy; if it RAISES, the copy must still look exactly like the
    object (if it is accepted there is nothing to judge - the copy is simply discarded)"""
    import copy
    probe = copy.deepcopy(obj)
    before = observe(probe, np.array(buf, copy=True))
    calls = {"setConstellation3": lambda: probe.setConstellation(np.array([1, -1, 1j])),
             "setConstellation2d": lambda: probe.setConstellation(np.ones((2, 2), dtype=complex)),
             "setConstellationEmpty": lambda: probe.setConstellation(np.array([], dtype=complex)),
             "modulateM": lambda: probe.modulate(np.array([0, probe.M])),
             "perBadLength": lambda: probe.calcTheoreticalPER(np.array(buf, copy=True), "ten"),
             "serBadType": lambda: probe.calcTheoreticalSER("high")}
    import warnings
    try:
        with warnings.catch_warnings():
            warnings.simplefilter("ignore")
            calls[which]()
        return None                 # accepted: not a refused call on this tree
    except Exception as ex:
        after = observe(probe, np.array(buf, copy=True))
        names = ["symbols", "M/K/name", "SER", "BER", "spectral efficiency", "round trip"]
        diff = [n for n, a_, b_ in zip(names, before, after) if a_ != b_]
        if diff:
            return f"RejectedChangesNothing: {which} raised {type(ex).__name__} but left the object changed ({', '.join(diff)} differ)"
        return None


def run_history(job):
    """job = (spec, params, path edges, L, seed) -> (queries ok, violations).  One fresh object per path."""
    spec, pr, edges, L, seed = job
    obj = cc.make(spec["kind"], spec["M"], (spec.get("phases") or [0.0])[0])
    for ph in (spec.get("phases") or [0.0])[1:]:
        obj.setPhaseOffset(ph)
    buf = BASE.copy()
    shift = 0
    okc, viol = 0, []
    sym0, prev = np.array(obj.symbols, copy=True), None       # call discipline: object state / previously returned array
    for i, e in enumerate(edges):
        if e["fn"] == "advance":
            buf += e["d"]                       # in place: same object, new contents
            shift += e["d"]
            continue
        j = (seed + i) % len(BASE)
        how, fn = e["how"], e["fn"]
        if fn == "refused":
            v = refused_step(obj, how, buf)
            if v:
                viol.append({"step": i, "what": v + f" (step {i} of the history {[x['fn'] + ':' + x['how'] for x in edges[:i + 1]]})"})
                break
            okc += 1
            continue
        if how == "strided":                    # a non-contiguous array holding the same values
            wide = np.full(2 * len(buf) + 1, 999.0)
            wide[1::2] = buf
        arg = {"buffer": buf, "copy": buf.copy(), "view": buf[:], "list": [float(v) for v in buf], "scalar": float(buf[j]),
               "int": int(buf[j]), "intarray": buf.astype(np.int64), "0d": np.array(buf[j]),
               "strided": wide[1::2] if how == "strided" else None,
               "2d": np.stack([buf, buf[::-1]]),
               # unsigned storage whenever the values allow it (a dB value >= 0 is a legal value of the type)
               "uint": buf.astype([np.uint8, np.uint16, np.uint64][(seed + i) % 3] if buf.min() >= 0 else np.int16)}[how]
        values = BASE + e["at"]                 # where TLC says the returned curve must be evaluated
        if how in ("scalar", "int", "0d"):
            values = values[j]
        elif how == "2d":
            values = np.stack([values, values[::-1]])
        exp, at = expected_query(pr, fn, values, L)
        snap = np.array(arg, copy=True) if isinstance(arg, np.ndarray) else (list(arg) if isinstance(arg, list) else arg)
        try:
            call = {"SER": lambda: obj.calcTheoreticalSER(arg), "BER": lambda: obj.calcTheoreticalBER(arg),
                    "PER": lambda: obj.calcTheoreticalPER(arg, L), "SE": lambda: obj.calcTheoreticalSpectralEfficiency(arg, L),
                    "SE0": lambda: obj.calcTheoreticalSpectralEfficiency(arg)}[fn]
            raw = call()
            got = np.asarray(raw, dtype=float)
        except TypeError as ex:
            if how == "list":                   # lists are outside "scalars or arrays"; refusing them is not judged
                continue
            viol.append({"step": i, "what": f"{fn}({how}) raised TypeError: {ex}"})
            break
        except Exception as ex:
            viol.append({"step": i, "what": f"{fn}({how}) raised {type(ex).__name__}: {ex}"})
            break
        if not close(got, exp, at):
            viol.append({"step": i, "what": f"{fn} of the {how} argument holding {np.atleast_1d(BASE + shift if how not in ('scalar', 'int', '0d') else (BASE + shift)[j]).tolist()} dB "
                                          f"returned {np.atleast_1d(got).tolist()}, the curve at these values is {np.atleast_1d(exp).tolist()} "
                                          f"(step {i} of the history {[x['fn'] + ':' + x['how'] for x in edges[:i + 1]]})"})
            break
        if not np.array_equal(buf, BASE + shift) or (isinstance(arg, (np.ndarray, list)) and not np.array_equal(np.asarray(arg), np.asarray(snap))):
            viol.append({"step": i, "what": f"ArgumentsUnchanged: {fn}({how}) modified the caller's SNR argument"})
            break
        if prev is not None and not np.array_equal(prev[0], prev[1]):
            viol.append({"step": i, "what": f"EarlierResultsUnchanged: {fn}({how}) overwrote the array returned by the previous query"})
            break
        if not (np.asarray(obj.symbols).shape == sym0.shape and np.array_equal(np.asarray(obj.symbols), sym0)):
            viol.append({"step": i, "what": f"QueryIsPure: {fn}({how}) changed the symbol table of the modulator"})
            break
        prev = (raw, np.array(raw, copy=True)) if isinstance(raw, np.ndarray) else None
        okc += 1
    return okc, viol


def history_stage(ctx, objects):
    """objects: list of (spec, params).  Returns number of paths replayed."""
    from concurrent.futures import ThreadPoolExecutor
    import random
    with ThreadPoolExecutor(min(3, cc.nthreads())) as ex:
        f1 = ex.submit(lambda: tlc.run(ERRQ, errq_cfg()[0], defs=errq_cfg()[1], coverage=True, timeout=900))
        fd = {d: ex.submit(lambda d=d: tlc.run(ERRQ, errq_cfg(dev=d, emit=False)[0], defs=errq_cfg(dev=d)[1], timeout=900)) for d in ERRQ_DEVS}
        r = f1.result()
        for d, f in fd.items():
            rdev = f.result()
            if rdev.violated != ERRQ_DEVS[d]:
                raise tlc.TlcError(f"ErrQuery.tla: Dev.{d} was expected to violate {ERRQ_DEVS[d]}, TLC reported {rdev.violated}")
            ctx.notes.setdefault("deviations_refuted_by_model", {})[d] = rdev.violated
    ctx.account(r, ERRQ, "query histories")
    if not any(e["fn"] != "advance" for e in r.emitted):
        raise tlc.TlcError("ErrQuery.tla emitted no query transition (vacuous history stage)")
    g = graph.Graph(r.emitted, label=lambda e: graph.key([e["fn"], e["how"], e["d"]]))
    root = g.roots()[0]
    rng = random.Random(ctx.seed)
    paths = g.transition_cover(root, max_len=12, rng=rng)
    paths += g.random_walks(root, 400 if ctx.tier == "thorough" else 40, 14, rng)
    jobs = []
    for oi, (spec, pr) in enumerate(objects):
        for pi, p in enumerate(paths):
            # every modulator runs every path in the thorough tier, a rotating third of them in the quick tier
            if ctx.tier != "thorough" and (pi + oi) % 3:
                continue
            jobs.append((spec, pr, [{k: e[k] for k in ("fn", "how", "d", "at")} for e in g.path_edges(p)], PACKETS[(pi + oi) % len(PACKETS)], pi + oi))
    res = cc_pool(run_history, jobs)
    for job, (okc, viol) in zip(jobs, res):
        ctx.ok(n=okc)
        ctx.trace_done()
        for v in viol[:1]:
            ctx.violation(f"{job[0]['kind']}({job[0]['M']}) query history: {v['what']}",
                          {"stage": "H", "spec": job[0], "params": job[1], "path": job[2], "L": job[3], "seed": job[4], "failing": v})
    for _, _, e in g.edges:
        ctx.distinct.add(("H", graph.key(e["pre"]), e["fn"], e["how"], e["d"]))
    ctx.sample({"stage": "H", "history": [f"{e['fn']}:{e['how']}" for e in g.path_edges(paths[len(paths) // 3])]})
    ctx.notes["query_history_graph"] = {"states": len(g.nodes), "edges": len(g.edges), "paths": len(paths), "replayed": len(jobs)}
    return len(jobs)


def cc_pool(fn, items):
    from ..core import pool_map
    return pool_map(fn, items, chunksize=max(1, len(items) // 64))


def object_specs(ctx):
    th = ctx.tier == "thorough"
    rng = np.random.RandomState(ctx.seed + 16)
    specs = [dict(kind="BPSK", M=2, calls=False, emit=True), dict(kind="QPSK", M=4, calls=False, emit=True)]
    specs += [dict(kind="QAM", M=M, calls=False, emit=True) for M in cc.QAM_ORDERS]
    for M in cc.PSK_ORDERS + ([2048, 4096] if th else []):
        p0 = float(rng.choice([0.0, math.pi / M, 0.3]))
        # judged once straight after the constructor (the commonest use) and once after a setPhaseOffset call
        specs.append(dict(kind="PSK", M=M, calls=False, emit=True, phases=[p0 if M % 3 else 0.0]))
        specs.append(dict(kind="PSK", M=M, calls=False, emit=True, phases=[p0, float(rng.uniform(-7, 7))]))
    return specs


def run(ctx):
    ctx.rule = ("for every modulator/order TLC derives (a, b, dims, k) of the error-rate forms from the table and scale RECORDED "
                "from the real object; the implementation's curves are compared with the evaluated forms on 91 SNR points "
                "(rel 1e-9) plus composition laws, range, monotonicity, limit and the PSK exact/bound sandwich; "
                "distinct = (modulator table, quantity[, packet length]) groups")
    ctx.assumptions += ["(rel) scipy erfc and quad are trusted; comparisons use relative tolerance 1e-9 (+1e-300)",
                        "SNR = Es/N0 with the noise added to the emitted symbols: b uses the RECORDED scale of the table",
                        "PSK formula = two-nearest-neighbour bound; exact SER by Craig's integral"]
    global SNR_DB
    if ctx.tier == "thorough":
        SNR_DB = np.linspace(-30.0, 60.0, 364)        # 364 = 7 * 52 points, about 0.25 dB apart
    specs = object_specs(ctx)
    jobs = [("psk/cards", dict(kind="PSK", cards=list(range(0, 1101)) + [2048, 4096], noff=1, smode="seeded", nrows=1, rowlen=2, workers=1)),
            ("qam/cards", dict(kind="QAM", cards=list(range(0, 1101)) + [4096], smode="seeded", nrows=1, rowlen=2, workers=1)),
            ("bpsk/cards", dict(kind="BPSK", cards=[0, 1, 2, 3], smode="seeded", nrows=1, rowlen=2))]
    with ThreadPoolExecutor(cc.nthreads()) as ex:
        futs = [(n, ex.submit(cc.run_machine, **kw)) for n, kw in jobs]
        devf = ex.submit(cc.model_devs, ctx, ["BerNotPerBit", "NoNormalisation"])
        recs = [cc.record_history(sp) for sp in specs]
        runs = [(n, f.result()) for n, f in futs]
        devf.result()
    ref = {}
    for n, r in runs:
        ctx.account(r, cc.MODULE, n)
        for e in r.emitted:
            if e.get("table") == "construct" and e.get("params"):
                ref[(e["kind"], e["m"])] = e["params"]
    ctx.require_actions(["Construct", "SetPhaseOffsetAny"])
    traces = [t for t, _ in recs]
    verdicts = cc.validate(ctx, traces, CARE, "tables")
    nobj = 0
    hobjs = []
    for (tr, live), vd in zip(recs, verdicts):
        cc.report(ctx, tr, vd, CARE, "(C16: the curves are judged against this recorded table; what modulate emits must be this table)")
        ctx.trace_done()
        if live is None:
            ctx.violation(f"{tr['spec']['kind']}({tr['m']}) could not be constructed", {"stage": "T", "spec": tr["spec"], "event": 1})
            continue
        obj, tables = live
        tev = [e for e in vd if e["op"] in ("construct", "setoff")]
        e = tev[-1]                      # the object is now in the state after the last table event
        step = len(tev) - 1
        name = f"{tr['spec']['kind']}({tr['m']})" + (f" after setPhaseOffset x{step}" if step else "")
        if not e["params"]:
            ctx.violation(f"{name}: no parameters derivable from the recorded table", {"stage": "T", "spec": tr["spec"], "event": e["ev"]})
            continue
        pr = e["params"]
        if not pr["sym"]:
            ctx.violation(f"{name}: the recorded point set is not a product grid with equal carriers; the single-carrier form does not apply",
                          {"stage": "T", "spec": tr["spec"], "event": e["ev"]})
            continue
        judge(ctx, name, tr["spec"], step, obj, pr, exact=(ctx.tier == "thorough" or tr["m"] <= 1024))
        nobj += 1
        hobjs.append((tr["spec"], pr))
        if tr["kind"] == "QAM" and tr["m"] == 16:
            ctx.sample({"stage": "T+R", "modulator": name, "recorded_scale": tr["events"][0]["scale"], "params_from_TLC": pr,
                        "ser_at_10dB": float(forms(pr, 10.0)[0]), "implementation": float(obj.calcTheoreticalSER(10.0))})
    nh = history_stage(ctx, hobjs)
    ctx.require_actions(["Advance"])
    ctx.notes["query_histories_replayed"] = nh
    ctx.sample({"stage": "M", "reference_machine_params": {f"{k[0]}{k[1]}": v for k, v in list(ref.items())[:3]}})
    ctx.exhaustive = False
    ctx.notes["bounds"] = {"modulators": nobj, "snr_db": [-30, 60], "snr_points": int(len(SNR_DB)), "packet_lengths": PACKETS}


def replay(ctx, data):
    c = data["case"]
    if c.get("stage") == "T":
        tr, _ = cc.record_history(c["spec"])
        vd = cc.validate(ctx, [tr], CARE, "replay", nparts=1)[0]
        cc.report(ctx, tr, vd, CARE)
        return
    if c.get("stage") == "H":
        okc, viol = run_history((c["spec"], c["params"], c["path"], c["L"], c["seed"]))
        ctx.ok(n=okc)
        for v in viol[:1]:
            ctx.violation(f"replay: {v['what']}", c)
        return
    tr, live = cc.record_history(c["spec"])
    judge(ctx, "replay", c["spec"], c["step"], live[0], c["params"])
